import Larking.Driver.Util
import Larking.Gen.Codes
import Larking.Model.Status
import Larking.Gen.Grpc
import Larking.Model.Timeout
import Larking.Model.Metadata
import Larking.Model.StreamCodec
import Larking.Model.Selector
import Larking.Model.Negotiate
import Larking.Model.Trie
import Larking.Model.TrieDel
import Larking.Gen.TrieDel
import Larking.Model.Streams
import Larking.Model.Param
import Larking.Model.Registry
import Larking.Model.Events
import Larking.Model.Proxy
import Larking.Model.Mount
import Larking.Model.WebWriter
import Larking.Model.Lifecycle
import Larking.Model.WsClose
import Larking.Gen.Params
import Larking.Gen.Dispatch
import Larking.Model.Dispatch
import Larking.Gen.Lexer
import Larking.Model.FieldPath
namespace Larking.Driver
open Larking.Status

def handleC05 : List String → Option String
  | ["httpstatus", n] => n.toNat?.map fun c =>
      showOutcome toString (lookup Gen.httpGuardOp Gen.httpGuardLen Gen.codeToHTTPStatus Gen.httpDefault c)
  | ["wsstatus", n] => n.toNat?.map fun c =>
      showOutcome toString (lookup Gen.wsGuardOp Gen.wsGuardLen Gen.codeToWSStatus Gen.wsDefault c)
  | ["pct", h] => (hexArg h).map fun b => toHex (encodeGrpcMessage Gen.needsEsc b)
  | ["unpct", h] => (hexArg h).map fun b => toHex (decodeGrpcMessage b)
  | ["twirp", n] => n.toNat?.map fun c => twirpName Gen.twirpNames c
  | ["b64text", closed, ws] =>
      let parts := (ws.splitOn ";").filterMap hexArg
      some (toHex (textModeOutput (closed == "1") parts))
  | ["b64enc", url, pad, h] => (hexArg h).map fun b => toHex (Base64.encode (url == "url") (pad == "pad") b)
  | ["b64dec", url, pad, h] => (hexArg h).map fun b => optHex (Base64.decode (url == "url") (pad == "pad") b)
  | _ => none

/-- entries: `khex:xv1,xv2;khex:…` (values carry an `x` prefix so that an empty value and
an empty list differ). -/
def parseMD (s : String) : Option Metadata.MD :=
  if s.isEmpty then some [] else
  (s.splitOn ";").mapM fun e =>
    match e.splitOn ":" with
    | [k, vs] => do
        let kb ← hexArg k
        let vals ← (if vs.isEmpty then some [] else (vs.splitOn ",").mapM fun v => hexArg (v.drop 1).toString)
        pure (kb, vals)
    | _ => none

def showMD (md : Metadata.MD) : String :=
  let entries := md.map fun kv => toHex kv.1 ++ ":" ++ ",".intercalate (kv.2.map fun v => "x" ++ toHex v)
  ";".intercalate (entries.toArray.qsort (· < ·)).toList

def handleC14C15 : List String → Option String
  | ["timeout", h] => (hexArg h).map fun b =>
      match Timeout.decodeTimeout Gen.timeoutUnits Gen.timeoutMinLen Gen.timeoutMaxLen Gen.timeoutAcceptsSign b with
      | .ok v => "ok " ++ toString v
      | _ => "err"
  | ["gate", h] =>
      -- what serveGRPC does with the grpc-timeout header ("!" = no such header)
      let hdr : Option (Option Bytes) := if h == "!" then some none else (hexArg h).map some
      hdr.map fun hv =>
        match Timeout.timeoutGate (Timeout.decodeTimeout Gen.timeoutUnits Gen.timeoutMinLen Gen.timeoutMaxLen Gen.timeoutAcceptsSign) hv with
        | .refused => "refused"
        | .run none => "run none"
        | .run (some d) => "run " ++ toString d
  | ["bindec", h] => (hexArg h).map fun b => optHex (Metadata.decodeBin Gen.binPaddedWhenMul4 b)
  | ["binenc", h] => (hexArg h).map fun b => toHex (Metadata.encodeBin b)
  | ["canon", h] => (hexArg h).map fun b => toHex (Metadata.canonical b)
  | ["mdin", e] => (parseMD e).map fun md =>
      showMD (Metadata.incoming Gen.reservedHeaders Gen.whitelistedHeaders Gen.binPaddedWhenMul4 md)
  | ["mdout", e] => (parseMD e).map fun md => showMD (Metadata.outgoing Gen.reservedHeaders md)
  | _ => none

def natList (s : String) : List Nat :=
  if s.isEmpty then [] else (s.splitOn ",").filterMap (·.toNat?)

def showErr : Option RErr → String
  | none => "nil"
  | some e => e.name

def showResult (r : Codec.Result) (e : Env) : String :=
  s!"ok dst={toHex r.dst.data} n={r.n} err={showErr r.err} rest={toHex e.data}"

/-- readnext <codec> <limit> <carry hex> <spare0> <wire hex> <sched> <eofWithData> <rooms> -/
def handleC17 : List String → Option String
  | ["readnext", codec, limit, carry, spare, wire, sched, eofd, rooms] => do
      let c ← hexArg carry
      let w ← hexArg wire
      let lim ← limit.toNat?
      let sp ← spare.toNat?
      let e : Env := { data := w, sched := natList sched, eofWithData := eofd == "1", grows := natList rooms }
      let b : Buf := { data := c, spare := sp }
      match codec with
      | "proto" =>
          match Codec.protoReadNext e b lim with
          | (.ok r, e') => pure (showResult r e')
          | (.panic _, _) => pure "panic"
          | (.err k, _) => pure ("err " ++ k)
      | "json" => let (r, e') := Codec.jsonReadNext e b lim; pure (showResult r e')
      | "body" => let (r, e') := Codec.bodyReadNext e b lim; pure (showResult r e')
      | "readall" =>
          let (b', err, e') := Codec.readAll e b lim
          pure s!"ok dst={toHex b'.data} n={b'.data.length} err={showErr err} rest={toHex e'.data}"
      | _ => none
  | ["writenext", codec, m] => do
      let b ← hexArg m
      match codec with
      | "proto" => pure (toHex (Codec.protoWriteNext b))
      | "json" => pure (toHex (Codec.jsonWriteNext b))
      | "body" => pure (toHex b)
      | _ => none
  | ["growcap", a, b] => do pure (toString (Codec.growcap (← a.toNat?) (← b.toNat?)))
  | ["varint", h] => (hexArg h).map fun b =>
      match Codec.getVarint b with
      | some (v, k) => s!"ok {v} {k}"
      | none => "err"
  | _ => none

/-- selector <sel>|<sel>|… <name> -/
def handleC19 : List String → Option String
  | ["selector", sels, name] =>
      let dec := fun (s : String) => if s == "<>" then "" else s  -- "<>" spells the empty string
      let ss := if sels.isEmpty then [] else (sels.splitOn "|").map (fun s => (dec s).splitOn ".")
      match Selector.setRules ss with
      | .ok t => some (",".intercalate ((t.get ((dec name).splitOn ".")).map toString))
      | .panic _ => some "panic"
      | .err k => some ("err " ++ k)
  | _ => none

def hexList (s : String) : Option (List Bytes) :=
  if s.isEmpty then some [] else (s.splitOn ";").mapM fun h => hexArg (if h == "-" then "" else h)

def handleC04 : List String → Option String
  | ["accept", lines] => do
      let ls ← hexList lines
      let specs := Negotiate.parseAccept ls
      pure (",".intercalate (specs.map fun sp => s!"{toHex sp.value}:{sp.q.num}/{sp.q.den}"))
  | ["negtype", lines, offers, dflt] => do
      let ls ← hexList lines
      let os ← hexList offers
      let d ← hexArg dflt
      pure (toHex (Negotiate.negotiateContentType (Negotiate.parseAccept ls) os d))
  | ["negenc", lines, offers] => do
      let ls ← hexList lines
      let os ← hexList offers
      pure (toHex (Negotiate.negotiateContentEncoding (Negotiate.parseAccept ls) os))
  | _ => none

/-! ### protocol dispatch -/
def handleDispatch : List String → Option String
  | ["dispatch", pm, ct] => do
      let p ← pm.toNat?
      let c ← hexArg ct
      pure (Dispatch.dispatch (Dispatch.ofGen Gen.Dispatch.tests) p c).name
  | ["iswebreq", ct, method] => do
      let c ← hexArg ct
      let m ← hexArg method
      pure (match Dispatch.isWebRequest c m with
        | some (t, e) => "ok " ++ toHex t ++ " " ++ toHex e
        | none => "no")
  | ["normpath", p] => (hexArg p).map fun b => toHex (Dispatch.normPath b)
  | _ => none

/-! ### routing -/
open Lexer Trie in
/-- runes: `hex.ch.flags` joined by `_` (`-` = empty); flags: letter=1 ident=2 literal=4 path=8 -/
def parseRunes (s : String) : Option (List Lexer.Rune) :=
  if s == "-" || s.isEmpty then some [] else
  (s.splitOn "_").mapM fun it =>
    match it.splitOn "." with
    | [h, ch, fl] => do
        let b ← hexArg h
        let c ← ch.toNat?
        let f ← fl.toNat?
        pure { bytes := b, ch := c, letter := f % 2 == 1, ident := f / 2 % 2 == 1,
               literal := f / 4 % 2 == 1, path := f / 8 % 2 == 1 }
    | _ => none

def showToks (ts : List Lexer.Tok) : String :=
  " ".intercalate (ts.map fun t => t.typ.name ++ ":" ++ toHex t.val)

def showLex : Outcome (List Lexer.Tok) → String
  | .ok ts => "ok " ++ showToks ts
  | .err k => "err " ++ k
  | .panic _ => "panic"

/-- resolve table: `keyhex.keyhex:id:kind|…` (kind S = any text converts, X = nothing converts,
I = int32 text) -/
def parseTable (s : String) : List (List Bytes × Nat × String) :=
  if s == "-" || s.isEmpty then [] else
  (s.splitOn "|").filterMap fun it =>
    match it.splitOn ":" with
    | [ks, id, kind] => do
        let keys ← (ks.splitOn ".").mapM hexArg
        let i ← id.toNat?
        pure (keys, i, kind)
    | _ => none

structure DBinding where
  mid : Nat
  kind : String
  b : Trie.Binding
  table : List (List Bytes × Nat × String)

/-- binding: `mid,rule,kind,verbhex,tmplrunes,bodyOk,respOk,table` -/
def parseBinding (s : String) : Option DBinding :=
  match s.splitOn "," with
  | [mid, rule, kind, verb, tmpl, bok, rok, table] => do
      let m ← mid.toNat?
      let r ← rule.toNat?
      let v ← hexArg verb
      let t ← parseRunes tmpl
      pure { mid := m, kind := kind, table := parseTable table,
             b := { verb := v, tmpl := t, bodyOk := bok == "1", respOk := rok == "1", rule := r } }
  | _ => none

def resolveOf (table : List (List Bytes × Nat × String)) (keys : List Bytes) : Option Nat :=
  (table.find? fun e => e.1 == keys).map (·.2.1)

def isIntText (b : Bytes) : Bool :=
  if b == [110, 117, 108, 108] then true else   -- "null": json.Unmarshal leaves the zero value
  match b with
  | 45 :: d :: rest => (d :: rest).all (fun c => 48 ≤ c.toNat && c.toNat ≤ 57) && (d != 48 || rest.isEmpty) && rest.length < 9
  | d :: rest => (d :: rest).all (fun c => 48 ≤ c.toNat && c.toNat ≤ 57) && (d != 48 || rest.isEmpty) && rest.length < 9
  | [] => false

def digitsNat (b : Bytes) : Nat := b.foldl (fun acc c => acc * 10 + (c.toNat - 48)) 0

/-- text `encoding/json` unmarshals into an int32 / uint32 (also `null`, which leaves zero). -/
def isInt32Text (b : Bytes) : Bool :=
  if b == [110, 117, 108, 108] then true else
  let (neg, ds) := match b with | 45 :: r => (true, r) | r => (false, r)
  !ds.isEmpty && ds.all (fun c => 48 ≤ c.toNat && c.toNat ≤ 57) && (ds.length == 1 || ds.head? != some 48) &&
    ds.length ≤ 10 && (if neg then digitsNat ds ≤ 2147483648 else digitsNat ds ≤ 2147483647)

def isInt64Text (b : Bytes) : Bool :=
  if b == [110, 117, 108, 108] then true else
  let (neg, ds) := match b with | 45 :: r => (true, r) | r => (false, r)
  !ds.isEmpty && ds.all (fun c => 48 ≤ c.toNat && c.toNat ≤ 57) && (ds.length == 1 || ds.head? != some 48) &&
    ds.length ≤ 19 && (if neg then digitsNat ds ≤ 9223372036854775808 else digitsNat ds ≤ 9223372036854775807)

def isUint32Text (b : Bytes) : Bool :=
  if b == [110, 117, 108, 108] then true else
  !b.isEmpty && b.all (fun c => 48 ≤ c.toNat && c.toNat ≤ 57) && (b.length == 1 || b.head? != some 48) &&
    b.length ≤ 10 && digitsNat b ≤ 4294967295

/-- group bindings into rules (P starts a rule; A / N are its additional bindings) and add them
one after the other; stops at the first error like `appendHandler` does. Returns the trie after
the last *successful* rule and the per-rule outcomes. -/
def groupBindings (bs : List DBinding) : List (DBinding × List DBinding) :=
  bs.foldl (fun (acc : List (DBinding × List DBinding)) b =>
    if b.kind == "P" then acc ++ [(b, [])]
    else match acc.reverse with
      | (p, adds) :: restRev => restRev.reverse ++ [(p, adds ++ [b])]
      | [] => acc) []

def buildTrie (cap : Nat) (bs : List DBinding) : Trie.Node × List String :=
  (groupBindings bs).foldl (fun (acc : Trie.Node × List String) g =>
    let (p, adds) := g
    let rule : Trie.Rule := { primary := p.b, additional := adds.map fun a => (a.b, a.kind == "N") }
    match Trie.addRule cap (resolveOf p.table) acc.1 rule p.mid with
    | .ok n => (n, acc.2 ++ ["ok"])
    | .err k => (acc.1, acc.2 ++ ["err:" ++ k])
    | .panic _ => (acc.1, acc.2 ++ ["panic"])) (Trie.Node.empty, [])

def convOf (bs : List DBinding) (fp : Nat) (text : Bytes) : Bool :=
  match (bs.flatMap (·.table)).find? (fun e => e.2.1 == fp) with
  | some (_, _, "S") => true
  | some (_, _, "I") => isInt32Text text
  | some (_, _, "U") => isUint32Text text
  | some (_, _, "L") => isInt64Text text
  | _ => false

def showSRes : Trie.SRes → String
  | .found m caps => s!"found {m.mid} " ++ ";".intercalate (caps.map fun c =>
      (match c.1 with | some fp => toString fp | none => "_") ++ "=" ++ toHex c.2)
  | .fail e => "fail " ++ e.name
  | .panic _ => "panic"

def handleRouting : List String → Option String
  | ["lextmpl", r] => (parseRunes r).map fun rs => showLex (Lexer.lexTemplate Gen.tokenCap rs)
  | ["lexpath", r] => (parseRunes r).map fun rs => showLex (Lexer.lexPath Gen.tokenCap rs)
  | ["addrules", bindings] => do
      let bs ← (bindings.splitOn ";").mapM parseBinding
      pure (" ".intercalate (buildTrie Gen.tokenCap bs).2)
  | ["route", bindings, verb, path] => do
      let bs ← (if bindings == "-" then some [] else (bindings.splitOn ";").mapM parseBinding)
      let v ← hexArg verb
      let p ← parseRunes path
      let (t, _) := buildTrie Gen.tokenCap bs
      pure (showSRes (Trie.matchPath Gen.tokenCap (convOf bs) t p v))
  | ["delroute", bindings, dels, verb, path] => do
      let bs ← (if bindings == "-" then some [] else (bindings.splitOn ";").mapM parseBinding)
      let ds ← (if dels == "-" || dels.isEmpty then some [] else (dels.splitOn ",").mapM (·.toNat?))
      let v ← hexArg verb
      let p ← parseRunes path
      let (t, _) := buildTrie Gen.tokenCap bs
      -- `delRule` until it reports false, method after method (at most one success per binding)
      let t' := ds.foldl (fun acc d => Trie.delAll Gen.aliveCounts d (bs.length + 1) acc) t
      pure (showSRes (Trie.matchPath Gen.tokenCap (convOf bs) t' p v))
  | _ => none

/-! ### streams -/
def showRecvs (rs : List Streams.Recv) : String :=
  " ".intercalate (rs.map fun r => match r with
    | .msg b => "m:" ++ toHex b
    | .eof => "eof"
    | .err e => "err:" ++ e.name
    | .panic => "panic")

/-- gunzip table: `compressedhex:plainhex,...`; `none` = no decompressor negotiated -/
def parseGz (s : String) : Option (Bytes → Option Bytes) :=
  if s == "none" then none else
  let tbl := if s == "-" || s.isEmpty then [] else (s.splitOn ",").filterMap fun it =>
    match it.splitOn ":" with
    | [a, b] => do pure ((← hexArg a), (← hexArg b))
    | _ => none
  some fun b => (tbl.find? fun p => p.1 == b).map (·.2)

def handleStreams : List String → Option String
  | ["httprecv", codec, limit, wire, sched, eofd] => do
      let w ← hexArg wire
      let lim ← limit.toNat?
      let k ← (match codec with | "proto" => some Streams.CodecK.proto | "json" => some .json | "body" => some .body | _ => none)
      let e : Env := { data := w, sched := natList sched, eofWithData := eofd == "1", grows := [] }
      pure (showRecvs (Streams.recvAll k lim (w.length + 3) (List.replicate (w.length + 3) 64) ⟨[], false, 0, e⟩))
  | ["grpcrecv", maxRecv, gz, wire, sched, eofd] => do
      let w ← hexArg wire
      let lim ← maxRecv.toNat?
      let e : Env := { data := w, sched := natList sched, eofWithData := eofd == "1", grows := [] }
      pure (showRecvs (Streams.grpcRecvAll (parseGz gz) lim (w.length + 3) e))
  | ["grpcsend", maxSend, payload] => do
      let p ← hexArg payload
      let lim ← maxSend.toNat?
      pure (match Streams.grpcSend none lim p with | some f => "ok " ++ toHex f | none => "err")
  | _ => none

/-! ### params -/
def parsePs (s : String) : Option (List Param.P) :=
  if s == "-" || s.isEmpty then some [] else
  (s.splitOn ",").mapM fun it =>
    match it.splitOn ":" with
    | [fp, rep, v] => do pure { fp := (← fp.toNat?), repeated := rep == "1", val := (← hexArg (v.drop 1).toString) }
    | _ => none

def showMsg (m : Param.Msg) : String :=
  let es := m.map fun kv => toString kv.1 ++ "=" ++ "|".intercalate (kv.2.map fun v => "x" ++ toHex v)
  ";".intercalate (es.toArray.qsort (· < ·)).toList

def handleParams : List String → Option String
  | ["parseint", signed, bits, raw] => do
      let b ← bits.toNat?
      let r ← hexArg raw
      pure (match Param.parseInt ⟨signed == "1", b⟩ r with | some v => "ok " ++ toString v | none => "err")
  | ["parsebool", raw] => (hexArg raw).map fun r =>
      match Param.parseBool r with | some v => "ok " ++ toString v | none => "err"
  | ["parseenum", names, raw] => do
      -- names: `namehex:number,…` in declaration order
      let ns ← (if names == "-" || names.isEmpty then some [] else (names.splitOn ",").mapM fun it =>
        match it.splitOn ":" with
        | [n, v] => do pure ((← hexArg n), (← v.toInt?))
        | _ => none)
      let r ← hexArg raw
      pure (match Param.parseEnum ns r with | some v => "ok " ++ toString v | none => "err")
  | ["parsebytes", raw] => (hexArg raw).map fun r => optHex (Param.parseBytes r)
  | ["printint", v] => v.toInt?.map fun i => toHex (Param.printInt i)
  | ["fieldpath", table, names] => do
      -- table: message types `m0|m1|…`, each `namehex,jsonhex,number,rep,sub;…` (sub = `-` or a type index);
      -- the root is type 0, unfolded as deep as the selector is long; names: `hex.hex.…`
      let tys ← (table.splitOn "|").mapM fun mt =>
        (if mt.isEmpty || mt == "-" then some [] else (mt.splitOn ";").mapM fun f =>
          match f.splitOn "," with
          | [n, j, num, rep, sub] => do
              pure ((← hexArg n), (← hexArg j), (← num.toNat?), rep == "1", (if sub == "-" then none else sub.toNat?))
          | _ => none)
      let ns ← (if names == "-" then some [] else (names.splitOn ".").mapM hexArg)
      let rec unfold : Nat → Nat → FieldPath.Desc
        | 0, _ => .mk []
        | fuel + 1, idx => .mk ((tys.getD idx []).map fun (n, j, num, rep, sub) => (n, j, num, rep, sub.map (unfold fuel)))
      pure (match FieldPath.fieldPath (unfold (ns.length + 1) 0).fields ns with
        | some p => "ok " ++ ",".intercalate (p.map toString)
        | none => "nil")
  | ["decodereq", body, query, path] => do
      let b ← parsePs body
      let q ← parsePs query
      let p ← parsePs path
      pure (showMsg (Param.decodeRequest Gen.pathParamsLast (Param.setAll [] b) q p))
  | _ => none

/-! ### C11 / C12: the registry state machine -/

def parseNatList (sep : String) (s : String) : Option (List Nat) :=
  if s == "" then some [] else (s.splitOn sep).mapM (·.toNat?)

def parseMSpecs (s : String) : Option (List Registry.MSpec) :=
  if s == "" || s == "-" then some [] else
  (s.splitOn ",").mapM fun item =>
    match item.splitOn ":" with
    | [m, ks] => do
        let m ← m.toNat?
        let ks ← parseNatList "." ks
        pure ⟨m, ks⟩
    | _ => none

def parseRegOp (s : String) : Option Registry.Op :=
  match s.splitOn " " with
  | ["S", mss] => (parseMSpecs mss).map .regService
  | ["C", c, hash, mss] => do
      let c ← c.toNat?
      let h ← hash.toNat?
      let mss ← parseMSpecs mss
      pure (.regConn c h mss)
  | ["D", c] => c.toNat?.map .dropConn
  | _ => none

def regUniverse (ops : List Registry.Op) : List Nat × List Nat :=
  let ms := ops.flatMap fun
    | .regService mss => mss.map (·.method)
    | .regConn _ _ mss => mss.map (·.method)
    | .dropConn _ => []
  let cs := ops.flatMap fun
    | .regConn c _ _ => [c]
    | .dropConn c => [c]
    | _ => []
  ((ms.eraseDups.toArray.qsort (· < ·)).toList, (cs.eraseDups.toArray.qsort (· < ·)).toList)

def showOwner : Option Nat → String
  | none => "L"
  | some c => toString c

def showRegState (ms cs : List Nat) (s : Registry.St) : String :=
  let hs := ms.filterMap fun m =>
    let l := s.handlers m
    if l.isEmpty then none else some (toString m ++ "=" ++ ".".intercalate (l.map fun h => showOwner h.owner))
  let cn := cs.filterMap fun c =>
    match s.conns c with
    | none => none
    | some cl => some (toString c ++ "=" ++ toString cl.hash ++ ":" ++ ".".intercalate (cl.handlers.map fun h => toString h.method))
  let live := ms.filterMap fun m =>
    let l := s.handlers m
    if l.isEmpty then none else
      let ks := (l.flatMap (·.keys)).eraseDups
      some (toString m ++ "=" ++ ".".intercalate (ks.map fun k =>
        match Registry.routeOf s.routes k with | some m' => toString k ++ ">" ++ toString m' | none => toString k ++ ">-"))
  ";".intercalate hs ++ "#" ++ ";".intercalate cn ++ "#" ++ ";".intercalate live

def showRes : Registry.Res → String
  | .ok => "ok" | .err => "err" | .dropped b => if b then "true" else "false"

def runRegistry (ops : List Registry.Op) : String :=
  let (ms, cs) := regUniverse ops
  let (_, outs) := ops.foldl (fun (acc : Registry.St × List String) op =>
    let r := Registry.step Registry.firstOf acc.1 op
    (r.1, acc.2 ++ [showRes r.2 ++ "#" ++ showRegState ms cs r.1])) (Registry.St.init, [])
  "|".intercalate outs

def handleRegistry : List String → Option String
  | ["registry", ops] => do
      let ops ← (ops.splitOn "|").mapM parseRegOp
      pure (runRegistry ops)
  | _ => none

/-! ### C18: stats events of one RPC -/

def showEv : Events.Ev → String
  | .tag => "tag" | .inHeader => "inHeader" | .begin => "begin" | .inPayload => "inPayload"
  | .outHeader => "outHeader" | .outPayload => "outPayload" | .outTrailer => "outTrailer" | .fin _ => "end"

/-- the harness's handlers by shape: unary and client streams receive everything and then
send; server streams receive one and send; bidi streams alternate. -/
def scriptOf (cstream sstream : Bool) (recv send : Nat) : List Events.Act :=
  if cstream && sstream then
    (List.range (max recv send)).flatMap fun i =>
      (if i < recv then [Events.Act.recvOk] else []) ++ (if i < send then [Events.Act.sendOk] else [])
  else List.replicate recv .recvOk ++ List.replicate send .sendOk

def handleEvents : List String → Option String
  | ["events", proto, recv, send, failed, _body, cstream, sstream] => do
      let p ← match proto with
        | "http" => some Events.Proto.http
        | "grpc" | "web" => some .grpc
        | "ws" => some .ws
        | _ => none
      let r ← recv.toNat?
      let s ← send.toNat?
      let evs := Events.serve p (scriptOf (cstream == "true") (sstream == "true") r s) (failed == "1") .normal
      let endS := match evs.getLast? with
        | some (.fin true) => "err"
        | some (.fin false) => "ok"
        | _ => "none"
      pure (",".intercalate (evs.map showEv) ++ "|" ++ endS)
  | _ => none

/-! ### C10: the stream forwarder -/

/-- the harness's scripted backend: reads everything until half-close, then `replies` replies
(one for a single-response call), failing with `code` after `failAt` replies (-2: never,
i.e. after the last one only when code ≠ 0 … see c10.go). -/
def scriptedBackend (ss : Bool) (replies code : Nat) (failAt : Int) : Proxy.Backend Nat Nat :=
  fun _ms hc =>
    if !hc then ([], none) else
    let n := if ss then replies else 1
    if code != 0 && failAt >= 0 && failAt.toNat < n then (List.range failAt.toNat, some ⟨code, 1⟩)
    else if code != 0 && failAt != -2 then (List.range n, some ⟨code, 1⟩)
    else (List.range n, some Proxy.Status.ok)

def handleProxy : List String → Option String
  | ["proxy", cs, ss, nmsg, replies, code, failAt] => do
      let n ← nmsg.toNat?
      let r ← replies.toNat?
      let c ← code.toNat?
      let f ← failAt.toInt?
      let seen := Proxy.streamProxy (true, true, true, none) true (cs == "true") (ss == "true")
        (scriptedBackend (ss == "true") r c f) (List.range n)
      let st := match seen.clientStatus with
        | some s => toString s.code
        | none => "never"
      pure (toString seen.backendGot.length ++ "," ++ toString seen.backendHalfClosed ++ "," ++
            toString seen.clientGot.length ++ "," ++ st)
  | _ => none

/-! ### C20: mounts -/

def handleMount : List String → Option String
  | ["mount", patterns, extras, path] =>
      let ps := if patterns == "-" then [] else (patterns.splitOn ";").map String.toList
      let es := if extras == "-" then [] else (extras.splitOn ";").map String.toList
      some (match Mount.serve (Mount.table false true ps es) path.toList with
        | .byMux seen => "mux:" ++ String.ofList seen
        | .byExtra i => "extra:" ++ toString i
        | .notFound => "none")
  | _ => none

/-- an `http.Header` on the wire of the protocol: `key=v1,v2;key=…` in hex ("-" = empty). -/
def parseHdr (s : String) : Option Metadata.MD :=
  if s == "-" || s.isEmpty then some [] else
  (s.splitOn ";").mapM fun e =>
    match e.splitOn "=" with
    | [k, vs] => do
        let k ← hexArg k
        let vs ← if vs.isEmpty then some [] else (vs.splitOn ",").mapM fun h => hexArg (if h == "-" then "" else h)
        pure (k, vs)
    | _ => none

def handleWeb : List String → Option String
  | ["webtrailer", ct, first, final] => do
      -- `first` = the header map when the header block went out ("!" = nothing was ever written),
      -- `final` = the header map when the handler had returned
      let ct ← hexArg ct
      let final ← parseHdr final
      let w : Web.W ← if first == "!" then some ⟨final, [], false⟩ else do
        let first ← parseHdr first
        pure { Web.seeHeaders ct ⟨first, [], false⟩ with hdr := final }
      match Web.flush w with
      | none => pure "no-frame"
      | some tr =>
        let es := tr.map fun kv => toHex kv.1 ++ "=" ++ ",".intercalate (kv.2.map toHex)
        pure (";".intercalate (es.mergeSort fun a b => decide (a ≤ b)))
  | ["wsreason", h] => (hexArg h).map fun b => toHex (WsClose.reason Gen.wsReasonMax Gen.wsReasonRuneSafe b)
  | ["lifecycle", guarded, steps] =>
      let st := steps.toList.filterMap fun c =>
        match c with
        | 'b' => some Lifecycle.Step.begin | 'd' => some .done | 'm' => some .mark | 'w' => some .wait | _ => none
      let s := Lifecycle.run (guarded == "true") st Lifecycle.init
      some s!"{s.closed},{s.count},{s.waited},{s.refused}"
  | _ => none

def handlers : List (List String → Option String) :=
  [handleC05, handleC14C15, handleC17, handleC19, handleC04, handleDispatch, handleRouting, handleStreams, handleParams, handleRegistry, handleEvents, handleProxy, handleMount, handleWeb]

def handle (args : List String) : String :=
  match handlers.findSome? (fun h => h args) with
  | some s => s
  | none => "bad-op"

end Larking.Driver
