import Larking.Driver.Util
import Larking.Gen.Codes
import Larking.Model.Status
import Larking.Gen.Grpc
import Larking.Model.Timeout
import Larking.Model.Metadata
namespace Larking.Driver
open Larking.Status

def handleC05 : List String → Option String
  | ["httpstatus", n] => n.toNat?.map fun c =>
      showOutcome toString (lookup Gen.httpGuardOp Gen.httpGuardLen Gen.codeToHTTPStatus Gen.httpDefault c)
  | ["wsstatus", n] => n.toNat?.map fun c =>
      showOutcome toString (lookup Gen.wsGuardOp Gen.wsGuardLen Gen.codeToWSStatus Gen.wsDefault c)
  | ["pct", h] => (hexArg h).map fun b => toHex (encodeGrpcMessage Gen.needsEsc b)
  | ["unpct", h] => (hexArg h).map fun b => toHex (decodeGrpcMessage b)
  | ["twirp", n] => n.toNat?.map fun c => twirpName Gen.twirpNames c
  | ["b64text", closed, ws] =>
      let parts := (ws.splitOn ";").filterMap hexArg
      some (toHex (textModeOutput (closed == "1") parts))
  | ["b64enc", url, pad, h] => (hexArg h).map fun b => toHex (Base64.encode (url == "url") (pad == "pad") b)
  | ["b64dec", url, pad, h] => (hexArg h).map fun b => optHex (Base64.decode (url == "url") (pad == "pad") b)
  | _ => none

/-- entries: `khex:xv1,xv2;khex:…` (values carry an `x` prefix so that an empty value and
an empty list differ). -/
def parseMD (s : String) : Option Metadata.MD :=
  if s.isEmpty then some [] else
  (s.splitOn ";").mapM fun e =>
    match e.splitOn ":" with
    | [k, vs] => do
        let kb ← hexArg k
        let vals ← (if vs.isEmpty then some [] else (vs.splitOn ",").mapM fun v => hexArg (v.drop 1).toString)
        pure (kb, vals)
    | _ => none

def showMD (md : Metadata.MD) : String :=
  let entries := md.map fun kv => toHex kv.1 ++ ":" ++ ",".intercalate (kv.2.map fun v => "x" ++ toHex v)
  ";".intercalate (entries.toArray.qsort (· < ·)).toList

def handleC14C15 : List String → Option String
  | ["timeout", h] => (hexArg h).map fun b =>
      match Timeout.decodeTimeout Gen.timeoutUnits Gen.timeoutMinLen Gen.timeoutMaxLen Gen.timeoutAcceptsSign b with
      | .ok v => "ok " ++ toString v
      | _ => "err"
  | ["bindec", h] => (hexArg h).map fun b => optHex (Metadata.decodeBin Gen.binPaddedWhenMul4 b)
  | ["binenc", h] => (hexArg h).map fun b => toHex (Metadata.encodeBin b)
  | ["canon", h] => (hexArg h).map fun b => toHex (Metadata.canonical b)
  | ["mdin", e] => (parseMD e).map fun md =>
      showMD (Metadata.incoming Gen.reservedHeaders Gen.whitelistedHeaders Gen.binPaddedWhenMul4 md)
  | ["mdout", e] => (parseMD e).map fun md => showMD (Metadata.outgoing Gen.reservedHeaders md)
  | _ => none

def handlers : List (List String → Option String) := [handleC05, handleC14C15]

def handle (args : List String) : String :=
  match handlers.findSome? (fun h => h args) with
  | some s => s
  | none => "bad-op"

end Larking.Driver
