import Larking.Driver.Util
import Larking.Gen.Codes
import Larking.Model.Status
namespace Larking.Driver
open Larking.Status

def handleC05 : List String → Option String
  | ["httpstatus", n] => n.toNat?.map fun c =>
      showOutcome toString (lookup Gen.httpGuardOp Gen.httpGuardLen Gen.codeToHTTPStatus Gen.httpDefault c)
  | ["wsstatus", n] => n.toNat?.map fun c =>
      showOutcome toString (lookup Gen.wsGuardOp Gen.wsGuardLen Gen.codeToWSStatus Gen.wsDefault c)
  | ["pct", h] => (hexArg h).map fun b => toHex (encodeGrpcMessage Gen.needsEsc b)
  | ["unpct", h] => (hexArg h).map fun b => toHex (decodeGrpcMessage b)
  | ["twirp", n] => n.toNat?.map fun c => twirpName Gen.twirpNames c
  | ["b64text", closed, ws] =>
      let parts := (ws.splitOn ";").filterMap hexArg
      some (toHex (textModeOutput (closed == "1") parts))
  | ["b64enc", url, pad, h] => (hexArg h).map fun b => toHex (Base64.encode (url == "url") (pad == "pad") b)
  | ["b64dec", url, pad, h] => (hexArg h).map fun b => optHex (Base64.decode (url == "url") (pad == "pad") b)
  | _ => none

def handlers : List (List String → Option String) := [handleC05]

def handle (args : List String) : String :=
  match handlers.findSome? (fun h => h args) with
  | some s => s
  | none => "bad-op"

end Larking.Driver
