import Larking.Driver.Util
import Larking.Gen.Codes
import Larking.Model.Status
import Larking.Gen.Grpc
import Larking.Model.Timeout
import Larking.Model.Metadata
import Larking.Model.StreamCodec
import Larking.Model.Selector
import Larking.Model.Negotiate
namespace Larking.Driver
open Larking.Status

def handleC05 : List String → Option String
  | ["httpstatus", n] => n.toNat?.map fun c =>
      showOutcome toString (lookup Gen.httpGuardOp Gen.httpGuardLen Gen.codeToHTTPStatus Gen.httpDefault c)
  | ["wsstatus", n] => n.toNat?.map fun c =>
      showOutcome toString (lookup Gen.wsGuardOp Gen.wsGuardLen Gen.codeToWSStatus Gen.wsDefault c)
  | ["pct", h] => (hexArg h).map fun b => toHex (encodeGrpcMessage Gen.needsEsc b)
  | ["unpct", h] => (hexArg h).map fun b => toHex (decodeGrpcMessage b)
  | ["twirp", n] => n.toNat?.map fun c => twirpName Gen.twirpNames c
  | ["b64text", closed, ws] =>
      let parts := (ws.splitOn ";").filterMap hexArg
      some (toHex (textModeOutput (closed == "1") parts))
  | ["b64enc", url, pad, h] => (hexArg h).map fun b => toHex (Base64.encode (url == "url") (pad == "pad") b)
  | ["b64dec", url, pad, h] => (hexArg h).map fun b => optHex (Base64.decode (url == "url") (pad == "pad") b)
  | _ => none

/-- entries: `khex:xv1,xv2;khex:…` (values carry an `x` prefix so that an empty value and
an empty list differ). -/
def parseMD (s : String) : Option Metadata.MD :=
  if s.isEmpty then some [] else
  (s.splitOn ";").mapM fun e =>
    match e.splitOn ":" with
    | [k, vs] => do
        let kb ← hexArg k
        let vals ← (if vs.isEmpty then some [] else (vs.splitOn ",").mapM fun v => hexArg (v.drop 1).toString)
        pure (kb, vals)
    | _ => none

def showMD (md : Metadata.MD) : String :=
  let entries := md.map fun kv => toHex kv.1 ++ ":" ++ ",".intercalate (kv.2.map fun v => "x" ++ toHex v)
  ";".intercalate (entries.toArray.qsort (· < ·)).toList

def handleC14C15 : List String → Option String
  | ["timeout", h] => (hexArg h).map fun b =>
      match Timeout.decodeTimeout Gen.timeoutUnits Gen.timeoutMinLen Gen.timeoutMaxLen Gen.timeoutAcceptsSign b with
      | .ok v => "ok " ++ toString v
      | _ => "err"
  | ["bindec", h] => (hexArg h).map fun b => optHex (Metadata.decodeBin Gen.binPaddedWhenMul4 b)
  | ["binenc", h] => (hexArg h).map fun b => toHex (Metadata.encodeBin b)
  | ["canon", h] => (hexArg h).map fun b => toHex (Metadata.canonical b)
  | ["mdin", e] => (parseMD e).map fun md =>
      showMD (Metadata.incoming Gen.reservedHeaders Gen.whitelistedHeaders Gen.binPaddedWhenMul4 md)
  | ["mdout", e] => (parseMD e).map fun md => showMD (Metadata.outgoing Gen.reservedHeaders md)
  | _ => none

def natList (s : String) : List Nat :=
  if s.isEmpty then [] else (s.splitOn ",").filterMap (·.toNat?)

def showErr : Option RErr → String
  | none => "nil"
  | some e => e.name

def showResult (r : Codec.Result) (e : Env) : String :=
  s!"ok dst={toHex r.dst.data} n={r.n} err={showErr r.err} rest={toHex e.data}"

/-- readnext <codec> <limit> <carry hex> <spare0> <wire hex> <sched> <eofWithData> <rooms> -/
def handleC17 : List String → Option String
  | ["readnext", codec, limit, carry, spare, wire, sched, eofd, rooms] => do
      let c ← hexArg carry
      let w ← hexArg wire
      let lim ← limit.toNat?
      let sp ← spare.toNat?
      let e : Env := { data := w, sched := natList sched, eofWithData := eofd == "1", grows := natList rooms }
      let b : Buf := { data := c, spare := sp }
      match codec with
      | "proto" =>
          match Codec.protoReadNext e b lim with
          | (.ok r, e') => pure (showResult r e')
          | (.panic _, _) => pure "panic"
          | (.err k, _) => pure ("err " ++ k)
      | "json" => let (r, e') := Codec.jsonReadNext e b lim; pure (showResult r e')
      | "body" => let (r, e') := Codec.bodyReadNext e b lim; pure (showResult r e')
      | "readall" =>
          let (b', err, e') := Codec.readAll e b lim
          pure s!"ok dst={toHex b'.data} n={b'.data.length} err={showErr err} rest={toHex e'.data}"
      | _ => none
  | ["writenext", codec, m] => do
      let b ← hexArg m
      match codec with
      | "proto" => pure (toHex (Codec.protoWriteNext b))
      | "json" => pure (toHex (Codec.jsonWriteNext b))
      | "body" => pure (toHex b)
      | _ => none
  | ["growcap", a, b] => do pure (toString (Codec.growcap (← a.toNat?) (← b.toNat?)))
  | ["varint", h] => (hexArg h).map fun b =>
      match Codec.getVarint b with
      | some (v, k) => s!"ok {v} {k}"
      | none => "err"
  | _ => none

/-- selector <sel>|<sel>|… <name> -/
def handleC19 : List String → Option String
  | ["selector", sels, name] =>
      let ss := if sels.isEmpty then [] else (sels.splitOn "|").map (·.splitOn ".")
      match Selector.setRules ss with
      | .ok t => some (",".intercalate ((t.get (name.splitOn ".")).map toString))
      | .panic _ => some "panic"
      | .err k => some ("err " ++ k)
  | _ => none

def hexList (s : String) : Option (List Bytes) :=
  if s.isEmpty then some [] else (s.splitOn ";").mapM fun h => hexArg (if h == "-" then "" else h)

def handleC04 : List String → Option String
  | ["accept", lines] => do
      let ls ← hexList lines
      let specs := Negotiate.parseAccept ls
      pure (",".intercalate (specs.map fun sp => s!"{toHex sp.value}:{sp.q.num}/{sp.q.den}"))
  | ["negtype", lines, offers, dflt] => do
      let ls ← hexList lines
      let os ← hexList offers
      let d ← hexArg dflt
      pure (toHex (Negotiate.negotiateContentType (Negotiate.parseAccept ls) os d))
  | ["negenc", lines, offers] => do
      let ls ← hexList lines
      let os ← hexList offers
      pure (toHex (Negotiate.negotiateContentEncoding (Negotiate.parseAccept ls) os))
  | _ => none

def handlers : List (List String → Option String) := [handleC05, handleC14C15, handleC17, handleC19, handleC04]

def handle (args : List String) : String :=
  match handlers.findSome? (fun h => h args) with
  | some s => s
  | none => "bad-op"

end Larking.Driver
