import Larking.Model.Basic
namespace Larking.Driver

def showOutcome {α} (f : α → String) : Outcome α → String
  | .ok a => "ok " ++ f a
  | .err k => "err " ++ k
  | .panic _ => "panic"

def hexArg (s : String) : Option Bytes := fromHex s

def optHex : Option Bytes → String
  | some b => "ok " ++ toHex b
  | none => "err"

end Larking.Driver
