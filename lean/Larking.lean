-- Root of the `Larking` library: everything that must build.
import Larking.Model.Basic
import Larking.Model.Base64
import Larking.Model.Status
import Larking.Lemmas.Base64
import Larking.Lemmas.Status
import Larking.Gen.Codes
import Larking.Gen.Missing
import Larking.Props.C05
