-- Root of the `Larking` library: everything that must build.
import Larking.Model.Basic
import Larking.Model.Base64
import Larking.Model.Status
import Larking.Model.Timeout
import Larking.Model.Metadata
import Larking.Spec.Grpc
import Larking.Lemmas.Base64
import Larking.Lemmas.Status
import Larking.Lemmas.Timeout
import Larking.Lemmas.Metadata
import Larking.Gen.Codes
import Larking.Gen.Grpc
import Larking.Gen.Missing
import Larking.Props.C05
import Larking.Props.C14
import Larking.Props.C15
import Larking.Props.C17
