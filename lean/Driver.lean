import Larking.Driver.Commands
/-
  Line-protocol driver: one request per line (tab separated), one answer per line.
  Imports Gen, Model and Spec only — never Lemmas or Props — so that a broken proof
  cannot stop the correspondence and conformance runs.
-/
open Larking

partial def loop (h : IO.FS.Stream) (out : IO.FS.Stream) : IO Unit := do
  let line ← h.getLine
  if line.isEmpty then return ()
  let line := if line.endsWith "\n" then (line.dropEnd 1).toString else line
  let ans := Driver.handle (line.splitOn "\t")
  out.putStrLn ans
  out.flush
  loop h out

def main : IO Unit := do loop (← IO.getStdin) (← IO.getStdout)
