package main

import (
	"bytes"
	"context"
	"crypto/sha256"
	"encoding/base64"
	"fmt"
	"google.golang.org/protobuf/encoding/protowire"
	"io"
	"net"
	"net/http"
	"net/http/httptest"
	"sort"
	"strconv"
	"strings"
	"sync"
	"time"

	spb "google.golang.org/genproto/googleapis/rpc/status"
	"google.golang.org/grpc"
	"google.golang.org/grpc/codes"
	"google.golang.org/grpc/metadata"
	"google.golang.org/grpc/reflection"
	rpb "google.golang.org/grpc/reflection/grpc_reflection_v1alpha"
	"google.golang.org/grpc/status"
	"google.golang.org/protobuf/encoding/protojson"
	"google.golang.org/protobuf/proto"
	"google.golang.org/protobuf/reflect/protoreflect"
	"google.golang.org/protobuf/types/dynamicpb"
	"google.golang.org/protobuf/types/known/wrapperspb"
	"larking.io/larking"
)

func init() {
	props["C10"] = runC10
}

// The backend is scripted by the FIRST request message (or, for an empty client stream, by
// request metadata): replies = i32, fail code = u32 (0 = OK), failAt = s32 (-1: before
// reading anything more, k>=0: after k replies), the status message = other_name.

type c10Backend struct {
	mu   sync.Mutex
	seen map[string]*c10Seen // by call id (metadata x-c10-id)
}

type c10Seen struct {
	msgs   []string
	md     []string
	closed bool
}

func (b *c10Backend) rec(ctx context.Context) *c10Seen {
	md, _ := metadata.FromIncomingContext(ctx)
	id := strings.Join(md.Get("x-c10-id"), ",")
	b.mu.Lock()
	defer b.mu.Unlock()
	s := b.seen[id]
	if s == nil {
		s = &c10Seen{}
		b.seen[id] = s
		for k, v := range md {
			if (strings.HasPrefix(k, "x-c10") || strings.HasPrefix(k, "grpc-c10")) && k != "x-c10-id" {
				s.md = append(s.md, k+"="+fmt.Sprintf("%q", v))
			}
		}
		sort.Strings(s.md)
	}
	return s
}

type c10Script struct {
	eager   bool // answer after the first message without reading to the end of the client stream
	replies int
	code    codes.Code
	failAt  int // -2 never; -1 before any reply; k after k replies
	msg     string
	details bool
}

func scriptFromMD(ctx context.Context) c10Script {
	md, _ := metadata.FromIncomingContext(ctx)
	var sc c10Script
	var eager int
	fmt.Sscanf(strings.Join(md.Get("x-c10-script"), ""), "%d,%d,%d,%d", &sc.replies, &sc.code, &sc.failAt, &eager)
	sc.eager = eager == 1
	sc.msg = strings.Join(md.Get("x-c10-msg-bin"), "")
	sc.details = strings.Join(md.Get("x-c10-details"), "") == "1"
	return sc
}

func (sc c10Script) err() error {
	st := status.New(sc.code, sc.msg)
	if sc.details {
		st2, err := st.WithDetails(wrapperspb.String("detail-of-"+sc.msg), wrapperspb.Int64(42))
		if err == nil {
			st = st2
		}
	}
	return st.Err()
}

func c10Specs(b *c10Backend) []*MethodSpec {
	text := func(m protoreflect.Message) string {
		bs, _ := protojson.Marshal(m.Interface())
		if u := m.GetUnknown(); len(u) > 0 { // fields the backend's schema does not declare are part of what it received
			return string(bs) + fmt.Sprintf(" unknown-fields=%x", []byte(u))
		}
		return string(bs)
	}
	mk := func(fx *Fixture, i int) *dynamicpb.Message {
		r := fx.NewMsg("Reply")
		r.Set(r.Descriptor().Fields().ByName("text"), protoreflect.ValueOfString(fmt.Sprint("r", i)))
		r.Set(r.Descriptor().Fields().ByName("n"), protoreflect.ValueOfInt32(int32(i)))
		return r
	}
	stream := func(fx *Fixture, ms *MethodSpec, st grpc.ServerStream) error {
		ctx := st.Context()
		s := b.rec(ctx)
		sc := scriptFromMD(ctx)
		st.SetHeader(metadata.Pairs("x-c10-bh", "backend-header"))   //nolint
		st.SetTrailer(metadata.Pairs("x-c10-bt", "backend-trailer")) //nolint
		if sc.failAt == -1 && sc.code != codes.OK {
			return sc.err()
		}
		// read everything the client sends (half-duplex), then answer
		for {
			m := fx.NewMsg("Req")
			err := st.RecvMsg(m)
			if err == io.EOF {
				b.mu.Lock()
				s.closed = true
				b.mu.Unlock()
				break
			}
			if err != nil {
				return err
			}
			b.mu.Lock()
			s.msgs = append(s.msgs, text(m))
			b.mu.Unlock()
			if !ms.ClientStream {
				b.mu.Lock()
				s.closed = true
				b.mu.Unlock()
				break
			}
			if sc.eager {
				break
			}
		}
		n := sc.replies
		if !ms.ServerStream {
			n = 1
		}
		for i := 0; i < n; i++ {
			if sc.code != codes.OK && sc.failAt == i {
				return sc.err()
			}
			if err := st.SendMsg(mk(fx, i)); err != nil {
				return err
			}
		}
		if sc.code != codes.OK && sc.failAt != -2 {
			return sc.err()
		}
		return nil
	}
	unary := func(ctx context.Context, in *dynamicpb.Message) (proto.Message, error) {
		s := b.rec(ctx)
		sc := scriptFromMD(ctx)
		b.mu.Lock()
		s.msgs = append(s.msgs, text(in))
		s.closed = true
		b.mu.Unlock()
		grpc.SetHeader(ctx, metadata.Pairs("x-c10-bh", "backend-header"))   //nolint
		grpc.SetTrailer(ctx, metadata.Pairs("x-c10-bt", "backend-trailer")) //nolint
		if sc.code != codes.OK {
			return nil, sc.err()
		}
		r := dynamicpb.NewMessage(in.Descriptor().ParentFile().Messages().ByName("Reply"))
		r.Set(r.Descriptor().Fields().ByName("text"), protoreflect.ValueOfString("r0"))
		if md, ok := metadata.FromIncomingContext(ctx); ok && len(md.Get("x-c10-pad")) > 0 {
			n, _ := strconv.Atoi(md.Get("x-c10-pad")[0]) // an incompressible payload of n bytes
			r.Set(r.Descriptor().Fields().ByName("data"), protoreflect.ValueOfBytes(c10Pad(n)))
		}
		return r, nil
	}
	return []*MethodSpec{
		{Service: "Back", Name: "U", In: "Req", Out: "Reply", Unary: unary},
		{Service: "Back", Name: "SS", In: "Req", Out: "Reply", ServerStream: true, Stream: stream},
		{Service: "Back", Name: "CS", In: "Req", Out: "Reply", ClientStream: true, Stream: stream},
		{Service: "Back", Name: "BD", In: "Req", Out: "Reply", ClientStream: true, ServerStream: true, Stream: stream},
	}
}

// c10Pad: n deterministic bytes that do not compress.
func c10Pad(n int) []byte {
	out := make([]byte, 0, n+32)
	h := sha256.Sum256([]byte("c10"))
	for len(out) < n {
		out = append(out, h[:]...)
		h = sha256.Sum256(h[:])
	}
	return out[:n]
}

type c10Client struct {
	replies []string
	code    codes.Code
	msg     string
	details string
	hdr     string
	trailer string
	hung    bool
}

func (c c10Client) String() string {
	return fmt.Sprintf("replies=%v status=%v %q details=%s", c.replies, c.code, c.msg, c.details)
}

// extra call options of the current case (e.g. an explicit grpc-encoding), the same for the direct and the proxied call
var c10CallOpts []grpc.CallOption

func c10Call(cc *grpc.ClientConn, fx *Fixture, method string, cs, ss bool, msgs []*dynamicpb.Message, md metadata.MD, clientMode ...int) (out c10Client) {
	// clientMode: 0 half-close after the messages; 1 keep the sending side open and wait; 2 wait a moment
	// (the backend may have completed by then), send one more message and half-close
	ctx, cancel := context.WithTimeout(metadata.NewOutgoingContext(context.Background(), md), 1500*time.Millisecond)
	defer cancel()
	full := "/" + fxPkg + ".Back/" + method
	fin := func(err error) {
		if err == io.EOF {
			err = nil
		}
		st := status.Convert(err)
		out.code, out.msg = st.Code(), st.Message()
		var ds []string
		for _, d := range st.Details() {
			if pm, ok := d.(proto.Message); ok {
				b, _ := protojson.Marshal(pm)
				ds = append(ds, string(b))
			} else {
				ds = append(ds, fmt.Sprint(d))
			}
		}
		out.details = strings.Join(ds, ";")
		if st.Code() == codes.DeadlineExceeded && ctx.Err() != nil {
			out.hung = true
		}
	}
	text := func(m protoreflect.Message) string {
		return m.Get(m.Descriptor().Fields().ByName("text")).String()
	}
	if !cs && !ss {
		o := fx.NewMsg("Reply")
		var h, t metadata.MD
		err := cc.Invoke(ctx, full, msgs[0], o, append([]grpc.CallOption{grpc.Header(&h), grpc.Trailer(&t)}, c10CallOpts...)...)
		if err == nil {
			out.replies = []string{text(o)}
		}
		out.hdr, out.trailer = strings.Join(h.Get("x-c10-bh"), ","), strings.Join(t.Get("x-c10-bt"), ",")
		fin(err)
		return
	}
	st, err := cc.NewStream(ctx, &grpc.StreamDesc{ClientStreams: cs, ServerStreams: ss}, full, c10CallOpts...)
	if err != nil {
		fin(err)
		return
	}
	for _, m := range msgs {
		if err := st.SendMsg(m); err != nil {
			break
		}
	}
	switch append(clientMode, 0)[0] {
	case 0:
		st.CloseSend() //nolint
	case 2:
		time.Sleep(60 * time.Millisecond)
		if len(msgs) > 0 {
			st.SendMsg(msgs[0]) //nolint
		}
		st.CloseSend() //nolint
	}
	for {
		o := fx.NewMsg("Reply")
		err := st.RecvMsg(o)
		if err != nil {
			fin(err)
			break
		}
		out.replies = append(out.replies, text(o))
		if !ss {
			// a single-response call: the status follows
			err := st.RecvMsg(fx.NewMsg("Reply"))
			fin(err)
			break
		}
	}
	if h, err := st.Header(); err == nil {
		out.hdr = strings.Join(h.Get("x-c10-bh"), ",")
	}
	out.trailer = strings.Join(st.Trailer().Get("x-c10-bt"), ",")
	return
}

func runC10(c *Ctx) {
	c.Rule("one scripted, recording backend reached twice per case — directly with a grpc-go client and through larking (RegisterConn; gRPC front via a real h2c server, HTTP/JSON front in process with known and unknown body length): unary / server / client / bidi streams x 0..3 client messages (incl. an empty client stream) x backend outcomes (OK; failing before reading, after k replies, after the last reply) x all 16 non-OK codes incl. Canceled and DeadlineExceeded x messages (empty, ASCII, %, multi-byte) x with / without status details x request metadata (text and -bin keys). Compared: what the backend received (messages, half-close, metadata) and what the client received (replies in order, code, message, details); every proxied stream case is also run through the Lean forwarder model. A call that only ends by the client's deadline counts as never finishing. Non-trivial: every case; distinct by case.")
	c.Assume("response header / trailer metadata of the backend is observed and reported as an outcome class but is not part of the property's transcript")
	bk := &c10Backend{seen: map[string]*c10Seen{}}
	fixtureDeferRegistration = true
	backFx, err := NewFixture(c10Specs(bk), nil)
	fixtureDeferRegistration = false
	if err != nil {
		c.SpecFail("fixture", "c10", err.Error(), "", "C10/fixture", "fixture")
		return
	}
	gs := grpc.NewServer()
	for _, sd := range backFx.ServiceDescs() {
		gs.RegisterService(sd, nil)
	}
	rpb.RegisterServerReflectionServer(gs, reflection.NewServer(reflection.ServerOptions{Services: gs, DescriptorResolver: backFx.Files}))
	blis, _ := net.Listen("tcp", "127.0.0.1:0")
	go gs.Serve(blis) //nolint
	defer gs.Stop()
	bcc, _ := grpc.NewClient(blis.Addr().String(), grpcInsecure())
	defer bcc.Close()

	// the front: a mux with nothing but the connection
	mux, err := larking.NewMux()
	if err != nil {
		c.SpecFail("fixture", "mux", err.Error(), "", "C10/fixture", "fixture")
		return
	}
	{
		ctx, cancel := context.WithTimeout(context.Background(), 5*time.Second)
		err := mux.RegisterConn(ctx, bcc)
		cancel()
		if err != nil {
			c.SpecFail("fixture", "RegisterConn", err.Error(), "", "C10/fixture", "fixture")
			return
		}
	}
	srv, _ := larking.NewServer(mux)
	flis, _ := net.Listen("tcp", "127.0.0.1:0")
	go srv.Serve(flis) //nolint
	defer srv.Close()
	fcc, _ := grpc.NewClient(flis.Addr().String(), grpcInsecure())
	defer fcc.Close()

	type shape struct {
		name   string
		cs, ss bool
	}
	shapes := []shape{{"U", false, false}, {"SS", false, true}, {"CS", true, false}, {"BD", true, true}}
	allCodes := []codes.Code{codes.OK}
	for cd := codes.Canceled; cd <= codes.Unauthenticated; cd++ {
		allCodes = append(allCodes, cd)
	}
	msgsText := []string{"", "plain", "50% of \"x\"", "naïve ✓ 日本", "invalid name \"a%2Fb%2Fc\" %41 100%25", "%", "tab\there"}
	id := 0
	// replies of every small size with gzip negotiated on the front (the compressed frame is built in a pooled buffer: this runs FIRST, while the
	// pool's buffers are still small — the 4 MiB message below leaves them large for the rest of the run)
	for n := 0; n <= c.N(140, 600); n++ {
		var outs [2]string
		for k, conn := range []*grpc.ClientConn{bcc, fcc} {
			id++
			ctx, cancel := context.WithTimeout(metadata.NewOutgoingContext(context.Background(), metadata.Pairs("x-c10-id", fmt.Sprint("z", id), "x-c10-script", "0,0,-2", "x-c10-pad", strconv.Itoa(n))), 2*time.Second)
			o := backFx.NewMsg("Reply")
			err := conn.Invoke(ctx, "/"+fxPkg+".Back/U", backFx.NewMsg("Req"), o, grpc.UseCompressor("gzip"))
			cancel()
			outs[k] = fmt.Sprintf("%v data=%x", status.Code(err), sha256.Sum256(o.Get(o.Descriptor().Fields().ByName("data")).Bytes()))
		}
		in := fmt.Sprintf("U with gzip, backend replies %d incompressible bytes", n)
		c.Eval("proxy-gzip", in, true)
		if outs[0] != outs[1] {
			c.SpecFail("proxy-gzip", in, "proxied: "+outs[1], "direct: "+outs[0], "C10/U/gzip-reply", "with gzip negotiated the client does not receive through the proxy what it receives directly")
		}
	}
	// request sizes that grow by less than 2x from call to call, from 1.5 kB up: the receive buffer is
	// grown from what an earlier call left in the pool
	for sz := 1500; sz < 1_300_000; sz = sz * 19 / 10 {
		d := make([]byte, sz)
		c.Rng.Read(d)
		var outs [2]string
		for k, conn := range []*grpc.ClientConn{bcc, fcc} {
			id++
			cid := fmt.Sprint("g", id)
			ctx, cancel := context.WithTimeout(metadata.NewOutgoingContext(context.Background(), metadata.Pairs("x-c10-id", cid, "x-c10-script", "0,0,-2")), 3*time.Second)
			err := conn.Invoke(ctx, "/"+fxPkg+".Back/U", reqWithData(backFx, d), backFx.NewMsg("Reply"))
			cancel()
			bk.mu.Lock()
			seen := bk.seen[cid]
			got := "<nothing>"
			if seen != nil && len(seen.msgs) == 1 {
				got = fmt.Sprintf("%x", sha256.Sum256([]byte(seen.msgs[0])))
			}
			delete(bk.seen, cid)
			bk.mu.Unlock()
			outs[k] = fmt.Sprintf("%v backend-got=%s", status.Code(err), got)
		}
		in := fmt.Sprintf("U with a request of %d bytes (sizes growing 1.9x per call)", sz)
		c.Eval("proxy-growing", in, true)
		if outs[0] != outs[1] {
			c.SpecFail("proxy-growing", in, "proxied: "+outs[1], "direct: "+outs[0], "C10/U/growing-request", "a request that is less than twice the size of an earlier one does not reach the backend through the proxy")
		}
	}
	earlyOK, lateSend := 0, 0
	n := c.N(260, 5000)
	for i := 0; i < n; i++ {
		sh := shapes[i%4]
		nmsg := 1
		if sh.cs {
			nmsg = []int{0, 1, 2, 3}[c.Rng.Intn(4)]
		}
		sc := c10Script{replies: c.Rng.Intn(4), code: allCodes[c.Rng.Intn(len(allCodes))*c.Rng.Intn(3)/2%len(allCodes)], failAt: -2, msg: msgsText[c.Rng.Intn(len(msgsText))], details: c.Rng.Intn(3) == 0}
		if i < 17*4 { // every code once per shape first
			sc.code = allCodes[(i/4)%len(allCodes)]
		}
		if sc.code != codes.OK {
			switch c.Rng.Intn(3) {
			case 0:
				sc.failAt = -1
			case 1:
				sc.failAt = c.Rng.Intn(sc.replies + 1)
			default:
				sc.failAt = sc.replies
			}
		}
		if i == 71 { // the bidi call with the 4 MiB first message: the backend fails before it reads anything,
			// so the forwarder's first SendMsg finds the call already ended (grpc-go: io.EOF, status via RecvMsg)
			nmsg, sc.code, sc.failAt, sc.replies = 2, codes.FailedPrecondition, -1, 0
		}
		keepOpen, mode := false, 0
		if sh.cs && nmsg >= 1 && sc.code != codes.OK && c.Rng.Intn(3) == 0 {
			sc.eager, keepOpen, mode = true, true, 1 // the backend fails early; the client keeps its side open and waits
		}
		if sh.cs && sh.ss && nmsg >= 1 && sc.code == codes.OK && earlyOK < 2 {
			earlyOK++
			sc.eager, keepOpen, mode = true, true, 1 // the backend completes OK early (recorded finding: the proxy waits for the client)
		} else if sh.cs && sh.ss && nmsg >= 1 && lateSend < 4 && (sc.code == codes.OK || lateSend >= 2) {
			lateSend++
			sc.eager, mode = true, 2 // the backend completes early (twice OK, twice any outcome); the client then sends once more and half-closes
		}
		var msgs []*dynamicpb.Message
		for k := 0; k < nmsg; k++ {
			m := backFx.NewMsg("Req")
			fs := m.Descriptor().Fields()
			m.Set(fs.ByName("name"), protoreflect.ValueOfString(fmt.Sprintf("m%d-%d", i, k)))
			m.Set(fs.ByName("i64"), protoreflect.ValueOfInt64(c.Rng.Int63()))
			if c.Rng.Intn(2) == 0 {
				b := make([]byte, c.Rng.Intn(200))
				c.Rng.Read(b)
				m.Set(fs.ByName("data"), protoreflect.ValueOfBytes(b))
			}
			if c.Rng.Intn(4) == 0 {
				// a client built from a newer .proto: a field (number 1000) the reflected schema does not declare
				m.SetUnknown(protowire.AppendString(protowire.AppendTag(nil, 1000, protowire.BytesType), fmt.Sprintf("tenant-%d", k)))
			}
			msgs = append(msgs, m)
		}
		// twice (a unary and a bidi call): the first request message is EXACTLY as long as the default
		// receive limit of grpc-go and of larking (4 MiB) — the backend takes it directly, so must the proxy
		atLimit := (i == 68 || i == 71) && len(msgs) > 0
		if atLimit {
			m := msgs[0]
			fd := m.Descriptor().Fields().ByName("data")
			m.Set(fd, protoreflect.ValueOfBytes(make([]byte, 4<<20-64)))
			for k := 0; k < 4 && proto.Size(m) != 4<<20; k++ {
				m.Set(fd, protoreflect.ValueOfBytes(make([]byte, len(m.Get(fd).Bytes())+(4<<20-proto.Size(m)))))
			}
		}
		mdFor := func(tag string) metadata.MD {
			id++
			eager := 0
			if sc.eager {
				eager = 1
			}
			return metadata.Pairs("x-c10-id", fmt.Sprint(tag, id), "x-c10-script", fmt.Sprintf("%d,%d,%d,%d", sc.replies, sc.code, sc.failAt, eager),
				"x-c10-msg-bin", sc.msg, "x-c10-details", map[bool]string{true: "1", false: "0"}[sc.details],
				"x-c10-custom", "v1", "x-c10-custom", "v2", "x-c10-data-bin", string([]byte{0, 1, 0xfe, 0xff}),
				"grpc-c10-tenant", "t1", "grpc-c10-trace-bin", string([]byte{9, 8, 0xff}),
				"x-c10-bin-id", "hello", "x-c10-binding", "abcd") // text keys that merely CONTAIN "-bin"
		}
		in := fmt.Sprintf("%s msgs=%d backend: replies=%d code=%v failAt=%d msg=%q details=%v eager=%v clientMode=%d (0 half-close, 1 keeps open, 2 late send then half-close)", sh.name, nmsg, sc.replies, sc.code, sc.failAt, sc.msg, sc.details, sc.eager, mode)
		if atLimit {
			in += fmt.Sprintf(" first-message-size=%d (the receive limit)", proto.Size(msgs[0]))
		}
		c.Eval("proxy", in, true)
		c.Class(sh.name + ":" + map[bool]string{true: "ok", false: "fail"}[sc.code == codes.OK])
		c10CallOpts = nil
		if i%7 == 5 { // the client names its message encoding explicitly: "identity" (what C-core clients always send)
			c10CallOpts = []grpc.CallOption{grpc.UseCompressor("identity")}
			in += " grpc-encoding=identity"
		}
		dmd := mdFor("d")
		dOut := c10Call(bcc, backFx, sh.name, sh.cs, sh.ss, msgs, dmd, mode)
		pmd := mdFor("p")
		pOut := c10Call(fcc, backFx, sh.name, sh.cs, sh.ss, msgs, pmd, mode)
		bk.mu.Lock()
		dSeen, pSeen := bk.seen[dmd.Get("x-c10-id")[0]], bk.seen[pmd.Get("x-c10-id")[0]]
		bk.mu.Unlock()
		if dSeen == nil {
			dSeen = &c10Seen{}
		}
		if pSeen == nil {
			pSeen = &c10Seen{}
		}
		if pOut.hung && !dOut.hung {
			key := "C10/" + sh.name + "/never-finishes"
			if sc.eager && keepOpen && sc.code == codes.OK {
				key = "C10/backend-ok-before-client-half-close/never-finishes"
			}
			c.SpecFail("proxy", in, "the proxied call only ended by the client's deadline", "direct: "+dOut.String(), key, "a call that finishes directly never finishes through the proxy")
		} else if pOut.String() != dOut.String() {
			key := "C10/" + sh.name + "/client-transcript"
			if pOut.code != dOut.code {
				key = fmt.Sprintf("C10/%s/status-code/%v-became-%v", sh.name, dOut.code, pOut.code)
			}
			c.SpecFail("proxy", in, "proxied: "+pOut.String(), "direct: "+dOut.String(), key, "the client does not observe what it observes when calling the backend directly")
		}
		if (sc.failAt != -1 || sc.code == codes.OK) && !sc.eager { // a backend that fails before reading sees a race of arrivals either way
			if strings.Join(pSeen.msgs, "|") != strings.Join(dSeen.msgs, "|") || pSeen.closed != dSeen.closed {
				c.SpecFail("proxy", in, fmt.Sprintf("proxied backend got %d msgs closed=%v: %s", len(pSeen.msgs), pSeen.closed, truncS(strings.Join(pSeen.msgs, "|"), 300)), fmt.Sprintf("direct: %d msgs closed=%v: %s", len(dSeen.msgs), dSeen.closed, truncS(strings.Join(dSeen.msgs, "|"), 300)), "C10/"+sh.name+"/backend-transcript", "the backend does not receive the request messages / half-close it receives directly")
			}
		}
		if strings.Join(pSeen.md, ";") != strings.Join(dSeen.md, ";") {
			c.SpecFail("proxy", in, "proxied metadata: "+strings.Join(pSeen.md, ";"), "direct: "+strings.Join(dSeen.md, ";"), "C10/"+sh.name+"/request-metadata", "request metadata does not reach the backend as it does directly")
		}
		if pOut.hdr != dOut.hdr || pOut.trailer != dOut.trailer {
			c.Class("response-metadata-differs:" + sh.name + ":" + map[bool]string{true: "ok", false: "fail"}[sc.code == codes.OK])
		}
		// the Lean forwarder model (streams): counts and status code
		if (sh.cs || sh.ss) && c.Drv != nil && !sc.eager {
			got := fmt.Sprintf("%d,%v,%d,%d", len(pSeen.msgs), pSeen.closed, len(pOut.replies), pOut.code)
			if pOut.hung {
				got = fmt.Sprintf("%d,%v,%d,never", len(pSeen.msgs), pSeen.closed, len(pOut.replies))
			}
			if !(sc.failAt == -1 && sc.code != codes.OK) {
				c.Correspond("forwarder", join("proxy", fmt.Sprint(sh.cs), fmt.Sprint(sh.ss), fmt.Sprint(nmsg), fmt.Sprint(sc.replies), fmt.Sprint(int(sc.code)), fmt.Sprint(sc.failAt)), got, true)
			}
		}
	}

	c10HTTPStream(c, mux, backFx, &id)
	c10Fragmented(c, mux, backFx, bk, &id)
	// HTTP front: the request message must reach the backend whatever the body framing
	for i := 0; i < c.N(40, 400); i++ {
		m := backFx.NewMsg("Req")
		fs := m.Descriptor().Fields()
		m.Set(fs.ByName("name"), protoreflect.ValueOfString(fmt.Sprint("h", i)))
		m.Set(fs.ByName("i64"), protoreflect.ValueOfInt64(c.Rng.Int63()))
		body, _ := protojson.Marshal(m)
		chunked := i%2 == 0
		id++
		cid := fmt.Sprint("h", id)
		r := httptest.NewRequest("POST", "/"+fxPkg+".Back/U", bytes.NewReader(body))
		r.Header.Set("Content-Type", "application/json")
		r.Header.Set("x-c10-id", cid)
		r.Header.Set("x-c10-script", "0,0,-2")
		if chunked {
			r.ContentLength = -1
		}
		rec, pn := serveOn(mux, r)
		in := fmt.Sprintf("HTTP POST Back/U chunked=%v body=%s", chunked, truncS(string(body), 120))
		c.Eval("http-front", in, true)
		c.Class("http:" + map[bool]string{true: "chunked", false: "sized"}[chunked])
		bk.mu.Lock()
		seen := bk.seen[cid]
		bk.mu.Unlock()
		want, _ := protojson.Marshal(m)
		if pn != nil || rec.Code != 200 || seen == nil || len(seen.msgs) != 1 || !jsonEqual(seen.msgs[0], string(want), backFx) {
			got := "<nothing>"
			if seen != nil && len(seen.msgs) > 0 {
				got = seen.msgs[0]
			}
			c.SpecFail("http-front", in, fmt.Sprintf("%d %v backend got %s", rec.Code, pn, truncS(got, 200)), "the request message", "C10/http-front/request-message", "the backend does not receive the message the HTTP client sent")
		}
	}
}

// c10Fragmented: a gRPC client stream to a proxied method whose bytes arrive in pieces that cut the
// 5-byte message prefixes (an HTTP/2 peer may put a DATA frame boundary anywhere): the backend
// receives the same messages, the client the same status.
func c10Fragmented(c *Ctx, mux http.Handler, backFx *Fixture, bk *c10Backend, id *int) {
	var wire []byte
	var want []string
	for k := 0; k < 3; k++ {
		m := backFx.NewMsg("Req")
		m.Set(m.Descriptor().Fields().ByName("name"), protoreflect.ValueOfString(fmt.Sprintf("frag-%d-%s", k, strings.Repeat("x", 7*k))))
		b, _ := proto.Marshal(m)
		j, _ := protojson.Marshal(m)
		want = append(want, string(j))
		wire = append(wire, grpcFrame(0, b)...)
	}
	first := len(wire) / 3
	scheds := [][]int{{len(wire)}, {2, 3, len(wire)}, {first + 4, 1, len(wire)}, {first + 2, 3, first + 1, 4, len(wire)}, nil}
	for si, sched := range scheds {
		if sched == nil { // byte by byte
			for range wire {
				sched = append(sched, 1)
			}
		}
		*id++
		cid := fmt.Sprint("fr", *id)
		rd := &schedReader{data: append([]byte(nil), wire...), sched: sched, eofWithData: si%2 == 0}
		r := httptest.NewRequest("POST", "/"+fxPkg+".Back/CS", bodyReadCloser{rd})
		r.ContentLength = -1
		r.ProtoMajor, r.ProtoMinor = 2, 0
		r.Header.Set("Content-Type", "application/grpc+proto")
		r.Header.Set("Te", "trailers")
		r.Header.Set("x-c10-id", cid)
		r.Header.Set("x-c10-script", "1,0,-2,0")
		in := fmt.Sprintf("gRPC CS through the proxy, 3 messages, body read in pieces of %v", trunc2(sched, 8))
		c.Eval("proxy-fragmented", in, true)
		c.Class("proxy:fragmented")
		ctx, cancel := context.WithTimeout(r.Context(), 10*time.Second)
		r = r.WithContext(ctx)
		type served struct {
			rec *httptest.ResponseRecorder
			pn  interface{}
		}
		done := make(chan served, 1)
		go func() { rec, pn := serveOn(mux, r); done <- served{rec, pn} }()
		var rec *httptest.ResponseRecorder
		var pn interface{}
		select {
		case sv := <-done:
			rec, pn = sv.rec, sv.pn
			cancel()
		case <-time.After(4 * time.Second):
			cancel()
			c.SpecFail("proxy-fragmented", in, "the call does not end (4 s)", "the 3 messages in order, end-of-stream, status 0", "C10/CS/fragmented-prefix", "a client stream whose message prefixes are cut by read boundaries does not reach the backend as sent")
			continue
		}
		bk.mu.Lock()
		seen := bk.seen[cid]
		var got []string
		closed := false
		if seen != nil {
			got, closed = append([]string(nil), seen.msgs...), seen.closed
		}
		bk.mu.Unlock()
		st := rec.Header().Get("Grpc-Status")
		if st == "" {
			st = rec.Result().Trailer.Get("Grpc-Status")
		}
		ok := pn == nil && len(got) == len(want) && closed && st == "0"
		for k := 0; ok && k < len(want); k++ {
			ok = jsonEqual(got[k], want[k], backFx)
		}
		if !ok {
			c.SpecFail("proxy-fragmented", in, fmt.Sprintf("panic=%v backend got %d messages (end-of-stream=%v), grpc-status=%q", pn, len(got), closed, st), "the 3 messages in order, end-of-stream, status 0", "C10/CS/fragmented-prefix", "a client stream whose message prefixes are cut by read boundaries does not reach the backend as sent")
		}
	}
}

// c10HTTPStream: an HTTP/JSON client in front of a proxied server-streaming method whose backend
// fails before, during or after its replies: the client sees the replies in order, then the status.
func c10HTTPStream(c *Ctx, mux http.Handler, backFx *Fixture, id *int) {
	for _, sc := range []struct{ replies, code, failAt int }{{0, 0, -2}, {3, 0, -2}, {2, 9, -1}, {2, 9, 0}, {3, 9, 1}, {3, 5, 3}, {1, 13, 1}, {4, 10, 2},
		{1, 16, -1}, {1, 17, -1}, {1, 18, -1}, {2, 17, 1}, {1, 64, 0}} {
		*id++
		r := httptest.NewRequest("POST", "/"+fxPkg+".Back/SS", strings.NewReader(`{"name":"h"}`))
		r.Header.Set("Content-Type", "application/json")
		r.Header.Set("x-c10-id", fmt.Sprint("hs", *id))
		r.Header.Set("x-c10-script", fmt.Sprintf("%d,%d,%d", sc.replies, sc.code, sc.failAt))
		r.Header.Set("x-c10-msg-bin", base64.StdEncoding.EncodeToString([]byte("backend said no")))
		rec, pn := serveOn(mux, r)
		in := fmt.Sprintf("HTTP POST Back/SS backend: replies=%d code=%d failAt=%d", sc.replies, sc.code, sc.failAt)
		c.Eval("http-front-stream", in, true)
		c.Class("http:server-stream")
		if pn != nil {
			c.SpecFail("http-front-stream", in, fmt.Sprint("panic: ", pn), "a response", "C10/http-front/panic", "panic")
			continue
		}
		wantReplies := sc.replies
		failed := sc.code != 0 && sc.failAt != -2
		if failed && sc.failAt >= 0 && sc.failAt < sc.replies {
			wantReplies = sc.failAt
		}
		if failed && sc.failAt == -1 {
			wantReplies = 0
		}
		objs := splitJSONObjects(rec.Body.Bytes())
		ok := len(objs) == wantReplies+map[bool]int{true: 1, false: 0}[failed]
		for k := 0; ok && k < wantReplies; k++ {
			m := backFx.NewMsg("Reply")
			ok = protojson.Unmarshal(objs[k], m) == nil && m.Get(m.Descriptor().Fields().ByName("text")).String() == fmt.Sprint("r", k)
		}
		if ok && failed {
			st := &spb.Status{}
			ok = protojson.Unmarshal(objs[len(objs)-1], st) == nil && int(st.Code) == sc.code && st.Message == "backend said no"
		}
		if !ok {
			c.SpecFail("http-front-stream", in, fmt.Sprintf("%d %s", rec.Code, truncS(rec.Body.String(), 300)), fmt.Sprintf("%d replies r0.. then %s", wantReplies, map[bool]string{true: fmt.Sprintf("a google.rpc.Status with code %d", sc.code), false: "the end"}[failed]), "C10/http-front/stream-transcript", "an HTTP client of a proxied server stream does not see the backend's replies followed by its status")
		}
	}
}

func jsonEqual(a, b string, fx *Fixture) bool {
	ma, mb := fx.NewMsg("Req"), fx.NewMsg("Req")
	if protojson.Unmarshal([]byte(a), ma) != nil || protojson.Unmarshal([]byte(b), mb) != nil {
		return false
	}
	return proto.Equal(ma, mb)
}
