package main

// The translator: reads /repo/larking/*.go (go/parser) and, for values that need
// the type checker (table entries built from constants of other packages), asks
// the freshly built package itself through the verif hooks. Writes
// Larking/Gen/*.lean. Regenerates data and small expression skeletons only.

import (
	"encoding/json"
	"fmt"
	"github.com/gobwas/ws"
	"go/ast"
	"go/parser"
	"go/token"
	"net/http/httptest"
	"os"
	"path/filepath"
	"sort"
	"strconv"
	"strings"

	"google.golang.org/grpc/codes"
	"google.golang.org/grpc/status"
	"larking.io/larking"
)

type genCtx struct {
	fset    *token.FileSet
	funcs   map[string]*ast.FuncDecl
	files   map[string]*ast.File
	missing []string
}

func loadSources(repo string) (*genCtx, error) {
	g := &genCtx{fset: token.NewFileSet(), funcs: map[string]*ast.FuncDecl{}, files: map[string]*ast.File{}}
	for _, dir := range []string{"larking", "health"} {
		matches, _ := filepath.Glob(filepath.Join(repo, dir, "*.go"))
		for _, f := range matches {
			if strings.HasSuffix(f, "_test.go") || strings.HasSuffix(f, "verif_hooks.go") {
				continue
			}
			af, err := parser.ParseFile(g.fset, f, nil, parser.ParseComments)
			if err != nil {
				return nil, err
			}
			g.files[filepath.Join(dir, filepath.Base(f))] = af
			for _, d := range af.Decls {
				if fd, ok := d.(*ast.FuncDecl); ok {
					name := fd.Name.Name
					if fd.Recv != nil && len(fd.Recv.List) == 1 {
						name = recvName(fd.Recv.List[0].Type) + "." + name
					}
					if dir != "larking" {
						name = dir + "." + name
					}
					g.funcs[name] = fd
				}
			}
		}
	}
	return g, nil
}

func recvName(e ast.Expr) string {
	switch t := e.(type) {
	case *ast.StarExpr:
		return recvName(t.X)
	case *ast.Ident:
		return t.Name
	}
	return "?"
}

func (g *genCtx) miss(what string) { g.missing = append(g.missing, what) }

// firstIf returns the first if statement (in source order) in fn whose
// condition satisfies pred.
func firstIf(fn *ast.FuncDecl, pred func(*ast.IfStmt) bool) *ast.IfStmt {
	var found *ast.IfStmt
	ast.Inspect(fn.Body, func(n ast.Node) bool {
		if found != nil {
			return false
		}
		if is, ok := n.(*ast.IfStmt); ok && pred(is) {
			found = is
			return false
		}
		return true
	})
	return found
}

func exprString(e ast.Expr) string {
	switch t := e.(type) {
	case *ast.Ident:
		return t.Name
	case *ast.BasicLit:
		return t.Value
	case *ast.SelectorExpr:
		return exprString(t.X) + "." + t.Sel.Name
	case *ast.CallExpr:
		var args []string
		for _, a := range t.Args {
			args = append(args, exprString(a))
		}
		return exprString(t.Fun) + "(" + strings.Join(args, ",") + ")"
	case *ast.BinaryExpr:
		return "(" + exprString(t.X) + t.Op.String() + exprString(t.Y) + ")"
	case *ast.ParenExpr:
		return exprString(t.X)
	case *ast.UnaryExpr:
		return t.Op.String() + exprString(t.X)
	case *ast.IndexExpr:
		return exprString(t.X) + "[" + exprString(t.Index) + "]"
	case *ast.SliceExpr:
		lo, hi := "", ""
		if t.Low != nil {
			lo = exprString(t.Low)
		}
		if t.High != nil {
			hi = exprString(t.High)
		}
		return exprString(t.X) + "[" + lo + ":" + hi + "]"
	case *ast.StarExpr:
		return "*" + exprString(t.X)
	}
	return fmt.Sprintf("<%T>", e)
}

// guardOf extracts `int(c) <op> len(<table>)` from the first if of fn.
func (g *genCtx) guardOf(fn string) (op string, table string) {
	fd := g.funcs[fn]
	if fd == nil {
		g.miss("func " + fn)
		return "gt", ""
	}
	is := firstIf(fd, func(is *ast.IfStmt) bool {
		be, ok := is.Cond.(*ast.BinaryExpr)
		if !ok {
			return false
		}
		call, ok := be.Y.(*ast.CallExpr)
		return ok && exprString(call.Fun) == "len"
	})
	if is == nil {
		g.miss("bounds guard in " + fn)
		return "gt", ""
	}
	be := is.Cond.(*ast.BinaryExpr)
	table = exprString(be.Y.(*ast.CallExpr).Args[0])
	switch be.Op {
	case token.GTR:
		op = "gt"
	case token.GEQ:
		op = "ge"
	default:
		g.miss("guard operator " + be.Op.String() + " in " + fn)
		op = "gt"
	}
	return
}

// bytePred translates a boolean Go expression over one byte variable into Lean.
func bytePred(e ast.Expr, v string) (string, error) {
	switch t := e.(type) {
	case *ast.ParenExpr:
		return bytePred(t.X, v)
	case *ast.BinaryExpr:
		switch t.Op {
		case token.LOR, token.LAND:
			l, err := bytePred(t.X, v)
			if err != nil {
				return "", err
			}
			r, err := bytePred(t.Y, v)
			if err != nil {
				return "", err
			}
			op := "||"
			if t.Op == token.LAND {
				op = "&&"
			}
			return "(" + l + " " + op + " " + r + ")", nil
		case token.LSS, token.GTR, token.LEQ, token.GEQ, token.EQL, token.NEQ:
			l, err := byteTerm(t.X, v)
			if err != nil {
				return "", err
			}
			r, err := byteTerm(t.Y, v)
			if err != nil {
				return "", err
			}
			op := map[token.Token]string{token.LSS: "<", token.GTR: ">", token.LEQ: "≤", token.GEQ: "≥", token.EQL: "=", token.NEQ: "≠"}[t.Op]
			return "decide (" + l + " " + op + " " + r + ")", nil
		}
	}
	return "", fmt.Errorf("unsupported predicate %s", exprString(e))
}

func byteTerm(e ast.Expr, v string) (string, error) {
	switch t := e.(type) {
	case *ast.Ident:
		if t.Name == v {
			return "c.toNat", nil
		}
	case *ast.BasicLit:
		switch t.Kind {
		case token.CHAR:
			r, _, _, err := strconv.UnquoteChar(t.Value[1:len(t.Value)-1], '\'')
			if err != nil {
				return "", err
			}
			return strconv.Itoa(int(r)), nil
		case token.INT:
			n, err := strconv.ParseInt(t.Value, 0, 64)
			if err != nil {
				return "", err
			}
			return strconv.FormatInt(n, 10), nil
		}
	}
	return "", fmt.Errorf("unsupported term %s", exprString(e))
}

func leanNatList(xs []int) string {
	var s []string
	for _, x := range xs {
		s = append(s, strconv.Itoa(x))
	}
	return "[" + strings.Join(s, ", ") + "]"
}

func leanStrList(xs []string) string {
	var s []string
	for _, x := range xs {
		s = append(s, strconv.Quote(x))
	}
	return "[" + strings.Join(s, ", ") + "]"
}

func writeIfChanged(path, content string) error {
	old, err := os.ReadFile(path)
	if err == nil && string(old) == content {
		return nil
	}
	if err := os.MkdirAll(filepath.Dir(path), 0o755); err != nil {
		return err
	}
	return os.WriteFile(path, []byte(content), 0o644)
}

const genHeader = "-- GENERATED by /verif/go/harness gen from /repo — do not edit.\n"

func runGen(repo, lean string) error {
	g, err := loadSources(repo)
	if err != nil {
		return err
	}
	facts := map[string]interface{}{}
	if err := genCodes(g, lean, facts); err != nil {
		return err
	}
	for _, f := range genSteps {
		if err := f(g, lean, facts); err != nil {
			return err
		}
	}
	sort.Strings(g.missing)
	facts["missing"] = g.missing
	var sb strings.Builder
	sb.WriteString(genHeader)
	sb.WriteString("namespace Larking.Gen\n\n/-- shapes the translator expected in the source and did not find. -/\n")
	sb.WriteString("def missing : List String := " + leanStrList(g.missing) + "\n\nend Larking.Gen\n")
	if err := writeIfChanged(filepath.Join(lean, "Larking/Gen/Missing.lean"), sb.String()); err != nil {
		return err
	}
	b, _ := json.MarshalIndent(facts, "", " ")
	return writeIfChanged(filepath.Join(lean, "Larking/Gen/facts.json"), string(b)+"\n")
}

// further generation steps register themselves here (one per concern).
var genSteps []func(g *genCtx, lean string, facts map[string]interface{}) error

func genCodes(g *genCtx, lean string, facts map[string]interface{}) error {
	httpT, wsT := larking.VerifCodeTables()
	lens := map[string]int{"codeToHTTPStatus": len(httpT), "codeToWSStatus": len(wsT)}
	hop, htab := g.guardOf("HTTPStatusCode")
	wop, wtab := g.guardOf("WSStatusCode")
	hlen, ok := lens[htab]
	if !ok {
		g.miss("HTTPStatusCode guard table " + htab)
	}
	wlen, ok := lens[wtab]
	if !ok {
		g.miss("WSStatusCode guard table " + wtab)
	}

	// escape predicate of encodeGrpcMessage
	needs := "false"
	if fd := g.funcs["encodeGrpcMessage"]; fd != nil {
		is := firstIf(fd, func(is *ast.IfStmt) bool {
			_, err := bytePred(is.Cond, "c")
			return err == nil
		})
		if is == nil {
			g.miss("escape condition in encodeGrpcMessage")
		} else {
			needs, _ = bytePred(is.Cond, "c")
			facts["needsEsc"] = exprString(is.Cond)
		}
	} else {
		g.miss("func encodeGrpcMessage")
	}

	// Twirp names as the code computes them today (codes 0..17), via encError.
	var twirp []string
	m, err := larking.NewMux()
	if err != nil {
		return err
	}
	for c := 0; c <= 17; c++ {
		name := func() (name string) {
			defer func() {
				if r := recover(); r != nil {
					name = "<panic>"
				}
			}()
			w := httptest.NewRecorder()
			r := httptest.NewRequest("POST", "/x", nil)
			r.Header.Set("Twirp-Version", "8")
			m.VerifEncError(w, r, status.Error(codes.Code(c), "m"))
			var te struct {
				Code string `json:"code"`
			}
			if err := json.Unmarshal(w.Body.Bytes(), &te); err != nil {
				return "<bad json>"
			}
			return te.Code
		}()
		twirp = append(twirp, name)
	}
	probe := func(f func(uint32) int) (v int) {
		defer func() {
			if r := recover(); r != nil {
				v = 0
			}
		}()
		return f(1 << 31)
	}
	httpDefault := probe(larking.VerifHTTPStatusCode)
	wsDefault := probe(larking.VerifWSStatusCode)
	facts["codeToHTTPStatus"] = httpT
	facts["codeToWSStatus"] = wsT
	facts["httpGuard"] = hop + " len(" + htab + ")"
	facts["wsGuard"] = wop + " len(" + wtab + ")"
	facts["twirpNames"] = twirp

	// the WebSocket close reason: `if max := ws.MaxControlFramePayloadSize - 2; len(reason) > max { reason = strings.ToValidUTF8(reason[:max], "") }`.
	// Without such a statement the cut is gobwas/ws's own (NewCloseFrameBody): 123 bytes, wherever that falls.
	wsReasonMax, wsRuneSafe := ws.MaxControlFramePayloadSize-2, false
	if fd := g.funcs["Mux.serveHTTP"]; fd != nil {
		ast.Inspect(fd.Body, func(n ast.Node) bool {
			is, ok := n.(*ast.IfStmt)
			if !ok || is.Init == nil || len(is.Body.List) != 1 {
				return true
			}
			init, cond, body := nodeSrc(g, is.Init), nodeSrc(g, is.Cond), strings.Join(strings.Fields(nodeSrc(g, is.Body.List[0])), " ")
			if init == "max := ws.MaxControlFramePayloadSize - 2" && cond == "len(reason) > max" {
				switch body {
				case `reason = strings.ToValidUTF8(reason[:max], "")`:
					wsRuneSafe = true
				case "reason = reason[:max]":
				default:
					g.miss("close-reason cut: " + body)
				}
			}
			return true
		})
	} else {
		g.miss("func Mux.serveHTTP")
	}
	var sb strings.Builder
	sb.WriteString(genHeader)
	sb.WriteString("import Larking.Model.Status\nnamespace Larking.Gen\nopen Larking.Status\n\n")
	fmt.Fprintf(&sb, "/-- the WebSocket close reason: bytes kept of a long status message, and whether the cut is moved to a rune boundary. -/\ndef wsReasonMax : Nat := %d\ndef wsReasonRuneSafe : Bool := %v\n\n", wsReasonMax, wsRuneSafe)
	fmt.Fprintf(&sb, "/-- code.go `codeToHTTPStatus` (values evaluated by the compiled package). -/\ndef codeToHTTPStatus : List Nat := %s\n\n", leanNatList(httpT))
	fmt.Fprintf(&sb, "/-- code.go `codeToWSStatus`. -/\ndef codeToWSStatus : List Nat := %s\n\n", leanNatList(wsT))
	fmt.Fprintf(&sb, "/-- guard of `HTTPStatusCode`: `int(c) %s len(%s)`. -/\ndef httpGuardOp : GuardOp := .%s\ndef httpGuardLen : Nat := %d\n\n", hop, htab, hop, hlen)
	fmt.Fprintf(&sb, "/-- guard of `WSStatusCode`: `int(c) %s len(%s)`. -/\ndef wsGuardOp : GuardOp := .%s\ndef wsGuardLen : Nat := %d\n\n", wop, wtab, wop, wlen)
	fmt.Fprintf(&sb, "/-- value returned when the guard fires (observed at code 2^31). -/\ndef httpDefault : Nat := %d\ndef wsDefault : Nat := %d\n\n", httpDefault, wsDefault)
	fmt.Fprintf(&sb, "/-- escape condition of `encodeGrpcMessage`, translated operator by operator. -/\ndef needsEsc (c : UInt8) : Bool := %s\n\n", needs)
	fmt.Fprintf(&sb, "/-- Twirp `code` strings produced by `encError` for gRPC codes 0..17. -/\ndef twirpNames : List String := %s\n\n", leanStrList(twirp))
	sb.WriteString("end Larking.Gen\n")
	return writeIfChanged(filepath.Join(lean, "Larking/Gen/Codes.lean"), sb.String())
}
