package main

import (
	"fmt"
	"go/ast"
	"path/filepath"
	"sort"
	"strings"
)

func init() { genSteps = append(genSteps, genPool) }

// Pool discipline: for every function that takes an object from a sync.Pool, every execution
// path (loops taken 0 or 1 times) projected onto what it does with the pooled object:
//   get / reset (write) / use (read) / put, a put after an alias was stored in a longer-lived
//   place (putKeep), in source order, deferred functions run at every return.
// Emitted as Lean `Pool.Ev` terms; the discipline itself is checked by the Lean kernel.

var poolFuncs = []string{"streamGRPC.SendMsg", "streamGRPC.RecvMsg", "streamHTTP.SendMsg", "streamHTTP.decodeRequestArgs", "streamHTTP.readMsg"}

// parameters that carry a pooled buffer borrowed from the caller.
var poolBorrowed = map[string]string{"streamHTTP.readMsg": "b"}

type poolPartial struct {
	evs    []string
	defers []ast.Node
	esc    map[int]bool
	done   bool
}

func (p poolPartial) key() string {
	var es []string
	for k := range p.esc {
		es = append(es, fmt.Sprint(k))
	}
	sort.Strings(es)
	return strings.Join(p.evs, ";") + "|" + fmt.Sprint(len(p.defers)) + "|" + strings.Join(es, ",") + "|" + fmt.Sprint(p.done)
}

func (p poolPartial) with(evs ...string) poolPartial {
	q := poolPartial{evs: append([]string(nil), p.evs...), defers: p.defers, esc: p.esc, done: p.done}
	for _, ev := range evs {
		// repeated uses of the same object in a row are one use
		if strings.HasPrefix(ev, ".read") && len(q.evs) > 0 && q.evs[len(q.evs)-1] == ev {
			continue
		}
		q.evs = append(q.evs, ev)
	}
	return q
}

type poolEnum struct {
	g     *genCtx
	slots map[string]int // pooled variable (source text) -> slot
	alias map[string]int // alias identifier -> slot
	bad   []string
}

func isPoolExpr(s string) bool {
	return strings.HasSuffix(s, "Pool") || strings.HasSuffix(s, "poolCompressor") || strings.HasSuffix(s, "poolDecompressor") || strings.HasSuffix(s, ".pool")
}

func (e *poolEnum) mentions(n ast.Node) (slots []int) {
	seen := map[int]bool{}
	ast.Inspect(n, func(x ast.Node) bool {
		if _, ok := x.(*ast.FuncLit); ok {
			return false
		}
		if id, ok := x.(*ast.Ident); ok {
			if s, ok := e.slots[id.Name]; ok && !seen[s] {
				seen[s] = true
				slots = append(slots, s)
			}
			if s, ok := e.alias[id.Name]; ok && !seen[s] {
				seen[s] = true
				slots = append(slots, s)
			}
		}
		return true
	})
	sort.Ints(slots)
	return
}

// simple turns one simple statement (or expression) into events, recording escapes.
func (e *poolEnum) simple(p poolPartial, n ast.Node) poolPartial {
	src := nodeSrc(e.g, n)
	// Get
	var get *ast.CallExpr
	var put *ast.CallExpr
	ast.Inspect(n, func(x ast.Node) bool {
		if _, ok := x.(*ast.FuncLit); ok {
			return false
		}
		if c, ok := x.(*ast.CallExpr); ok {
			if sel, ok := c.Fun.(*ast.SelectorExpr); ok && isPoolExpr(nodeSrc(e.g, sel.X)) {
				switch sel.Sel.Name {
				case "Get":
					get = c
				case "Put":
					put = c
				}
			}
		}
		return true
	})
	switch {
	case get != nil:
		as, ok := n.(*ast.AssignStmt)
		if !ok || len(as.Lhs) == 0 {
			e.bad = append(e.bad, "pool Get outside an assignment: "+src)
			return p
		}
		name := nodeSrc(e.g, as.Lhs[0])
		slot, ok := e.slots[name]
		if !ok {
			slot = len(e.slots)
			e.slots[name] = slot
		}
		return p.with(fmt.Sprintf(".get %d", slot))
	case put != nil && len(put.Args) == 1:
		name := nodeSrc(e.g, put.Args[0])
		slot, ok := e.slots[name]
		if !ok {
			e.bad = append(e.bad, "Put of an untracked object: "+src)
			return p
		}
		if p.esc[slot] {
			return p.with(fmt.Sprintf(".putKeep %d", slot))
		}
		return p.with(fmt.Sprintf(".put %d", slot))
	}
	ms := e.mentions(n)
	if len(ms) == 0 {
		return p
	}
	q := p
	for _, slot := range ms {
		kind := "read"
		if as, ok := n.(*ast.AssignStmt); ok && len(as.Lhs) >= 1 && len(as.Rhs) >= 1 {
			rhs := nodeSrc(e.g, as.Rhs[len(as.Rhs)-1])
			// alias definitions: a new local assigned from the pooled object
			if id, ok := as.Lhs[0].(*ast.Ident); ok && as.Tok.String() == ":=" && len(as.Lhs) == 1 {
				if _, tracked := e.slots[id.Name]; !tracked && len(e.mentions(as.Rhs[0])) > 0 && aliasing(e, as.Rhs[0]) {
					e.alias[id.Name] = slot
				}
			}
			if strings.HasSuffix(rhs, "[:0]") && len(as.Lhs) == 1 {
				kind = "write"
			}
			// escape: stored through something that is neither a local nor the pooled object itself
			for i, l := range as.Lhs {
				switch l.(type) {
				case *ast.SelectorExpr, *ast.IndexExpr, *ast.StarExpr:
					if len(e.mentions(l)) > 0 {
						continue // *bp = b, buf.x = …
					}
					r := as.Rhs[len(as.Rhs)-1]
					if i < len(as.Rhs) {
						r = as.Rhs[i]
					}
					for _, s2 := range e.mentions(r) {
						if s2 == slot && aliasing(e, r) {
							q.esc = copyEsc(q.esc, slot)
						}
					}
				}
			}
		}
		if es, ok := n.(*ast.ExprStmt); ok {
			if c, ok := es.X.(*ast.CallExpr); ok {
				if sel, ok := c.Fun.(*ast.SelectorExpr); ok && sel.Sel.Name == "Reset" && len(e.mentions(sel.X)) > 0 {
					kind = "write"
				}
			}
		}
		// values that keep the bytes: protoreflect.ValueOfBytes(alias)
		ast.Inspect(n, func(x ast.Node) bool {
			if c, ok := x.(*ast.CallExpr); ok && strings.HasSuffix(nodeSrc(e.g, c.Fun), "ValueOfBytes") && len(c.Args) == 1 {
				for _, s2 := range e.mentions(c.Args[0]) {
					if s2 == slot {
						q.esc = copyEsc(q.esc, slot)
					}
				}
			}
			return true
		})
		if kind == "write" {
			q = q.with(fmt.Sprintf(".write %d 0", slot))
		} else {
			q = q.with(fmt.Sprintf(".read %d", slot))
		}
	}
	return q
}

// aliasing: expressions whose value shares memory with the pooled object they mention.
func aliasing(e *poolEnum, x ast.Expr) bool {
	switch t := x.(type) {
	case *ast.ParenExpr:
		return aliasing(e, t.X)
	case *ast.Ident, *ast.SliceExpr, *ast.StarExpr, *ast.IndexExpr:
		return true
	case *ast.UnaryExpr:
		return t.Op.String() == "&"
	case *ast.CallExpr:
		if sel, ok := t.Fun.(*ast.SelectorExpr); ok && sel.Sel.Name == "Bytes" {
			return true
		}
		if nodeSrc(e.g, t.Fun) == "append" && len(t.Args) > 0 {
			return len(e.mentions(t.Args[0])) > 0
		}
	}
	return false
}

func copyEsc(m map[int]bool, k int) map[int]bool {
	out := map[int]bool{k: true}
	for a := range m {
		out[a] = true
	}
	return out
}

// isCopy: expressions whose value does not alias their arguments' backing array.
func isCopy(e *poolEnum, x ast.Expr) bool {
	c, ok := x.(*ast.CallExpr)
	if !ok {
		return false
	}
	switch nodeSrc(e.g, c.Fun) {
	case "append":
		return len(c.Args) > 0 && len(e.mentions(c.Args[0])) == 0
	case "string", "len", "cap", "copy", "int", "uint32":
		return true
	}
	return false
}

func dedupe(ps []poolPartial) []poolPartial {
	seen := map[string]bool{}
	var out []poolPartial
	for _, p := range ps {
		k := p.key()
		if !seen[k] {
			seen[k] = true
			out = append(out, p)
		}
	}
	return out
}

func (e *poolEnum) stmts(ps []poolPartial, list []ast.Stmt) []poolPartial {
	for _, s := range list {
		ps = e.stmt(ps, s)
		if len(ps) > 4000 {
			e.bad = append(e.bad, "too many paths")
			return ps[:4000]
		}
	}
	return ps
}

func (e *poolEnum) finish(p poolPartial) poolPartial {
	// deferred calls run in reverse order at return
	p.done = true
	return p
}

func (e *poolEnum) stmt(ps []poolPartial, s ast.Stmt) []poolPartial {
	var out []poolPartial
	for _, p := range ps {
		if p.done {
			out = append(out, p)
			continue
		}
		switch t := s.(type) {
		case *ast.BlockStmt:
			out = append(out, e.stmts([]poolPartial{p}, t.List)...)
		case *ast.IfStmt:
			q := p
			if t.Init != nil {
				q = e.simple(q, t.Init)
			}
			q = e.simple(q, t.Cond)
			out = append(out, e.stmts([]poolPartial{q}, t.Body.List)...)
			if t.Else != nil {
				out = append(out, e.stmt([]poolPartial{q}, t.Else)...)
			} else {
				out = append(out, q)
			}
		case *ast.ForStmt:
			q := p
			if t.Init != nil {
				q = e.simple(q, t.Init)
			}
			if t.Cond != nil {
				q = e.simple(q, t.Cond)
			}
			out = append(out, q)
			out = append(out, e.stmts([]poolPartial{q}, t.Body.List)...)
		case *ast.RangeStmt:
			q := e.simple(p, t.X)
			out = append(out, q)
			out = append(out, e.stmts([]poolPartial{q}, t.Body.List)...)
		case *ast.SwitchStmt:
			q := p
			if t.Init != nil {
				q = e.simple(q, t.Init)
			}
			if t.Tag != nil {
				q = e.simple(q, t.Tag)
			}
			hasDefault := false
			for _, cc := range t.Body.List {
				c := cc.(*ast.CaseClause)
				if c.List == nil {
					hasDefault = true
				}
				r := q
				for _, x := range c.List {
					r = e.simple(r, x)
				}
				out = append(out, e.stmts([]poolPartial{r}, c.Body)...)
			}
			if !hasDefault {
				out = append(out, q)
			}
		case *ast.TypeSwitchStmt:
			q := e.simple(p, t.Assign)
			for _, cc := range t.Body.List {
				out = append(out, e.stmts([]poolPartial{q}, cc.(*ast.CaseClause).Body)...)
			}
			out = append(out, q)
		case *ast.ReturnStmt:
			q := p
			for _, r := range t.Results {
				q = e.simple(q, r)
			}
			// run the deferred functions, last first
			rs := []poolPartial{q}
			for i := len(q.defers) - 1; i >= 0; i-- {
				switch d := q.defers[i].(type) {
				case *ast.BlockStmt:
					var next []poolPartial
					for _, r := range rs {
						r.done = false
						next = append(next, e.stmts([]poolPartial{r}, d.List)...)
					}
					rs = next
				default:
					for j := range rs {
						rs[j] = e.simple(rs[j], d)
					}
				}
			}
			for _, r := range rs {
				r.done = true
				out = append(out, r)
			}
		case *ast.DeferStmt:
			q := p
			if fl, ok := t.Call.Fun.(*ast.FuncLit); ok {
				q.defers = append(append([]ast.Node(nil), p.defers...), fl.Body)
			} else {
				q.defers = append(append([]ast.Node(nil), p.defers...), &ast.ExprStmt{X: t.Call})
			}
			out = append(out, q)
		case *ast.LabeledStmt:
			out = append(out, e.stmt([]poolPartial{p}, t.Stmt)...)
		case *ast.BranchStmt, *ast.EmptyStmt:
			out = append(out, p)
		default:
			out = append(out, e.simple(p, s))
		}
	}
	return dedupe(out)
}

func poolPathsOf(g *genCtx, fn string) (paths [][]string, bad []string) {
	fd := g.funcs[fn]
	if fd == nil {
		return nil, []string{"missing function " + fn}
	}
	e := &poolEnum{g: g, slots: map[string]int{}, alias: map[string]int{}}
	start := poolPartial{}
	if b, ok := poolBorrowed[fn]; ok {
		e.slots[b] = 0
		start = start.with(".get 0", ".write 0 0")
	}
	ps := e.stmts([]poolPartial{start}, fd.Body.List)
	// falling off the end is a return
	ps = e.stmt(ps, &ast.ReturnStmt{})
	seen := map[string]bool{}
	for _, p := range ps {
		evs := p.evs
		// an object that is not returned to the pool on this path is abandoned to the GC
		held := map[string]bool{}
		var order []string
		for _, ev := range evs {
			f := strings.Fields(ev)
			switch f[0] {
			case ".get":
				held[f[1]] = true
				order = append(order, f[1])
			case ".put", ".putKeep":
				held[f[1]] = false
			}
		}
		for _, k := range order {
			if held[k] && !(k == "0" && poolBorrowed[fn] != "") {
				evs = append(append([]string(nil), evs...), ".drop "+k)
				held[k] = false
			}
		}
		if _, ok := poolBorrowed[fn]; ok {
			if p.esc[0] {
				evs = append(append([]string(nil), evs...), ".putKeep 0")
			} else {
				evs = append(append([]string(nil), evs...), ".put 0")
			}
		}
		k := strings.Join(evs, ", ")
		if !seen[k] {
			seen[k] = true
			paths = append(paths, evs)
		}
	}
	sort.Slice(paths, func(i, j int) bool { return strings.Join(paths[i], ",") < strings.Join(paths[j], ",") })
	return paths, e.bad
}

func genPool(g *genCtx, lean string, facts map[string]interface{}) error {
	var sb strings.Builder
	sb.WriteString(genHeader)
	sb.WriteString("import Larking.Model.Pool\nnamespace Larking.Gen.Pool\nopen Larking.Pool\n\n")
	all := map[string]interface{}{}
	var names []string
	for _, fn := range poolFuncs {
		paths, bad := poolPathsOf(g, fn)
		for _, b := range bad {
			g.missing = append(g.missing, "pool paths of "+fn+": "+b)
		}
		all[fn] = paths
		id := leanIdent(fn)
		names = append(names, id)
		fmt.Fprintf(&sb, "/-- pool events along every execution path of `%s` (%d distinct). -/\ndef paths_%s : List (List Ev) := [\n", fn, len(paths), id)
		for i, p := range paths {
			sep := ","
			if i == len(paths)-1 {
				sep = ""
			}
			fmt.Fprintf(&sb, "  [%s]%s\n", strings.Join(p, ", "), sep)
		}
		sb.WriteString("]\n\n")
	}
	sb.WriteString("def all : List (String × List (List Ev)) := [\n")
	for i, fn := range poolFuncs {
		sep := ","
		if i == len(poolFuncs)-1 {
			sep = ""
		}
		fmt.Fprintf(&sb, "  (%q, paths_%s)%s\n", fn, names[i], sep)
	}
	sb.WriteString("]\n\n")
	// the proxy's upload pump: `inErr` is written by the pump goroutine and read by the handler;
	// order, in the handler (outside the goroutine) after the go statement, of wg.Wait() and
	// every statement mentioning inErr.
	var fence []string
	if fd := g.funcs["createConnHandler"]; fd != nil {
		started := false
		var walk func(n ast.Node)
		walk = func(n ast.Node) {
			ast.Inspect(n, func(x ast.Node) bool {
				switch t := x.(type) {
				case *ast.GoStmt:
					started = true
					fence = append(fence, "go")
					return false
				case *ast.ExprStmt:
					if started && strings.HasSuffix(nodeSrc(g, t.X), "wg.Wait()") {
						fence = append(fence, "wait")
					}
				case *ast.Ident:
					if started && t.Name == "inErr" {
						if len(fence) == 0 || fence[len(fence)-1] != "inErr" {
							fence = append(fence, "inErr")
						}
					}
				}
				return true
			})
		}
		walk(fd.Body)
	}
	qs := make([]string, len(fence))
	for i, f := range fence {
		qs[i] = fmt.Sprintf("%q", f)
	}
	fmt.Fprintf(&sb, "/-- createConnHandler after starting the upload pump: wg.Wait() and uses of inErr in the handler goroutine. -/\ndef proxyFence : List String := [%s]\n\n", strings.Join(qs, ", "))
	sb.WriteString("end Larking.Gen.Pool\n")
	facts["pool_paths"] = all
	return writeIfChanged(filepath.Join(lean, "Larking/Gen/Pool.lean"), sb.String())
}
