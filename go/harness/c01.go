package main

import (
	"context"
	"encoding/base64"
	"fmt"
	"io"
	"net"
	"net/http/httptest"
	"sort"
	"strconv"
	"strings"
	"time"

	gws "github.com/gobwas/ws"
	"github.com/gobwas/ws/wsutil"
	"google.golang.org/genproto/googleapis/api/annotations"
	"google.golang.org/grpc"
	"google.golang.org/grpc/reflection"
	rpb "google.golang.org/grpc/reflection/grpc_reflection_v1alpha"
	"google.golang.org/protobuf/proto"
	"google.golang.org/protobuf/reflect/protoreflect"
	"google.golang.org/protobuf/types/dynamicpb"
)

func init() {
	props["C01"] = func(c *Ctx) { runRouting(c, "C01") }
	props["C02"] = func(c *Ctx) { runRouting(c, "C02") }
}

var litPool = []string{"v1", "a", "b", "books", "x", "shelves", "é", "a-b", "a.b", "x1", "name", "v", "ab", "é日", "日é", "users", "users-archive", "v1.beta"}
var segPool = []string{"x", "y1", "42", "a", "é", "books", "v1", "null", "-7", "a=b", "x~y", "b", "shelves", "Z", "0", "12345", "a.b", "x1", "日本", "é日", "日é", "aé日b", "4294967295", "4294967296", "4294967297", "2147483647", "2147483648", "-2147483648", "-2147483649", "007", "1e3", "1.0", "010", "0x10", "0b11", "0o17", "1_000", "+5", "9223372036854775807", "9223372036854775808", "-9223372036854775808", "-9223372036854775809",
	// every character larking documents as valid in a path segment
	"a;b", "a,b", "a@b", "a!b", "a$b", "a&b", "a'b", "(a)", "a*b", "a+b", "a=b;c", ";", "~"}
var verbPool = []string{"read", "cancel", "x", "watch"}
var kindPool = []string{"GET", "GET", "POST", "PUT", "DELETE", "PATCH", "*", "LOCK", "get"}

func genSub(c *Ctx) []tseg {
	switch c.Rng.Intn(9) {
	case 0, 1:
		return nil
	case 2:
		return []tseg{{kind: sStar}}
	case 3:
		return []tseg{{kind: sStarStar}}
	case 4:
		return []tseg{{kind: sLit, lit: litPool[c.Rng.Intn(len(litPool))]}, {kind: sStar}}
	case 5:
		return []tseg{{kind: sLit, lit: litPool[c.Rng.Intn(len(litPool))]}, {kind: sStarStar}}
	case 6:
		return []tseg{{kind: sLit, lit: litPool[c.Rng.Intn(len(litPool))]}, {kind: sLit, lit: litPool[c.Rng.Intn(len(litPool))]}, {kind: sStarStar}}
	case 7:
		return []tseg{{kind: sStar}, {kind: sLit, lit: litPool[c.Rng.Intn(len(litPool))]}, {kind: sStar}}
	default:
		return []tseg{{kind: sLit, lit: litPool[c.Rng.Intn(len(litPool))]}}
	}
}

var fieldNames = func() []string {
	var ks []string
	for k := range routeFields {
		ks = append(ks, k)
	}
	sort.Strings(ks)
	return ks
}()

func genTmpl(c *Ctx) ttmpl {
	var t ttmpl
	n := 1 + c.Rng.Intn(4)
	for i := 0; i < n; i++ {
		switch r := c.Rng.Intn(10); {
		case r < 4:
			t.segs = append(t.segs, tseg{kind: sLit, lit: litPool[c.Rng.Intn(len(litPool))]})
		case r < 5:
			t.segs = append(t.segs, tseg{kind: sStar})
		case r < 6 && (i == n-1 || c.Rng.Intn(4) == 0):
			t.segs = append(t.segs, tseg{kind: sStarStar})
		default:
			f := fieldNames[c.Rng.Intn(len(fieldNames))]
			if c.Rng.Intn(4) > 0 { // mostly string-typed
				f = []string{"name", "other_name", "nested.s", "nested.child.s", "rs", "otherName", "u32", "i32", "i64", "s64"}[c.Rng.Intn(10)]
			}
			t.segs = append(t.segs, tseg{kind: sVar, field: f, sub: genSub(c)})
		}
	}
	if c.Rng.Intn(3) == 0 {
		t.verb = verbPool[c.Rng.Intn(len(verbPool))]
	}
	// a field is bound at most once per template (otherwise "the" bound value is ambiguous)
	seen := map[int]bool{}
	for i := range t.segs {
		if t.segs[i].kind != sVar {
			continue
		}
		for seen[routeFields[t.segs[i].field].id] {
			t.segs[i].field = fieldNames[c.Rng.Intn(len(fieldNames))]
		}
		seen[routeFields[t.segs[i].field].id] = true
	}
	return t
}

func genRuleSet(c *Ctx, nMethods int) []rrule {
	var rules []rrule
	for i, n := 0, 1+c.Rng.Intn(5); i < n; i++ {
		r := rrule{method: c.Rng.Intn(nMethods), primary: rbind{kind: kindPool[c.Rng.Intn(len(kindPool))], t: genTmpl(c)}}
		if c.Rng.Intn(5) == 0 {
			r.method += nMethods // the method of the same short name in the other service
		}
		if len(rules) > 0 && c.Rng.Intn(8) == 0 { // exactly an earlier binding again (same or other method)
			r.primary = rules[c.Rng.Intn(len(rules))].primary
		}
		if len(rules) > 0 && c.Rng.Intn(3) == 0 { // share a prefix with an earlier rule
			prev := rules[c.Rng.Intn(len(rules))].primary.t
			k := 1 + c.Rng.Intn(len(prev.segs))
			r.primary.t.segs = append(append([]tseg{}, prev.segs[:k]...), r.primary.t.segs[:1+c.Rng.Intn(len(r.primary.t.segs))]...)
			if c.Rng.Intn(3) == 0 {
				r.primary.t.segs = r.primary.t.segs[:k]
			}
			seen := map[int]bool{}
			for i := range r.primary.t.segs {
				if r.primary.t.segs[i].kind == sVar {
					if seen[routeFields[r.primary.t.segs[i].field].id] {
						r.primary.t.segs[i] = tseg{kind: sStar}
					}
					seen[routeFields[r.primary.t.segs[i].field].id] = true
				}
			}
		}
		for j, k := 0, c.Rng.Intn(3); j < k && c.Rng.Intn(2) == 0; j++ {
			r.additional = append(r.additional, rbind{kind: kindPool[c.Rng.Intn(len(kindPool))], t: genTmpl(c)})
		}
		rules = append(rules, r)
	}
	return rules
}

func instantiate(c *Ctx, segs []tseg) []string {
	var out []string
	for _, s := range segs {
		switch s.kind {
		case sLit:
			out = append(out, s.lit)
		case sStar:
			out = append(out, segPool[c.Rng.Intn(len(segPool))])
		case sStarStar:
			for i, n := 0, c.Rng.Intn(4); i < n; i++ {
				out = append(out, segPool[c.Rng.Intn(len(segPool))])
			}
		case sVar:
			sub := s.sub
			if sub == nil {
				sub = []tseg{{kind: sStar}}
			}
			out = append(out, instantiate(c, sub)...)
		}
	}
	return out
}

func genPaths(c *Ctx, rules []rrule, n int) []string {
	var tmpls []ttmpl
	for _, r := range rules {
		if r.primary.raw == "" {
			tmpls = append(tmpls, r.primary.t)
		}
		for _, a := range r.additional {
			if a.raw == "" {
				tmpls = append(tmpls, a.t)
			}
		}
	}
	var paths []string
	for i := 0; i < n; i++ {
		if len(tmpls) == 0 || c.Rng.Intn(12) == 0 {
			paths = append(paths, []string{"/", "", "/x", "//", "/a//b", "/:x", ":x", "/a:b:c", "/%", "/a b", "/a/", "/{name}", "/*", "/**", "/a/b/c/d/e/f", "/\xff", "/a\x00b", "/" + strings.Repeat("a/", 40), "/" + strings.Repeat("a/", 31) + "a", "/" + strings.Repeat("a/", 32) + "a"}[c.Rng.Intn(20)])
			continue
		}
		t := tmpls[c.Rng.Intn(len(tmpls))]
		segs := instantiate(c, t.segs)
		verb := t.verb
		switch c.Rng.Intn(12) {
		case 0: // one segment more
			segs = append(segs, segPool[c.Rng.Intn(len(segPool))])
		case 1: // one segment less, or cut at any earlier segment boundary (the path ends inside a sub-pattern)
			if len(segs) > 0 {
				segs = segs[:len(segs)-1]
				if len(segs) > 1 && c.Rng.Intn(2) == 0 {
					segs = segs[:1+c.Rng.Intn(len(segs)-1)]
				}
			}
		case 2: // wrong / extra / missing verb
			verb = []string{"", verbPool[c.Rng.Intn(len(verbPool))], verb + "x"}[c.Rng.Intn(3)]
		case 3: // perturb one segment
			if len(segs) > 0 {
				segs[c.Rng.Intn(len(segs))] = segPool[c.Rng.Intn(len(segPool))]
			}
		}
		p := "/" + strings.Join(segs, "/")
		if verb != "" {
			p += ":" + verb
		}
		switch c.Rng.Intn(14) {
		case 0: // a '/' becomes ':'
			if i := strings.LastIndex(p[1:], "/"); i >= 0 {
				p = p[:i+1] + ":" + p[i+2:]
			}
		case 1: // a ':' becomes '/'
			if i := strings.LastIndex(p, ":"); i >= 0 {
				p = p[:i] + "/" + p[i+1:]
			}
		case 2:
			p += "/"
		}
		paths = append(paths, p)
	}
	return paths
}

// normalise captured int text the way the implementation reports it
func normCap(field, text string) string {
	if fi, ok := routeFields[field]; ok && (fi.kind == "I" || fi.kind == "U" || fi.kind == "L") {
		if text == "null" {
			return "0"
		}
		if n, err := strconv.ParseInt(text, 10, 64); err == nil {
			return strconv.FormatInt(n, 10)
		}
	}
	return text
}

var idToField = func() map[string]string {
	m := map[string]string{}
	for k, v := range routeFields {
		if _, ok := m[strconv.Itoa(v.id)]; !ok || !strings.Contains(k, "N") {
			if k != "otherName" {
				m[strconv.Itoa(v.id)] = k
			}
		}
	}
	return m
}()

// normModelRoute rewrites the driver's answer so that int captures compare by value.
func normModelRoute(ans string) string {
	if !strings.HasPrefix(ans, "found ") {
		return ans
	}
	parts := strings.SplitN(ans, " ", 3)
	if len(parts) < 3 || parts[2] == "" {
		return ans
	}
	var caps []string
	for _, cp := range strings.Split(parts[2], ";") {
		id, hx, _ := strings.Cut(cp, "=")
		if f, ok := idToField[id]; ok && (routeFields[f].kind == "I" || routeFields[f].kind == "U" || routeFields[f].kind == "L") {
			var b []byte
			fmt.Sscanf(hx, "%x", &b)
			hx = hexS(normCap(f, string(b)))
		}
		caps = append(caps, id+"="+hx)
	}
	return parts[0] + " " + parts[1] + " " + strings.Join(caps, ";")
}

func convertible(field, text string) bool {
	fi := routeFields[field]
	switch fi.kind {
	case "S":
		return true
	case "I":
		if text == "null" {
			return true
		}
		n, err := strconv.ParseInt(text, 10, 32)
		_ = n
		return err == nil && !strings.HasPrefix(text, "+") && (text == "0" || text == "-0" || !strings.HasPrefix(strings.TrimPrefix(text, "-"), "0"))
	case "L":
		if text == "null" {
			return true
		}
		_, err := strconv.ParseInt(text, 10, 64)
		return err == nil && !strings.HasPrefix(text, "+") && (text == "0" || text == "-0" || !strings.HasPrefix(strings.TrimPrefix(text, "-"), "0"))
	case "U":
		if text == "null" {
			return true
		}
		_, err := strconv.ParseUint(text, 10, 32)
		return err == nil && !strings.HasPrefix(text, "+") && (text == "0" || !strings.HasPrefix(text, "0"))
	}
	return false
}

type acceptedBinding struct {
	method int
	b      rbind
}

func acceptedBindings(rules []rrule, outs []string) []acceptedBinding {
	var acc []acceptedBinding
	for i, r := range rules {
		if outs[i] != "ok" {
			continue
		}
		acc = append(acc, acceptedBinding{r.method, r.primary})
		for _, a := range r.additional {
			acc = append(acc, acceptedBinding{r.method, a})
		}
	}
	return acc
}

func kindMatches(kind, verb string) bool {
	k := strings.ToUpper(kind)
	return k == verb || k == "*"
}

func tokenCount(path string) int {
	n := 1 // EOF
	for i := 0; i < len(path); i++ {
		if path[i] == '/' || path[i] == ':' {
			n += 2
		}
	}
	return n
}

func runRouting(c *Ctx, prop string) {
	c.Rule("generated rule sets (1..5 rules over 3 methods; literals, *, **, {field}, {field=sub/pattern}, nested field paths, typed fields, :verb, shared prefixes, additional bindings; kinds GET/PUT/POST/DELETE/PATCH/custom/'*') x paths instantiated from the set's templates and perturbed (':' for '/', one segment more/less, wrong verb, unicode, token-limit lengths) x request verbs; every lookup is corresponded with the Lean model of lexPath+search+variable.index and judged by an independent template matcher (loose reading for soundness, strict for completeness); rule sets are also registered in shuffled orders. Non-trivial: the path reaches at least one trie node; distinct by rule set+verb+path.")
	c.Assume("captured text is compared after the field's own conversion; conversion of typed captures (int32) follows encoding/json")
	env, err := newRouteEnv(3)
	if err != nil {
		c.SpecFail("fixture", prop, err.Error(), "descriptors", prop+"/fixture", "cannot build descriptors")
		return
	}
	c01API(c, prop)
	nSets := c.N(500, 12000)
	lit := func(s string) tseg { return tseg{kind: sLit, lit: s} }
	v := func(field string, sub ...tseg) tseg { return tseg{kind: sVar, field: field, sub: sub} }
	// sibling variables whose patterns begin with literals one of which continues the other with a
	// character that sorts before '/' ('-', '.'): the variables slice is sorted by pattern TEXT
	// ("users-archive/*" < "users/*"), not by leading literal ("users" < "users-archive")
	directedSets := [][]rrule{
		{{method: 0, primary: rbind{kind: "GET", t: ttmpl{segs: []tseg{lit("v1"), v("name", lit("users"), tseg{kind: sStar})}}}},
			{method: 1, primary: rbind{kind: "GET", t: ttmpl{segs: []tseg{lit("v1"), v("name", lit("users-archive"), tseg{kind: sStar})}}}}},
		{{method: 0, primary: rbind{kind: "GET", t: ttmpl{segs: []tseg{lit("api"), v("name", lit("v1"), tseg{kind: sStar})}, verb: "get"}}},
			{method: 1, primary: rbind{kind: "GET", t: ttmpl{segs: []tseg{lit("api"), v("name", lit("v1.beta"), tseg{kind: sStarStar})}}}}},
		{{method: 1, primary: rbind{kind: "GET", t: ttmpl{segs: []tseg{v("name", lit("a.b"), tseg{kind: sStar})}}}},
			{method: 0, primary: rbind{kind: "GET", t: ttmpl{segs: []tseg{v("name", lit("a"), tseg{kind: sStar})}}}},
			{method: 2, primary: rbind{kind: "GET", t: ttmpl{segs: []tseg{v("name", lit("a-b"), tseg{kind: sStar}, lit("x"))}}}}},
		// a path that ENDS inside a variable's sub-pattern (after a star with more pattern to come) beside
		// rules that really match it: a sibling variable that sorts later, a catch-all reached by backtracking
		{{method: 0, primary: rbind{kind: "GET", t: ttmpl{segs: []tseg{lit("v1"), v("name", lit("shelves"), tseg{kind: sStar}, lit("books"), tseg{kind: sStar})}}}},
			{method: 1, primary: rbind{kind: "GET", t: ttmpl{segs: []tseg{lit("v1"), v("name", lit("shelves"), lit("zz"))}}}},
			{method: 2, primary: rbind{kind: "GET", t: ttmpl{segs: []tseg{v("name", tseg{kind: sStarStar})}}}}},
		{{method: 0, primary: rbind{kind: "GET", t: ttmpl{segs: []tseg{v("name", lit("a"), tseg{kind: sStar}, lit("b"), tseg{kind: sStar}, lit("c"))}}}},
			{method: 1, primary: rbind{kind: "GET", t: ttmpl{segs: []tseg{v("name", lit("a"), tseg{kind: sStar}, lit("b"))}}}}},
		// an int64-typed variable against text that only LOOKS numeric in another radix
		{{method: 0, primary: rbind{kind: "GET", t: ttmpl{segs: []tseg{lit("n"), v("i64")}}}},
			{method: 1, primary: rbind{kind: "GET", t: ttmpl{segs: []tseg{lit("s"), v("s64")}}}}},
	}
	directedPaths := map[int][]string{
		3: {"/v1/shelves/zz", "/v1/shelves/s1", "/v1/shelves/s1/books", "/v1/shelves", "/v1/shelves/s1/books/b1"},
		4: {"/a/x/b", "/a/x", "/a/x/b/y", "/a/x/b/y/c", "/a"},
		5: {"/n/0x10", "/n/010", "/n/0b11", "/n/1_0", "/n/10", "/n/-0x1", "/s/0x7f", "/s/0o17", "/s/-9223372036854775808", "/n/9223372036854775808"},
	}
	for si := 0; si < nSets+len(directedSets); si++ {
		var rules []rrule
		if si < len(directedSets) {
			rules = directedSets[si]
		} else {
			rules = genRuleSet(c, 3)
		}
		trie, outs := env.buildImplTrie(rules)
		line := rulesLine(rules)
		c.Correspond("addrules", join("addrules", line), strings.Join(outs, " "), true)
		for _, o := range outs {
			c.Class("addrule:" + strings.SplitN(o, ":", 2)[0] + map[bool]string{true: ":" + strings.TrimPrefix(o, "err:"), false: ""}[strings.HasPrefix(o, "err:")])
			if o == "panic" {
				c.SpecFail("addrules", line, "panic", "ok or error", prop+"/addrule-panic", "registering a rule panics")
			}
		}
		acc := acceptedBindings(rules, outs)
		// alternative registration orders
		var alt []struct {
			rules []rrule
			outs  []string
			trie  interface {
				Fingerprint() string
			}
		}
		_ = alt
		perm := c.Rng.Perm(len(rules))
		shuffled := make([]rrule, len(rules))
		for i, p := range perm {
			shuffled[i] = rules[p]
		}
		trie2, outs2 := env.buildImplTrie(shuffled)
		allOK := true
		for _, o := range append(append([]string{}, outs...), outs2...) {
			allOK = allOK && o == "ok"
		}
		sameAccept := true
		for i, p := range perm {
			sameAccept = sameAccept && (outs2[i] == "ok") == (outs[p] == "ok")
		}
		ambiguous := ambiguousSameMethod(rules)
		if prop == "C02" && allOK && trie.Fingerprint() != trie2.Fingerprint() {
			key := "C02/order/trie-differs"
			if len(ambiguous) > 0 {
				key = "C02/order/same-method-same-pattern-other-binding"
			}
			c.SpecFail("order", line, trie2.Fingerprint(), trie.Fingerprint(), key, "the routing table depends on registration order")
		}
		if prop == "C02" && !sameAccept {
			// acceptance may legitimately depend on order only through duplicate-rule conflicts
			dupOnly := true
			for _, o := range append(append([]string{}, outs...), outs2...) {
				dupOnly = dupOnly && (o == "ok" || o == "err:duplicate-rule")
			}
			if !dupOnly {
				c.SpecFail("order", line, strings.Join(outs2, " "), strings.Join(outs, " "), "C02/order/acceptance-differs", "whether a rule is accepted depends on registration order")
			}
		}

		verbs := []string{"GET", "POST", "PUT", "DELETE", "PATCH", "LOCK", "WEBSOCKET"}
		paths := genPaths(c, rules, c.N(8, 12))
		if si < len(directedSets) {
			paths = append(paths, directedPaths[si]...)
		}
		// verbs no rule of the set names, on the first paths of every set: HEAD is not GET, OPTIONS nothing
		npaths := len(paths)
		for k := 0; k < 2 && k < npaths; k++ {
			paths = append(paths, paths[k])
		}
		for pi, path := range paths {
			verb := ""
			if pi >= npaths {
				verb = []string{"HEAD", "OPTIONS"}[pi-npaths]
			} else {
				verb = verbs[c.Rng.Intn(len(verbs))]
				if len(acc) > 0 && c.Rng.Intn(3) > 0 {
					verb = strings.ToUpper(acc[c.Rng.Intn(len(acc))].b.kind)
					if verb == "*" {
						verb = verbs[c.Rng.Intn(len(verbs))]
					}
				}
			}
			if strings.ContainsAny(path, "\t\n\r") {
				continue
			}
			res := implRoute(trie, verb, path)
			model := normModelRoute(c.Drv.Ask(join("route", line, hexS(verb), runesOf(path))))
			c.count("route", line+" "+verb+" "+path, res.class != "not-found")
			c.res.Corresponded++
			c.Class("route:" + res.class)
			if model != res.line {
				c.res.NDisagree++
				if len(c.res.Disagree) < 25 {
					c.res.Disagree = append(c.res.Disagree, Case{Kind: "route", Input: fmt.Sprintf("rules=%s verb=%s path=%q", describeRules(rules, outs), verb, path), Impl: res.line, Model: model})
				}
			}
			in := fmt.Sprintf("rules=%s verb=%s path=%q", describeRules(rules, outs), verb, path)
			if res.class == "panic" {
				c.SpecFail("route", in, "panic", "a result", prop+"/route-panic", "routing a request panics")
				continue
			}
			// ---- C01 soundness
			if prop == "C01" && res.class == "found" {
				ok := false
				for _, ab := range acc {
					if ab.method != res.method || !kindMatches(ab.b.kind, verb) {
						continue
					}
					for _, b := range matchTemplate(ab.b.t, path, false) {
						same := true
						// fields bound by the template (wildcards bind nothing)
						want := map[int]string{}
						for f, v := range b {
							want[routeFields[f].id] = normCap(f, v)
						}
						got := map[int]string{}
						for f, v := range res.caps {
							got[routeFields[f].id] = v
						}
						same = fmt.Sprint(want) == fmt.Sprint(got)
						ok = ok || same
					}
				}
				if !ok {
					key := "C01/unsound/no-rule-of-method-matches"
					if strings.Contains(path[1:], ":") {
						key = "C01/unsound/colon-path"
					}
					c.SpecFail("route", in, res.line, "a rule of that method covering verb and path with these bindings", key, "request dispatched to a method none of whose rules covers it (or with other bindings)")
				}
			}
			// ---- C02 completeness, precedence, order independence
			if prop == "C02" {
				if allOK {
					res2 := implRoute(trie2, verb, path)
					if res2.class != res.class || res2.method != res.method || fmt.Sprint(res2.caps) != fmt.Sprint(res.caps) {
						key := "C02/order/route-differs"
						if (ambiguous[res.method] || res.class != "found") && (ambiguous[res2.method] || res2.class != "found") && (res.class == "found" || res2.class == "found") {
							key = "C02/order/same-method-same-pattern-other-binding"
						}
						c.SpecFail("route", in, res2.line, res.line, key, "the outcome depends on registration order")
					}
				}
				if tokenCount(path) <= 64 {
					type cand struct {
						ab acceptedBinding
						b  binding
					}
					var strictC []cand
					allConv := true
					for _, ab := range acc {
						if !kindMatches(ab.b.kind, verb) {
							continue
						}
						for _, b := range matchTemplate(ab.b.t, path, false) {
							for f, v := range b {
								allConv = allConv && convertible(f, v)
							}
						}
						if bs := matchTemplate(ab.b.t, path, true); len(bs) > 0 {
							strictC = append(strictC, cand{ab, bs[0]})
						}
					}
					if len(strictC) > 0 && allConv {
						if res.class != "found" {
							c.SpecFail("route", in, res.line, fmt.Sprintf("dispatch (e.g. %s %s)", strictC[0].ab.b.kind, strictC[0].ab.b.t), "C02/incomplete/"+res.class, "a registered rule matches verb and path but the request is not dispatched")
						} else {
							owns := false
							for _, ab := range acc {
								if ab.method == res.method && kindMatches(ab.b.kind, verb) && len(matchTemplate(ab.b.t, path, false)) > 0 {
									owns = true
								}
							}
							if !owns {
								c.SpecFail("route", in, res.line, "a method owning a matching rule", "C02/incomplete/wrong-owner", "dispatched to a method that owns no matching rule")
							}
							// literal over wildcard
							for _, lc := range strictC {
								if lc.ab.method == res.method {
									continue
								}
								beatsAll := true
								for _, oc := range strictC {
									if oc.ab.method != res.method {
										continue
									}
									if !literalBeats(lc.ab.b.t, oc.ab.b.t) {
										beatsAll = false
									}
								}
								if beatsAll {
									c.SpecFail("route", in, res.line, fmt.Sprintf("method M%d (%s spells the segment literally)", lc.ab.method, lc.ab.b.t), "C02/precedence/literal-loses", "a template spelling the segment literally loses to a wildcard / variable")
									break
								}
							}
						}
					}
				}
			}
		}
	}
	runLexerCases(c, prop)
	if prop == "C02" { // the registered set after a deletion: rules of the methods that stay keep matching
		trieDel(c, "C02")
	}
}

// literalBeats: a and b are identical up to some top-level segment and a then has a literal
// where b has a wildcard or variable.
func literalBeats(a, b ttmpl) bool {
	for i := 0; i < len(a.segs) && i < len(b.segs); i++ {
		sa, sb := a.segs[i], b.segs[i]
		if sa.kind == sLit && sb.kind == sLit && sa.lit == sb.lit {
			continue
		}
		return sa.kind == sLit && sb.kind != sLit
	}
	return false
}

func describeRules(rules []rrule, outs []string) string {
	var parts []string
	for i, r := range rules {
		s := fmt.Sprintf("M%d:%s %s", r.method, r.primary.kind, r.primary.tmplString())
		for _, a := range r.additional {
			s += fmt.Sprintf(" +%s %s", a.kind, a.tmplString())
		}
		if i < len(outs) && outs[i] != "ok" {
			s += " [" + outs[i] + "]"
		}
		parts = append(parts, s)
	}
	return "{" + strings.Join(parts, " | ") + "}"
}

// runLexerCases corresponds both lexers on grammar-derived templates, their single-edit
// mutations, paths and junk.
func runLexerCases(c *Ctx, prop string) {
	alphabet := []string{"/", "a", "b", "*", "**", "{", "}", "=", ".", ":", "x", "-", "_", "1", "é", " ", "~", "%", ",", "{a}", "{a=*}", "{a.b=c/**}", "v1"}
	for i := 0; i < c.N(1500, 30000); i++ {
		var s string
		switch c.Rng.Intn(4) {
		case 0, 1:
			s = genTmpl(c).String()
			if c.Rng.Intn(2) == 0 && len(s) > 0 { // single edit
				pos := c.Rng.Intn(len(s) + 1)
				switch c.Rng.Intn(3) {
				case 0:
					s = s[:pos] + alphabet[c.Rng.Intn(len(alphabet))] + s[pos:]
				case 1:
					if pos < len(s) {
						s = s[:pos] + s[pos+1:]
					}
				default:
					if pos < len(s) {
						s = s[:pos] + alphabet[c.Rng.Intn(len(alphabet))] + s[pos+1:]
					}
				}
			}
		case 2:
			var sb strings.Builder
			for j, k := 0, c.Rng.Intn(10); j < k; j++ {
				sb.WriteString(alphabet[c.Rng.Intn(len(alphabet))])
			}
			s = sb.String()
		default:
			s = "/" + strings.Repeat([]string{"a/", "{a}/", "*/", "a.b/"}[c.Rng.Intn(4)], 10+c.Rng.Intn(30)) + "z"
		}
		if strings.ContainsAny(s, "\t\n\r") {
			continue
		}
		c.Correspond("lextmpl", join("lextmpl", runesOf(s)), implLex(larkingLexTemplate, s), s != "")
		c.Correspond("lexpath", join("lexpath", runesOf(s)), implLex(larkingLexPath, s), s != "")
	}
}

// c01API: what the property observes — the method and the request message recorded by
// handlers behind Mux.ServeHTTP, for typed path variables of every scalar kind.
// c01Drift: one method served by a local handler and by a RegisterConn backend whose request
// message has drifted (two string fields swapped their numbers). Whichever handler serves a
// request, the field the template names holds the path text and no other field is set — or the
// request is refused.
func c01Drift(c *Ctx) {
	type seen struct{ name, other string }
	var got *seen
	specs := func(tag string) []*MethodSpec {
		return []*MethodSpec{{Name: "DS", In: "Req", Out: "Reply", Rule: getRule("/api1d/s/{name}/o"),
			Unary: func(ctx context.Context, in *dynamicpb.Message) (proto.Message, error) {
				f := in.Descriptor().Fields()
				got = &seen{in.Get(f.ByName("name")).String(), in.Get(f.ByName("other_name")).String()}
				return dynamicpb.NewMessage(in.Descriptor().ParentFile().Messages().ByName("Reply")), nil
			}}}
	}
	fxDriftSwap = [2]string{"name", "other_name"}
	fixtureDeferRegistration = true
	backFx, err := NewFixture(specs("back"), nil)
	fixtureDeferRegistration = false
	fxDriftSwap = [2]string{}
	if err != nil {
		c.SpecFail("fixture", "c01 drift backend", err.Error(), "", "C01/fixture", "fixture")
		return
	}
	gs := grpc.NewServer()
	for _, sd := range backFx.ServiceDescs() {
		gs.RegisterService(sd, nil)
	}
	rpb.RegisterServerReflectionServer(gs, reflection.NewServer(reflection.ServerOptions{Services: gs, DescriptorResolver: backFx.Files}))
	blis, err := net.Listen("tcp", "127.0.0.1:0")
	if err != nil {
		c.Note("c01 drift: no listener: " + err.Error())
		return
	}
	go gs.Serve(blis) //nolint
	defer gs.Stop()
	bcc, _ := grpc.NewClient(blis.Addr().String(), grpcInsecure())
	defer bcc.Close()
	fx, err := NewFixture(specs("local"), nil)
	if err != nil || fx.RegErr != nil || fx.RegPanic != nil {
		c.SpecFail("fixture", "c01 drift", fmt.Sprint(err, fx.RegErr, fx.RegPanic), "", "C01/fixture", "fixture")
		return
	}
	defer fx.Close()
	ctx, cancel := context.WithTimeout(context.Background(), 5*time.Second)
	err = fx.Mux.RegisterConn(ctx, bcc)
	cancel()
	if err != nil {
		c.Note("c01 drift: RegisterConn of the drifted backend refused (" + err.Error() + "): nothing to check")
		return
	}
	for i := 0; i < c.N(40, 300); i++ {
		v := fmt.Sprintf("val-%d", i)
		got = nil
		rec, pn := fx.Serve(httptest.NewRequest("GET", "/api1d/s/"+v+"/o", nil))
		in := "GET /api1d/s/" + v + "/o with a second backend whose Req has name/other_name on swapped numbers"
		c.Eval("api-drift", in, i < 3)
		switch {
		case pn != nil:
			c.SpecFail("api-drift", in, fmt.Sprint("panic: ", pn), "served or refused", "C01/api/panic", "panic")
		case got != nil && (got.name != v || got.other != ""):
			c.SpecFail("api-drift", in, fmt.Sprintf("%d handler saw name=%q other_name=%q", rec.Code, got.name, got.other), fmt.Sprintf("name=%q other_name=\"\" (or a refusal)", v), "C01/api/drift/other-field-set", "routing set a field the template's variable does not name")
		}
	}
}

func c01API(c *Ctx, prop string) {
	if prop == "C01" {
		c01Drift(c)
	}
	type rec struct {
		method string
		msg    *dynamicpb.Message
	}
	var got *rec
	rules := []struct {
		name string
		rule *annotations.HttpRule
	}{
		{"S", getRule("/api1/s/{name}")}, {"I", getRule("/api1/i/{i32}")}, {"U", getRule("/api1/u/{u64}")},
		{"F", getRule("/api1/f/{flag}")}, {"K", getRule("/api1/k/{kind}")}, {"D", getRule("/api1/d/{data}")},
		{"X", getRule("/api1/x/{db}")}, {"N", getRule("/api1/n/{nested.s}/n/{nested.n}")},
		{"M", getRule("/api1/m/{name=shelves/*/books/*}/tail")}, {"V", getRule("/api1/v/{other_name=**}:go")},
		{"W", getRule("/api1/w/{i64}/{s32}/{f32}")},
		// the same prefix under two verbs: the shorter template only for GET, the longer only for PATCH
		{"G", getRule("/api1/p/{name=shelves/*}")},
		{"P", &annotations.HttpRule{Pattern: &annotations.HttpRule_Patch{Patch: "/api1/p/{name=shelves/*/books/*}"}, Body: "nested"}},
	}
	var ms []*MethodSpec
	// a streaming method declared BEFORE the unary ones (descriptor order differs from the ServiceDesc's lists)
	ms = append(ms, &MethodSpec{Name: "AStream", In: "Req", Out: "Reply", ServerStream: true, Rule: getRule("/api1/stream/{name}"),
		Stream: func(fx *Fixture, msp *MethodSpec, st grpc.ServerStream) error {
			in := fx.NewMsg("Req")
			if err := st.RecvMsg(in); err != nil {
				return err
			}
			got = &rec{"AStream", in}
			return nil
		}})
	// two variable patterns of one shape that differ only in a literal
	rules = append(rules, struct {
		name string
		rule *annotations.HttpRule
	}{"Bk", getRule("/api1/r/{name=books/*}")}, struct {
		name string
		rule *annotations.HttpRule
	}{"Sh", getRule("/api1/r/{name=shelves/*}")})
	// a two-variable rule; the rejected service below tries to put a literal next to its second variable
	rules = append(rules, struct {
		name string
		rule *annotations.HttpRule
	}{"Q", getRule("/api1/q/{name}/{other_name}")})
	// a WebSocket rule without a body: its request message is built from the URL alone
	ms = append(ms, &MethodSpec{Name: "AWs", In: "Req", Out: "Reply", ClientStream: true, ServerStream: true, Rule: customRule("WEBSOCKET", "/api1/ws/{name=rooms/*}", ""),
		Stream: func(fx *Fixture, msp *MethodSpec, st grpc.ServerStream) error {
			in := fx.NewMsg("Req")
			if err := st.RecvMsg(in); err != nil {
				return err
			}
			got = &rec{"AWs", in}
			return st.SendMsg(fx.NewMsg("Reply"))
		}})
	for _, r := range rules {
		r := r
		ms = append(ms, &MethodSpec{Name: "A" + r.name, In: "Req", Out: "Reply", Rule: r.rule,
			Unary: func(ctx context.Context, in *dynamicpb.Message) (proto.Message, error) {
				got = &rec{"A" + r.name, in}
				return dynamicpb.NewMessage(in.Descriptor().ParentFile().Messages().ByName("Reply")), nil
			}})
	}
	// a service whose registration fails at its second method, after its first rule went below an
	// existing variable node: none of its rules may ever dispatch
	failH := func(ctx context.Context, in *dynamicpb.Message) (proto.Message, error) {
		got = &rec{"Rejected", in}
		return dynamicpb.NewMessage(in.Descriptor().ParentFile().Messages().ByName("Reply")), nil
	}
	ms = append(ms, &MethodSpec{Service: "Rejected", Name: "R0", In: "Req", Out: "Reply", Unary: failH, Rule: getRule("/api1/q/{name}/special")},
		&MethodSpec{Service: "Rejected", Name: "R1", In: "Req", Out: "Reply", Unary: failH, Rule: getRule("/api1/s/{name}/extra")},
		&MethodSpec{Service: "Rejected", Name: "R2", In: "Req", Out: "Reply", Unary: failH, Rule: getRule("/api1/rejected/{no_such_field}")})
	fixtureDeferRegistration = true
	fx, err := NewFixture(ms, nil)
	fixtureDeferRegistration = false
	if err == nil {
		fx.RegErr, fx.RegPanic = fx.RegisterOne("Svc")
	}
	if err != nil || fx.RegErr != nil || fx.RegPanic != nil {
		c.SpecFail("fixture", "c01 api", fmt.Sprint(err, fx.RegErr, fx.RegPanic), "", prop+"/fixture", "fixture")
		return
	}
	if rerr, rpn := fx.RegisterOne("Rejected"); rerr == nil || rpn != nil {
		c.SpecFail("fixture", "c01 api: service Rejected (unknown field in its second rule)", fmt.Sprint(rerr, rpn), "an error", prop+"/api/invalid-service-accepted", "a service with an unresolvable rule is registered")
	} else if prop == "C01" {
		// the routing state the mux serves from knows none of the rejected service's rules
		for _, pth := range []string{"/api1/s/x/extra", "/api1/s/y/extra", "/api1/rejected/1"} {
			m, _, merr := fx.Mux.VerifSnapshot().Match(pth, "GET")
			c.Eval("api-rejected-route", pth, true)
			if merr == nil && m != nil {
				c.SpecFail("api-rejected-route", "GET "+pth+" after the registration of service Rejected failed", "the published routing state resolves it", "no route", "C01/api/route-of-a-rejected-rule", "a rule of a registration that was rejected is part of the routing state: requests can be dispatched through a rule no accepted rule set contains")
			}
		}
	}
	set := func(m *dynamicpb.Message, path string, v protoreflect.Value) {
		cur := protoreflect.Message(m)
		parts := strings.Split(path, ".")
		for i, p := range parts {
			fd := cur.Descriptor().Fields().ByName(protoreflect.Name(p))
			if i == len(parts)-1 {
				cur.Set(fd, v)
			} else {
				cur = cur.Mutable(fd).Message()
			}
		}
	}
	type tcase struct {
		path   string
		method string
		build  func(m *dynamicpb.Message)
	}
	var cases []tcase
	for _, s := range []string{"x", "hello", "a.b-c_d~e", "é日本", "0", "null", "true", "(a)!$'*,;@=+", ".", "..", "...", ".x"} {
		s := s
		// next to the literal only the rejected service tried to register
		cases = append(cases, tcase{"/api1/q/" + s + "/special", "AQ", func(m *dynamicpb.Message) {
			set(m, "name", protoreflect.ValueOfString(s))
			set(m, "other_name", protoreflect.ValueOfString("special"))
		}})
		cases = append(cases, tcase{"/api1/s/" + s, "AS", func(m *dynamicpb.Message) { set(m, "name", protoreflect.ValueOfString(s)) }})
		cases = append(cases, tcase{"/api1/m/shelves/" + s + "/books/b1/tail", "AM", func(m *dynamicpb.Message) { set(m, "name", protoreflect.ValueOfString("shelves/"+s+"/books/b1")) }})
		cases = append(cases, tcase{"/api1/v/" + s + "/deep/" + s + ":go", "AV", func(m *dynamicpb.Message) { set(m, "other_name", protoreflect.ValueOfString(s+"/deep/"+s)) }})
	}
	for _, s := range []string{"x", "shelves", "books"} {
		s := s
		cases = append(cases, tcase{"/api1/stream/" + s, "AStream", func(m *dynamicpb.Message) { set(m, "name", protoreflect.ValueOfString(s)) }})
		cases = append(cases, tcase{"/api1/r/books/" + s, "ABk", func(m *dynamicpb.Message) { set(m, "name", protoreflect.ValueOfString("books/"+s)) }})
		cases = append(cases, tcase{"/api1/r/shelves/" + s, "ASh", func(m *dynamicpb.Message) { set(m, "name", protoreflect.ValueOfString("shelves/"+s)) }})
	}
	for _, n := range []int64{0, 1, -1, 42, 2147483647, -2147483648} {
		n := n
		cases = append(cases, tcase{fmt.Sprintf("/api1/i/%d", n), "AI", func(m *dynamicpb.Message) { set(m, "i32", protoreflect.ValueOfInt32(int32(n))) }})
		cases = append(cases, tcase{fmt.Sprintf("/api1/n/ns/n/%d", n), "AN", func(m *dynamicpb.Message) {
			set(m, "nested.s", protoreflect.ValueOfString("ns"))
			set(m, "nested.n", protoreflect.ValueOfInt32(int32(n)))
		}})
	}
	for _, n := range []uint64{0, 1, 4294967296, 18446744073709551615} {
		n := n
		cases = append(cases, tcase{fmt.Sprintf("/api1/u/%d", n), "AU", func(m *dynamicpb.Message) { set(m, "u64", protoreflect.ValueOfUint64(n)) }})
	}
	cases = append(cases, tcase{"/api1/w/-9223372036854775808/-7/4294967295", "AW", func(m *dynamicpb.Message) {
		set(m, "i64", protoreflect.ValueOfInt64(-9223372036854775808))
		set(m, "s32", protoreflect.ValueOfInt32(-7))
		set(m, "f32", protoreflect.ValueOfUint32(4294967295))
	}})
	for _, b := range []bool{true, false} {
		b := b
		cases = append(cases, tcase{fmt.Sprintf("/api1/f/%v", b), "AF", func(m *dynamicpb.Message) { set(m, "flag", protoreflect.ValueOfBool(b)) }})
	}
	for _, k := range []struct {
		text string
		n    protoreflect.EnumNumber
	}{{"ALPHA", 1}, {"BETA", 2}, {"NEG", -3}, {"KIND_UNSPECIFIED", 0}, {"2", 2}, {"-3", -3}} {
		k := k
		cases = append(cases, tcase{"/api1/k/" + k.text, "AK", func(m *dynamicpb.Message) { set(m, "kind", protoreflect.ValueOfEnum(k.n)) }})
	}
	for _, d := range []float64{0, 1.5, -2.25, 1e300} {
		d := d
		cases = append(cases, tcase{"/api1/x/" + strconv.FormatFloat(d, 'g', -1, 64), "AX", func(m *dynamicpb.Message) { set(m, "db", protoreflect.ValueOfFloat64(d)) }})
	}
	for n := 0; n < 8; n++ {
		b := make([]byte, n)
		for i := range b {
			b[i] = byte(0xf8 + (i*37+n)%8) // bytes that need '+' '/' or '-' '_'
		}
		if n%2 == 0 {
			c.Rng.Read(b)
		}
		for _, e := range []*base64.Encoding{base64.StdEncoding, base64.RawStdEncoding, base64.URLEncoding, base64.RawURLEncoding} {
			text := e.EncodeToString(b)
			if strings.ContainsAny(text, "/+") || text == "" {
				continue // not a single clean path segment
			}
			b := append([]byte(nil), b...)
			cases = append(cases, tcase{"/api1/d/" + text, "AD", func(m *dynamicpb.Message) { set(m, "data", protoreflect.ValueOfBytes(b)) }})
		}
	}
	// the bound field holds the PATH text even when the query names the same field
	for _, tc := range append([]tcase(nil), cases...) {
		switch tc.method {
		case "AS", "AM":
			cases = append(cases, tcase{tc.path + "?name=rival", tc.method, tc.build})
		case "AI":
			cases = append(cases, tcase{tc.path + "?i32=555", tc.method, tc.build})
		case "AD":
			cases = append(cases, tcase{tc.path + "?data=QUJD", tc.method, tc.build})
		}
	}
	for i, tc := range cases {
		got = nil
		req := httptest.NewRequest("GET", tc.path, nil)
		if i%3 == 1 { // what `curl --http2` attaches to a cleartext request: an upgrade offer that is not a WebSocket handshake
			req.Header.Set("Connection", "Upgrade, HTTP2-Settings")
			req.Header.Set("Upgrade", "h2c")
			req.Header.Set("HTTP2-Settings", "AAMAAABkAARAAAAAAAIAAAAA")
			tc.path += " (with an h2c upgrade offer)"
		}
		rec, pn := fx.Serve(req)
		c.Eval("api-bind", tc.path, true)
		c.Class("api:" + tc.method)
		want := fx.NewMsg("Req")
		tc.build(want)
		switch {
		case pn != nil:
			c.SpecFail("api-bind", "GET "+tc.path, fmt.Sprint("panic: ", pn), prototextS(want), prop+"/api/panic", "panic")
		case rec.Code != 200 || got == nil:
			c.SpecFail("api-bind", "GET "+tc.path, fmt.Sprintf("%d %s", rec.Code, truncS(rec.Body.String(), 120)), "dispatched to "+tc.method, prop+"/api/not-dispatched/"+tc.method, "a path instantiated from the method's template is not dispatched to it")
		case got.method != tc.method:
			c.SpecFail("api-bind", "GET "+tc.path, "dispatched to "+got.method, tc.method, prop+"/api/wrong-method", "dispatched to a method whose rules do not match")
		case !proto.Equal(got.msg, want):
			c.SpecFail("api-bind", "GET "+tc.path, prototextS(got.msg), prototextS(want), prop+"/api/fields/"+tc.method, "the bound fields do not hold exactly the path text converted to their type (or another field was set)")
		}
	}
	// the WebSocket rule without a body: the handler's request holds the path text and the query
	for _, room := range []string{"main", "a.b", "é"} {
		got = nil
		url := "ws" + strings.TrimPrefix(fx.HTTPServer().URL, "http") + "/api1/ws/rooms/" + room + "?other_name=o"
		ctx, cancel := context.WithTimeout(context.Background(), 3*time.Second)
		conn, br, _, err := gws.Dial(ctx, url)
		cancel()
		in := "websocket /api1/ws/rooms/" + room + "?other_name=o (rule without a body)"
		c.Eval("api-bind-ws", in, true)
		c.Class("api:AWs")
		if err != nil {
			c.SpecFail("api-bind-ws", in, err.Error(), "dispatched to AWs", prop+"/api/not-dispatched/AWs", "a WebSocket handshake on a path instantiated from the rule's template is refused")
			continue
		}
		conn.SetDeadline(time.Now().Add(2 * time.Second)) //nolint
		var rw io.ReadWriter = conn
		if br != nil {
			rw = struct {
				io.Reader
				io.Writer
			}{br, conn}
		}
		wsutil.ReadServerData(rw) //nolint
		conn.Close()
		want := fx.NewMsg("Req")
		set(want, "name", protoreflect.ValueOfString("rooms/"+room))
		set(want, "other_name", protoreflect.ValueOfString("o"))
		for k := 0; k < 100 && got == nil; k++ {
			time.Sleep(2 * time.Millisecond)
		}
		switch {
		case got == nil:
			c.SpecFail("api-bind-ws", in, "no dispatch", "dispatched to AWs", prop+"/api/not-dispatched/AWs", "a WebSocket handshake on a path instantiated from the rule's template is not dispatched")
		case got.method != "AWs":
			c.SpecFail("api-bind-ws", in, "dispatched to "+got.method, "AWs", prop+"/api/wrong-method", "dispatched to a method whose rules do not match")
		case !proto.Equal(got.msg, want):
			c.SpecFail("api-bind-ws", in, prototextS(got.msg), prototextS(want), prop+"/api/fields/AWs", "over WebSocket the bound field does not hold the path text the variable covers")
		}
	}
	if prop != "C01" {
		return // the near misses are about soundness
	}
	// near misses must not reach any handler
	type miss struct{ verb, path string }
	var misses []miss
	for _, p := range []string{"/api1/s", "/api1/s/", "/api1/s/a/b", "/api1/i/x", "/api1/i/1.5", "/api1/i/2147483648", "/api1/u/-1", "/api1/f/yes", "/api1/k/NOPE",
		"/api1/d/!!!", "/api1/m/shelves/s/books", "/api1/m/shelves/s/books/b/tail/x", "/api1/v/a/b", "/api1/v/a:stop", "/api1/s:x", "/api1:s/x", "/api1/n/ns/n", "/api1/w/1/2",
		"/api1/p/shelves", "/api1/p/shelves/s1/books", "/api1/p/shelves/s1/books/b1", "/api1/p/shelves/s1/books/b1/x"} {
		misses = append(misses, miss{"GET", p})
	}
	misses = append(misses, miss{"GET", "/api1/s/x/extra"}, miss{"GET", "/api1/rejected/1"}, miss{"GET", "/api1/r/rooms/1"}, miss{"GET", "/api1/r/books"})
	// HTTP method tokens are case-sensitive: no rule carries "get" or "Get"
	for _, v := range []string{"get", "Get", "gET"} {
		misses = append(misses, miss{v, "/api1/s/x"}, miss{v, "/api1/i/7"}, miss{v, "/api1/r/books/1"})
	}
	// a path that ends inside the longer template's variable pattern, under the verb only that template carries
	for _, p := range []string{"/api1/p/shelves/s1", "/api1/p/shelves", "/api1/p/shelves/s1/books", "/api1/p/shelves/s1/books/b1/x", "/api1/p/shelves/s1/books/"} {
		misses = append(misses, miss{"PATCH", p})
	}
	// structural near misses of every dispatched path: empty segments at the end and inside, a segment cut off
	for _, tc := range cases {
		if strings.Contains(tc.path, "?") {
			continue
		}
		misses = append(misses, miss{"GET", tc.path + "//"}, miss{"GET", tc.path + "///"})
		if i := strings.LastIndex(tc.path, "/"); i > len("/api1/") && tc.method != "AV" {
			misses = append(misses, miss{"GET", tc.path[:i] + "/" + tc.path[i:]}) // "//" before the last segment
		}
		misses = append(misses, miss{"GET", "/api1/" + tc.path[len("/api1"):]}) // "//" after the first segment
		// every segment in turn replaced by the empty segment (a trailing "/" is dropped by the front: add one more)
		segs := strings.Split(strings.TrimPrefix(tc.path, "/"), "/")
		for k := 1; k < len(segs); k++ {
			cp := append([]string(nil), segs...)
			cp[k] = ""
			if v := strings.LastIndex(segs[k], ":"); v >= 0 {
				cp[k] = segs[k][v:] // keep the verb: "/:go"
			}
			p := "/" + strings.Join(cp, "/")
			if k == len(segs)-1 && cp[k] == "" {
				p += "/"
			}
			misses = append(misses, miss{"GET", p})
		}
	}
	for _, ms := range misses {
		p := ms.path
		got = nil
		rec, pn := fx.Serve(httptest.NewRequest(ms.verb, p, strings.NewReader("{}")))
		p = ms.verb + " " + p
		c.Eval("api-near-miss", p, true)
		c.Class("api:near-miss")
		if pn != nil {
			c.SpecFail("api-near-miss", p, fmt.Sprint("panic: ", pn), "no dispatch", prop+"/api/panic", "panic")
		} else if got != nil || rec.Code == 200 {
			m := "?"
			if got != nil {
				m = got.method + " " + prototextS(got.msg)
			}
			c.SpecFail("api-near-miss", p, "dispatched: "+m, "no dispatch (4xx)", prop+"/api/near-miss-dispatched", "a path no template matches (or whose capture does not convert) reached a handler")
		}
	}
}
