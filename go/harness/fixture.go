package main

// Dynamic fixtures: services, rules and message schemas are built in code
// (descriptorpb + protodesc), registered in a private protoregistry and served
// by a real larking.Mux through handlers that work on dynamicpb messages.

import (
	"context"
	"fmt"
	"io"
	"log"
	"net"
	"net/http"
	"net/http/httptest"
	"strings"
	"sync"
	"time"

	"google.golang.org/genproto/googleapis/api/annotations"
	"google.golang.org/genproto/googleapis/api/httpbody"
	"google.golang.org/genproto/googleapis/api/serviceconfig"
	"google.golang.org/grpc"
	"google.golang.org/grpc/credentials/insecure"
	"google.golang.org/protobuf/proto"
	"google.golang.org/protobuf/reflect/protodesc"
	"google.golang.org/protobuf/reflect/protoreflect"
	"google.golang.org/protobuf/reflect/protoregistry"
	"google.golang.org/protobuf/types/descriptorpb"
	"google.golang.org/protobuf/types/dynamicpb"
	"google.golang.org/protobuf/types/known/anypb"
	"google.golang.org/protobuf/types/known/durationpb"
	"google.golang.org/protobuf/types/known/emptypb"
	"google.golang.org/protobuf/types/known/fieldmaskpb"
	"google.golang.org/protobuf/types/known/structpb"
	"google.golang.org/protobuf/types/known/timestamppb"
	"google.golang.org/protobuf/types/known/wrapperspb"
	"larking.io/larking"
)

const fxPkg = "verif.v1"

type FT = descriptorpb.FieldDescriptorProto_Type

func fld(name string, num int32, typ FT, typeName string, repeated bool) *descriptorpb.FieldDescriptorProto {
	f := &descriptorpb.FieldDescriptorProto{
		Name:   proto.String(name),
		Number: proto.Int32(num),
		Type:   typ.Enum(),
		Label:  descriptorpb.FieldDescriptorProto_LABEL_OPTIONAL.Enum(),
	}
	if repeated {
		f.Label = descriptorpb.FieldDescriptorProto_LABEL_REPEATED.Enum()
	}
	if typeName != "" {
		f.TypeName = proto.String(typeName)
	}
	return f
}

const (
	tDouble   = descriptorpb.FieldDescriptorProto_TYPE_DOUBLE
	tFloat    = descriptorpb.FieldDescriptorProto_TYPE_FLOAT
	tInt64    = descriptorpb.FieldDescriptorProto_TYPE_INT64
	tUint64   = descriptorpb.FieldDescriptorProto_TYPE_UINT64
	tInt32    = descriptorpb.FieldDescriptorProto_TYPE_INT32
	tFixed64  = descriptorpb.FieldDescriptorProto_TYPE_FIXED64
	tFixed32  = descriptorpb.FieldDescriptorProto_TYPE_FIXED32
	tBool     = descriptorpb.FieldDescriptorProto_TYPE_BOOL
	tString   = descriptorpb.FieldDescriptorProto_TYPE_STRING
	tMessage  = descriptorpb.FieldDescriptorProto_TYPE_MESSAGE
	tBytes    = descriptorpb.FieldDescriptorProto_TYPE_BYTES
	tUint32   = descriptorpb.FieldDescriptorProto_TYPE_UINT32
	tEnum     = descriptorpb.FieldDescriptorProto_TYPE_ENUM
	tSfixed32 = descriptorpb.FieldDescriptorProto_TYPE_SFIXED32
	tSfixed64 = descriptorpb.FieldDescriptorProto_TYPE_SFIXED64
	tSint32   = descriptorpb.FieldDescriptorProto_TYPE_SINT32
	tSint64   = descriptorpb.FieldDescriptorProto_TYPE_SINT64
)

// fxMessages is the fixed message schema shared by all fixtures: every scalar
// kind, enum, bytes, repeated, map, nested (recursive), oneof, wrappers and
// well-known types, plus google.api.HttpBody fields.
func fxMessages() ([]*descriptorpb.DescriptorProto, []*descriptorpb.EnumDescriptorProto) {
	p := "." + fxPkg + "."
	nested := &descriptorpb.DescriptorProto{
		Name: proto.String("Nested"),
		Field: []*descriptorpb.FieldDescriptorProto{
			fld("s", 1, tString, "", false),
			fld("n", 2, tInt32, "", false),
			fld("child", 3, tMessage, p+"Nested", false),
			fld("tags", 4, tString, "", true),
			fld("kind", 5, tEnum, p+"Kind", false),
			fld("data", 6, tBytes, "", false),
		},
	}
	mapEntry := &descriptorpb.DescriptorProto{
		Name: proto.String("MEntry"),
		Field: []*descriptorpb.FieldDescriptorProto{
			fld("key", 1, tString, "", false),
			fld("value", 2, tString, "", false),
		},
		Options: &descriptorpb.MessageOptions{MapEntry: proto.Bool(true)},
	}
	nmapEntry := &descriptorpb.DescriptorProto{
		Name: proto.String("NmEntry"),
		Field: []*descriptorpb.FieldDescriptorProto{
			fld("key", 1, tString, "", false),
			fld("value", 2, tMessage, p+"Nested", false),
		},
		Options: &descriptorpb.MessageOptions{MapEntry: proto.Bool(true)},
	}
	oa := fld("oa", 26, tString, "", false)
	oa.OneofIndex = proto.Int32(0)
	ob := fld("ob", 27, tInt32, "", false)
	ob.OneofIndex = proto.Int32(0)
	req := &descriptorpb.DescriptorProto{
		Name: proto.String("Req"),
		Field: []*descriptorpb.FieldDescriptorProto{
			fld("name", 1, tString, "", false),
			fld("i32", 2, tInt32, "", false),
			fld("i64", 3, tInt64, "", false),
			fld("u32", 4, tUint32, "", false),
			fld("u64", 5, tUint64, "", false),
			fld("s32", 6, tSint32, "", false),
			fld("s64", 7, tSint64, "", false),
			fld("f32", 8, tFixed32, "", false),
			fld("f64", 9, tFixed64, "", false),
			fld("sf32", 10, tSfixed32, "", false),
			fld("sf64", 11, tSfixed64, "", false),
			fld("flag", 12, tBool, "", false),
			fld("data", 13, tBytes, "", false),
			fld("fl", 14, tFloat, "", false),
			fld("db", 15, tDouble, "", false),
			fld("kind", 16, tEnum, p+"Kind", false),
			fld("nested", 17, tMessage, p+"Nested", false),
			fld("ri", 18, tInt32, "", true),
			fld("rs", 19, tString, "", true),
			fld("m", 20, tMessage, p+"Req.MEntry", true),
			fld("ts", 21, tMessage, ".google.protobuf.Timestamp", false),
			fld("dur", 22, tMessage, ".google.protobuf.Duration", false),
			fld("fm", 23, tMessage, ".google.protobuf.FieldMask", false),
			fld("w64", 24, tMessage, ".google.protobuf.Int64Value", false),
			fld("wstr", 25, tMessage, ".google.protobuf.StringValue", false),
			oa, ob,
			fld("rn", 28, tMessage, p+"Nested", true),
			fld("file", 29, tMessage, ".google.api.HttpBody", false),
			fld("other_name", 30, tString, "", false),
			fld("nm", 31, tMessage, p+"Req.NmEntry", true),
			fld("nv", 32, tEnum, ".google.protobuf.NullValue", false),
			fld("rb", 33, tBytes, "", true),
			fld("wb", 34, tMessage, ".google.protobuf.BoolValue", false),
			fld("wbytes", 35, tMessage, ".google.protobuf.BytesValue", false),
			fld("wdb", 36, tMessage, ".google.protobuf.DoubleValue", false),
			fld("wu32", 37, tMessage, ".google.protobuf.UInt32Value", false),
		},
		NestedType: []*descriptorpb.DescriptorProto{mapEntry, nmapEntry},
		OneofDecl:  []*descriptorpb.OneofDescriptorProto{{Name: proto.String("choice")}},
	}
	reply := &descriptorpb.DescriptorProto{
		Name: proto.String("Reply"),
		Field: []*descriptorpb.FieldDescriptorProto{
			fld("text", 1, tString, "", false),
			fld("n", 2, tInt32, "", false),
			fld("nested", 3, tMessage, p+"Nested", false),
			fld("data", 4, tBytes, "", false),
			fld("items", 5, tString, "", true),
			fld("body", 6, tMessage, ".google.api.HttpBody", false),
			fld("echo", 7, tMessage, p+"Req", false),
		},
	}
	kind := &descriptorpb.EnumDescriptorProto{
		Name: proto.String("Kind"),
		Value: []*descriptorpb.EnumValueDescriptorProto{
			{Name: proto.String("KIND_UNSPECIFIED"), Number: proto.Int32(0)},
			{Name: proto.String("ALPHA"), Number: proto.Int32(1)},
			{Name: proto.String("BETA"), Number: proto.Int32(2)},
			{Name: proto.String("NEG"), Number: proto.Int32(-3)},
		},
	}
	return []*descriptorpb.DescriptorProto{nested, req, reply}, []*descriptorpb.EnumDescriptorProto{kind}
}

// MethodSpec declares one RPC of a fixture service.
type MethodSpec struct {
	Service      string // simple service name (default "Svc")
	Name         string
	In, Out      string // message names: "Req", "Reply", "Nested", "google.api.HttpBody", "google.protobuf.Empty"
	ClientStream bool
	ServerStream bool
	Rule         *annotations.HttpRule // annotation; may be nil
	// Unary is used for unary methods, Stream for the others.
	Unary  func(ctx context.Context, in *dynamicpb.Message) (proto.Message, error)
	Stream func(fx *Fixture, ms *MethodSpec, stream grpc.ServerStream) error
}

func (ms *MethodSpec) svc() string {
	if ms.Service == "" {
		return "Svc"
	}
	return ms.Service
}
func (ms *MethodSpec) FullMethod() string { return "/" + fxPkg + "." + ms.svc() + "/" + ms.Name }

type Fixture struct {
	Files    *protoregistry.Files
	Types    *dynamicpb.Types
	File     protoreflect.FileDescriptor
	Mux      *larking.Mux
	Methods  []*MethodSpec
	RegErr   error // error of the (first failing) registration
	RegPanic interface{}

	mu     sync.Mutex
	server *http.Server
	lis    net.Listener
	cc     *grpc.ClientConn
	hts    *httptest.Server
}

func typeRef(name string) string {
	if strings.Contains(name, ".") {
		return "." + name
	}
	return "." + fxPkg + "." + name
}

var fxDeps = []protoreflect.FileDescriptor{
	annotations.File_google_api_annotations_proto,
	annotations.File_google_api_http_proto,
	httpbody.File_google_api_httpbody_proto,
	timestamppb.File_google_protobuf_timestamp_proto,
	durationpb.File_google_protobuf_duration_proto,
	fieldmaskpb.File_google_protobuf_field_mask_proto,
	wrapperspb.File_google_protobuf_wrappers_proto,
	emptypb.File_google_protobuf_empty_proto,
	structpb.File_google_protobuf_struct_proto,
	descriptorpb.File_google_protobuf_descriptor_proto,
	anypb.File_google_protobuf_any_proto,
}

// buildFile makes the FileDescriptorProto for the given methods.
// fxDriftSwap, when set, makes buildFile swap the field numbers of two fields of Req: a
// backend whose schema has drifted from the one the mux was configured with.
var fxDriftSwap [2]string

func buildFile(methods []*MethodSpec) *descriptorpb.FileDescriptorProto {
	msgs, enums := fxMessages()
	if fxDriftSwap[0] != "" {
		for _, m := range msgs {
			if m.GetName() != "Req" {
				continue
			}
			var a, b *descriptorpb.FieldDescriptorProto
			for _, f := range m.Field {
				if f.GetName() == fxDriftSwap[0] {
					a = f
				}
				if f.GetName() == fxDriftSwap[1] {
					b = f
				}
			}
			if a != nil && b != nil {
				na, nb := a.GetNumber(), b.GetNumber()
				a.Number, b.Number = proto.Int32(nb), proto.Int32(na)
			}
		}
	}
	fdp := &descriptorpb.FileDescriptorProto{
		Name:    proto.String("verif/v1/fixture.proto"),
		Package: proto.String(fxPkg),
		Syntax:  proto.String("proto3"),
		Dependency: []string{
			"google/api/annotations.proto", "google/api/http.proto", "google/api/httpbody.proto",
			"google/protobuf/timestamp.proto", "google/protobuf/duration.proto",
			"google/protobuf/field_mask.proto", "google/protobuf/wrappers.proto",
			"google/protobuf/empty.proto", "google/protobuf/struct.proto",
		},
		MessageType: msgs,
		EnumType:    enums,
	}
	var order []string
	bySvc := map[string]*descriptorpb.ServiceDescriptorProto{}
	for _, ms := range methods {
		sd := bySvc[ms.svc()]
		if sd == nil {
			sd = &descriptorpb.ServiceDescriptorProto{Name: proto.String(ms.svc())}
			bySvc[ms.svc()] = sd
			order = append(order, ms.svc())
		}
		md := &descriptorpb.MethodDescriptorProto{
			Name:            proto.String(ms.Name),
			InputType:       proto.String(typeRef(ms.In)),
			OutputType:      proto.String(typeRef(ms.Out)),
			ClientStreaming: proto.Bool(ms.ClientStream),
			ServerStreaming: proto.Bool(ms.ServerStream),
		}
		if ms.Rule != nil {
			opts := &descriptorpb.MethodOptions{}
			proto.SetExtension(opts, annotations.E_Http, ms.Rule)
			md.Options = opts
		}
		sd.Method = append(sd.Method, md)
	}
	for _, s := range order {
		fdp.Service = append(fdp.Service, bySvc[s])
	}
	return fdp
}

func newFiles(fdp *descriptorpb.FileDescriptorProto) (*protoregistry.Files, protoreflect.FileDescriptor, error) {
	files := &protoregistry.Files{}
	for _, d := range fxDeps {
		if err := files.RegisterFile(d); err != nil {
			return nil, nil, err
		}
	}
	fd, err := protodesc.NewFile(fdp, files)
	if err != nil {
		return nil, nil, err
	}
	if err := files.RegisterFile(fd); err != nil {
		return nil, nil, err
	}
	return files, fd, nil
}

// NewFixture builds descriptors and a mux and registers all services, in the
// given order of methods. Registration errors and panics are recorded, not raised.
// fixtureConfigFirst: give ServiceConfigOption BEFORE FilesOption / TypesOption
var fixtureConfigFirst bool

func NewFixture(methods []*MethodSpec, sc *serviceconfig.Service, opts ...larking.MuxOption) (*Fixture, error) {
	fdp := buildFile(methods)
	files, fd, err := newFiles(fdp)
	if err != nil {
		return nil, fmt.Errorf("descriptor: %w", err)
	}
	fx := &Fixture{Files: files, File: fd, Types: dynamicpb.NewTypes(files), Methods: methods}
	all := []larking.MuxOption{larking.FilesOption(files), larking.TypesOption(fx.Types)}
	if sc != nil {
		if fixtureConfigFirst { // the order of the options is the caller's choice
			all = append([]larking.MuxOption{larking.ServiceConfigOption(sc)}, all...)
		} else {
			all = append(all, larking.ServiceConfigOption(sc))
		}
	}
	all = append(all, opts...)
	mux, err := larking.NewMux(all...)
	if err != nil {
		return nil, err
	}
	fx.Mux = mux
	if !fixtureDeferRegistration {
		fx.registerAll()
	}
	return fx, nil
}

// fixtureDeferRegistration makes NewFixture skip registration (the caller registers the
// ServiceDescs itself, one by one).
var fixtureDeferRegistration bool

// RegisterOne registers a single service and reports error / panic.
func (fx *Fixture) RegisterOne(name string) (err error, panicked interface{}) {
	for _, sd := range fx.ServiceDescs() {
		if sd.ServiceName != fxPkg+"."+name {
			continue
		}
		func() {
			defer func() {
				if r := recover(); r != nil {
					panicked = r
				}
			}()
			err = fx.Mux.VerifRegisterService(sd, nil)
		}()
	}
	return
}

func (fx *Fixture) MsgDesc(name string) protoreflect.MessageDescriptor {
	full := name
	if !strings.Contains(name, ".") {
		full = fxPkg + "." + name
	}
	d, err := fx.Files.FindDescriptorByName(protoreflect.FullName(full))
	if err != nil {
		panic(err)
	}
	return d.(protoreflect.MessageDescriptor)
}

func (fx *Fixture) NewMsg(name string) *dynamicpb.Message {
	return dynamicpb.NewMessage(fx.MsgDesc(name))
}

// ServiceDescs groups the fixture's methods into grpc.ServiceDesc values.
func (fx *Fixture) ServiceDescs() []*grpc.ServiceDesc {
	var order []string
	by := map[string]*grpc.ServiceDesc{}
	for _, ms := range fx.Methods {
		ms := ms
		sd := by[ms.svc()]
		if sd == nil {
			sd = &grpc.ServiceDesc{ServiceName: fxPkg + "." + ms.svc(), HandlerType: (*interface{})(nil), Metadata: "verif/v1/fixture.proto"}
			by[ms.svc()] = sd
			order = append(order, ms.svc())
		}
		if !ms.ClientStream && !ms.ServerStream {
			sd.Methods = append(sd.Methods, grpc.MethodDesc{
				MethodName: ms.Name,
				Handler: func(srv interface{}, ctx context.Context, dec func(interface{}) error, ic grpc.UnaryServerInterceptor) (interface{}, error) {
					in := fx.NewMsg(ms.In)
					if err := dec(in); err != nil {
						return nil, err
					}
					h := func(ctx context.Context, req interface{}) (interface{}, error) {
						return ms.Unary(ctx, req.(*dynamicpb.Message))
					}
					if ic == nil {
						return h(ctx, in)
					}
					return ic(ctx, in, &grpc.UnaryServerInfo{Server: srv, FullMethod: ms.FullMethod()}, h)
				},
			})
		} else {
			sd.Streams = append(sd.Streams, grpc.StreamDesc{
				StreamName:    ms.Name,
				ClientStreams: ms.ClientStream,
				ServerStreams: ms.ServerStream,
				Handler: func(srv interface{}, stream grpc.ServerStream) error {
					return ms.Stream(fx, ms, stream)
				},
			})
		}
	}
	var out []*grpc.ServiceDesc
	for _, s := range order {
		out = append(out, by[s])
	}
	return out
}

func (fx *Fixture) registerAll() {
	for _, sd := range fx.ServiceDescs() {
		func() {
			defer func() {
				if r := recover(); r != nil && fx.RegPanic == nil {
					fx.RegPanic = r
				}
			}()
			if err := fx.Mux.VerifRegisterService(sd, nil); err != nil && fx.RegErr == nil {
				fx.RegErr = err
			}
		}()
	}
}

// Serve runs an HTTP request in-process through Mux.ServeHTTP, turning a panic
// into a recorded outcome.
func (fx *Fixture) Serve(r *http.Request) (rec *httptest.ResponseRecorder, panicked interface{}) {
	return serveOn(fx.Mux, r)
}

func serveOn(h http.Handler, r *http.Request, w ...http.ResponseWriter) (rec *httptest.ResponseRecorder, panicked interface{}) {
	rec = httptest.NewRecorder()
	var rw http.ResponseWriter = rec
	if len(w) > 0 {
		rw = w[0]
	}
	func() {
		defer func() {
			if p := recover(); p != nil {
				panicked = p
			}
		}()
		h.ServeHTTP(rw, r)
	}()
	return rec, panicked
}

// GRPC returns a grpc-go client connection to a real larking.NewServer (h2c) on
// a localhost listener.
func (fx *Fixture) GRPC() (*grpc.ClientConn, error) {
	fx.mu.Lock()
	defer fx.mu.Unlock()
	if fx.cc != nil {
		return fx.cc, nil
	}
	srv, err := larking.NewServer(fx.Mux)
	if err != nil {
		return nil, err
	}
	lis, err := net.Listen("tcp", "127.0.0.1:0")
	if err != nil {
		return nil, err
	}
	srv.ErrorLog = log.New(io.Discard, "", 0)
	go srv.Serve(lis) //nolint
	cc, err := grpc.NewClient(lis.Addr().String(), grpc.WithTransportCredentials(insecure.NewCredentials()))
	if err != nil {
		return nil, err
	}
	fx.server, fx.lis, fx.cc = srv, lis, cc
	return cc, nil
}

// Addr is the address of the real server (after GRPC()).
func (fx *Fixture) Addr() string { return fx.lis.Addr().String() }

// HTTPServer returns a plain HTTP/1.1 test server around the mux (WebSocket).
func (fx *Fixture) HTTPServer() *httptest.Server {
	fx.mu.Lock()
	defer fx.mu.Unlock()
	if fx.hts == nil {
		fx.hts = httptest.NewUnstartedServer(fx.Mux)
		fx.hts.Config.ErrorLog = log.New(io.Discard, "", 0)
		fx.hts.Start()
	}
	return fx.hts
}

func (fx *Fixture) Close() {
	fx.mu.Lock()
	defer fx.mu.Unlock()
	if fx.cc != nil {
		fx.cc.Close()
	}
	if fx.server != nil {
		ctx, cancel := context.WithTimeout(context.Background(), 200*time.Millisecond)
		fx.server.Shutdown(ctx) //nolint
		cancel()
		fx.server.Close()
	}
	if fx.hts != nil {
		fx.hts.Close()
	}
}

// grpcFrame builds one gRPC length-prefixed frame.
func grpcFrame(flag byte, payload []byte) []byte {
	n := len(payload)
	return append([]byte{flag, byte(n >> 24), byte(n >> 16), byte(n >> 8), byte(n)}, payload...)
}

// parseFrames splits a gRPC(-web) body into frames; ok=false if it ends inside a frame.
func parseFrames(b []byte) (frames [][]byte, flags []byte, ok bool) {
	for len(b) > 0 {
		if len(b) < 5 {
			return frames, flags, false
		}
		n := int(b[1])<<24 | int(b[2])<<16 | int(b[3])<<8 | int(b[4])
		if len(b) < 5+n {
			return frames, flags, false
		}
		flags = append(flags, b[0])
		frames = append(frames, b[5:5+n])
		b = b[5+n:]
	}
	return frames, flags, true
}

func getRule(path string) *annotations.HttpRule {
	return &annotations.HttpRule{Pattern: &annotations.HttpRule_Get{Get: path}}
}
func postRule(path, body string) *annotations.HttpRule {
	return &annotations.HttpRule{Pattern: &annotations.HttpRule_Post{Post: path}, Body: body}
}
func customRule(kind, path, body string) *annotations.HttpRule {
	return &annotations.HttpRule{Pattern: &annotations.HttpRule_Custom{Custom: &annotations.CustomHttpPattern{Kind: kind, Path: path}}, Body: body}
}
