package main

import (
	"fmt"
	"go/ast"
	"path/filepath"
	"strings"
)

func init() { genSteps = append(genSteps, genParams) }

// genParams: the order in which serveHTTP concatenates path captures and query parameters.
func genParams(g *genCtx, lean string, facts map[string]interface{}) error {
	pathLast, found := false, false
	if fd := g.funcs["Mux.serveHTTP"]; fd != nil {
		ast.Inspect(fd.Body, func(n ast.Node) bool {
			as, ok := n.(*ast.AssignStmt)
			if !ok || len(as.Lhs) != 1 || len(as.Rhs) != 1 || exprString(as.Lhs[0]) != "params" {
				return true
			}
			call, ok := as.Rhs[0].(*ast.CallExpr)
			if !ok || exprString(call.Fun) != "append" || len(call.Args) != 2 {
				return true
			}
			a0, a1 := exprString(call.Args[0]), exprString(call.Args[1])
			switch {
			case a0 == "queryParams" && a1 == "params":
				pathLast, found = true, true
			case a0 == "params" && a1 == "queryParams":
				pathLast, found = false, true
			}
			return true
		})
	}
	if !found {
		g.miss("params = append(queryParams, params...) in Mux.serveHTTP")
	}
	facts["pathParamsLast"] = pathLast
	// where the stream transports apply the URL parameters: outside the hasBody block, under a
	// first-message guard
	type site struct{ outside, first, found bool }
	paramsSite := func(fn string) site {
		var st site
		fd := g.funcs[fn]
		if fd == nil {
			return st
		}
		var walk func(n ast.Node, conds []string)
		walk = func(n ast.Node, conds []string) {
			switch x := n.(type) {
			case nil:
				return
			case *ast.IfStmt:
				if x.Init != nil {
					walk(x.Init, conds)
				}
				inner := append(append([]string{}, conds...), exprString(x.Cond))
				walk(x.Body, inner)
				if x.Else != nil {
					walk(x.Else, inner)
				}
				return
			case *ast.CallExpr:
				if strings.HasSuffix(exprString(x.Fun), ".params.set") {
					st.found, st.outside, st.first = true, true, false
					for _, cnd := range conds {
						if strings.Contains(cnd, "hasBody") {
							st.outside = false
						}
						if strings.Contains(cnd, "recvN==1") || strings.Contains(cnd, "count==0") {
							st.first = true
						}
					}
				}
			}
			ast.Inspect(n, func(m ast.Node) bool {
				if m == n || m == nil {
					return true
				}
				walk(m, conds)
				return false
			})
		}
		walk(fd.Body, nil)
		return st
	}
	// how addRule resolves the body / response_body selectors: against which message's fields, and
	// with ALL dot-separated components of the selector
	type selSite struct {
		found, all bool
		against    string
	}
	selector := func(lhs, field string) selSite {
		var st selSite
		if fd := g.funcs["path.addRule"]; fd != nil {
			ast.Inspect(fd.Body, func(n ast.Node) bool {
				as, ok := n.(*ast.AssignStmt)
				if !ok || len(as.Lhs) != 1 || len(as.Rhs) != 1 || exprString(as.Lhs[0]) != lhs {
					return true
				}
				call, ok := as.Rhs[0].(*ast.CallExpr)
				if !ok || exprString(call.Fun) != "fieldPath" || len(call.Args) < 2 {
					return true
				}
				st.found = true
				st.against = exprString(call.Args[0])
				st.all = call.Ellipsis.IsValid() && len(call.Args) == 2 && exprString(call.Args[1]) == "strings.Split(rule."+field+",\".\")"
				return true
			})
		}
		return st
	}
	bodySel, respSel := selector("m.body", "Body"), selector("m.resp", "ResponseBody")
	if !bodySel.found {
		g.miss("m.body = fieldPath(...) in path.addRule")
	}
	if !respSel.found {
		g.miss("m.resp = fieldPath(...) in path.addRule")
	}
	facts["bodySelector"], facts["respSelector"] = fmt.Sprint(bodySel), fmt.Sprint(respSel)
	ws, ht := paramsSite("streamWS.RecvMsg"), paramsSite("streamHTTP.RecvMsg")
	if !ws.found {
		g.miss("s.params.set(args) in streamWS.RecvMsg")
	}
	if !ht.found {
		g.miss("s.params.set(args) in streamHTTP.RecvMsg")
	}
	facts["wsParamsOutsideBody"], facts["httpParamsOutsideBody"] = ws.outside, ht.outside
	var sb strings.Builder
	sb.WriteString(genHeader)
	sb.WriteString("namespace Larking.Gen\n\n")
	fmt.Fprintf(&sb, "/-- `serveHTTP` applies the path captures after the query parameters. -/\ndef pathParamsLast : Bool := %v\n\n", pathLast)
	fmt.Fprintf(&sb, "/-- `streamWS.RecvMsg`: `s.params.set(args)` is not nested in the `if s.method.hasBody` block, and is guarded by a first-message test. -/\ndef wsParamsOutsideBody : Bool := %v\ndef wsParamsFirstOnly : Bool := %v\n\n", ws.outside, ws.first)
	fmt.Fprintf(&sb, "/-- `streamHTTP.RecvMsg`: likewise. -/\ndef httpParamsOutsideBody : Bool := %v\ndef httpParamsFirstOnly : Bool := %v\n\n", ht.outside, ht.first)
	fmt.Fprintf(&sb, "/-- `addRule`: the `body` selector is resolved with all its dot-separated components, against the REQUEST message's fields. -/\ndef bodySelectorAll : Bool := %v\ndef bodySelectorOnRequest : Bool := %v\n\n", bodySel.all, bodySel.against == "fieldDescs")
	fmt.Fprintf(&sb, "/-- `addRule`: the `response_body` selector likewise, against the REPLY message's fields. -/\ndef respSelectorAll : Bool := %v\ndef respSelectorOnReply : Bool := %v\n\n", respSel.all, respSel.against == "desc.Output().Fields()")
	sb.WriteString("end Larking.Gen\n")
	return writeIfChanged(filepath.Join(lean, "Larking/Gen/Params.lean"), sb.String())
}
