package main

import (
	"fmt"
	"go/ast"
	"path/filepath"
	"strings"
)

func init() { genSteps = append(genSteps, genParams) }

// genParams: the order in which serveHTTP concatenates path captures and query parameters.
func genParams(g *genCtx, lean string, facts map[string]interface{}) error {
	pathLast, found := false, false
	if fd := g.funcs["Mux.serveHTTP"]; fd != nil {
		ast.Inspect(fd.Body, func(n ast.Node) bool {
			as, ok := n.(*ast.AssignStmt)
			if !ok || len(as.Lhs) != 1 || len(as.Rhs) != 1 || exprString(as.Lhs[0]) != "params" {
				return true
			}
			call, ok := as.Rhs[0].(*ast.CallExpr)
			if !ok || exprString(call.Fun) != "append" || len(call.Args) != 2 {
				return true
			}
			a0, a1 := exprString(call.Args[0]), exprString(call.Args[1])
			switch {
			case a0 == "queryParams" && a1 == "params":
				pathLast, found = true, true
			case a0 == "params" && a1 == "queryParams":
				pathLast, found = false, true
			}
			return true
		})
	}
	if !found {
		g.miss("params = append(queryParams, params...) in Mux.serveHTTP")
	}
	facts["pathParamsLast"] = pathLast
	var sb strings.Builder
	sb.WriteString(genHeader)
	sb.WriteString("namespace Larking.Gen\n\n")
	fmt.Fprintf(&sb, "/-- `serveHTTP` applies the path captures after the query parameters. -/\ndef pathParamsLast : Bool := %v\n\n", pathLast)
	sb.WriteString("end Larking.Gen\n")
	return writeIfChanged(filepath.Join(lean, "Larking/Gen/Params.lean"), sb.String())
}
