package main

import (
	"fmt"
	"path/filepath"
	"strings"

	"google.golang.org/genproto/googleapis/api/annotations"
	"google.golang.org/genproto/googleapis/api/serviceconfig"
	larkinghealth "larking.io/health"
)

func init() { genSteps = append(genSteps, genHealth) }

func rulePattern(r *annotations.HttpRule) (kind, path string) {
	switch v := r.Pattern.(type) {
	case *annotations.HttpRule_Get:
		return "GET", v.Get
	case *annotations.HttpRule_Put:
		return "PUT", v.Put
	case *annotations.HttpRule_Post:
		return "POST", v.Post
	case *annotations.HttpRule_Delete:
		return "DELETE", v.Delete
	case *annotations.HttpRule_Patch:
		return "PATCH", v.Patch
	case *annotations.HttpRule_Custom:
		return strings.ToUpper(v.Custom.Kind), v.Custom.Path
	}
	return "?", "?"
}

func genHealth(g *genCtx, lean string, facts map[string]interface{}) error {
	sc := &serviceconfig.Service{}
	larkinghealth.AddHealthz(sc)
	var items []string
	for _, r := range sc.GetHttp().GetRules() {
		k, p := rulePattern(r)
		extra := ""
		if r.Body != "" || r.ResponseBody != "" || len(r.AdditionalBindings) > 0 {
			extra = fmt.Sprintf(" body=%q response_body=%q additional=%d", r.Body, r.ResponseBody, len(r.AdditionalBindings))
		}
		items = append(items, fmt.Sprintf("(%q, %q, %q)", r.Selector, k, p+extra))
	}
	facts["healthzRules"] = items
	var sb strings.Builder
	sb.WriteString(genHeader)
	sb.WriteString("namespace Larking.Gen\n\n")
	fmt.Fprintf(&sb, "/-- rules `health.AddHealthz` adds to a service config: (selector, kind, path). -/\ndef healthzRules : List (String × String × String) := [%s]\n\n", strings.Join(items, ", "))
	sb.WriteString("end Larking.Gen\n")
	return writeIfChanged(filepath.Join(lean, "Larking/Gen/Health.lean"), sb.String())
}
