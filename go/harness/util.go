package main

import (
	"bufio"
	"bytes"
	"go/printer"
	"go/token"
	"io"

	"google.golang.org/protobuf/encoding/prototext"
	"google.golang.org/protobuf/proto"
	"google.golang.org/protobuf/reflect/protoreflect"
)

func protoreflectInt32(v int32) protoreflect.Value { return protoreflect.ValueOfInt32(v) }

func prototextS(m proto.Message) string {
	return prototext.MarshalOptions{Multiline: false}.Format(m)
}

func bufioReader(b []byte) *bufio.Reader { return bufio.NewReader(bytes.NewReader(b)) }

func printerFprint(w io.Writer, fset *token.FileSet, n interface{}) { printer.Fprint(w, fset, n) } //nolint

func protoreflectBytes(b []byte) protoreflect.Value  { return protoreflect.ValueOfBytes(b) }
func protoreflectString(s string) protoreflect.Value { return protoreflect.ValueOfString(s) }
