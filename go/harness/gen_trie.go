package main

import (
	"fmt"
	"go/ast"
	"go/token"
	"path/filepath"
	"strings"
)

func init() { genSteps = append(genSteps, genTrieDel) }

// genTrieDel: which parts of a trie node keep it alive (path.alive), as the list of the
// fields its `||` chain tests: `p.X != nil` and `len(p.X) != 0` both yield "X".
func genTrieDel(g *genCtx, lean string, facts map[string]interface{}) error {
	var counts []string
	ok := false
	if fd := g.funcs["path.alive"]; fd != nil && fd.Body != nil && len(fd.Body.List) == 1 {
		if rs, isRet := fd.Body.List[0].(*ast.ReturnStmt); isRet && len(rs.Results) == 1 {
			ok = true
			var walk func(e ast.Expr)
			walk = func(e ast.Expr) {
				if p, isParen := e.(*ast.ParenExpr); isParen {
					walk(p.X)
					return
				}
				be, isBin := e.(*ast.BinaryExpr)
				if !isBin {
					ok = false
					return
				}
				if be.Op == token.LOR {
					walk(be.X)
					walk(be.Y)
					return
				}
				if be.Op != token.NEQ {
					ok = false
					return
				}
				l, r := exprString(be.X), exprString(be.Y)
				switch {
				case r == "nil" && strings.HasPrefix(l, "p."):
					counts = append(counts, strings.TrimPrefix(l, "p."))
				case r == "0" && strings.HasPrefix(l, "len(p.") && strings.HasSuffix(l, ")"):
					counts = append(counts, strings.TrimSuffix(strings.TrimPrefix(l, "len(p."), ")"))
				default:
					ok = false
				}
			}
			walk(rs.Results[0])
		}
	}
	if !ok {
		g.miss("path.alive as a chain of `p.X != nil || len(p.Y) != 0`")
		counts = nil
	}
	facts["aliveCounts"] = counts
	var sb strings.Builder
	sb.WriteString(genHeader)
	sb.WriteString("namespace Larking.Gen\n\n")
	q := make([]string, len(counts))
	for i, c := range counts {
		q[i] = fmt.Sprintf("%q", c)
	}
	fmt.Fprintf(&sb, "/-- the fields of a trie node whose presence keeps it from being pruned by `delRule` (`path.alive`). -/\ndef aliveCounts : List String := [%s]\n\n", strings.Join(q, ", "))
	sb.WriteString("end Larking.Gen\n")
	return writeIfChanged(filepath.Join(lean, "Larking/Gen/TrieDel.lean"), sb.String())
}
