package main

import (
	"bytes"
	"context"
	"encoding/base64"
	"fmt"
	"google.golang.org/protobuf/reflect/protoreflect"
	"io"
	"net"
	"net/http"
	"net/http/httptest"
	"strconv"
	"strings"
	"time"

	"github.com/gobwas/ws"
	"github.com/gobwas/ws/wsutil"
	"google.golang.org/grpc"
	"google.golang.org/protobuf/encoding/protojson"
	"google.golang.org/protobuf/encoding/protowire"
	"google.golang.org/protobuf/proto"
	"larking.io/larking"
)

// c08Limits: the boundary matrix. The encoded size of Req{data: n bytes} is n + 2 (n < 128) or
// n + 3 (n < 16384); sizes are chosen so that the encoded size sits exactly around the limit.
func c08Limits(c *Ctx) {
	limits := []int{16, 32, 64, 300, 1000} // 16 and 32: a whole over-limit frame fits the 64-byte pool buffer
	if c.Thorough() {
		limits = append(limits, 48, 5000, 70000)
	}
	for _, limit := range limits {
		for _, sendLimit := range []int{1 << 20, limit / 2} {
			sfx, err := newStreamFx(larking.MaxReceiveMessageSizeOption(limit), larking.MaxSendMessageSizeOption(sendLimit))
			if err != nil {
				c.Note("c08 fixture: " + err.Error())
				continue
			}
			fx := sfx.fx
			encSize := func(n int) int { b, _ := proto.Marshal(reqWithData(fx, make([]byte, n))); return len(b) }
			dataFor := func(target int) []byte { // data whose proto encoding has exactly `target` bytes
				for n := max(0, target-4); n <= target; n++ {
					if encSize(n) == target {
						d := make([]byte, n)
						c.Rng.Read(d)
						return d
					}
				}
				return nil
			}
			targets := []int{limit - 1, limit, limit + 1, limit + 2, 8 * limit, limit - 1, limit, limit + 1, limit + 2}
			if sendLimit < limit { // replies right at the send limit (receive side irrelevant: tiny requests)
				targets = append(targets, sendLimit-1, sendLimit, sendLimit+1)
			}
			for ti, target := range targets {
				d := dataFor(target)
				if d == nil {
					continue
				}
				if ti >= 5 && ti < 9 { // the same sizes with highly compressible content
					for i := range d {
						d[i] = 0
					}
				}
				enc, _ := proto.Marshal(reqWithData(fx, d))
				over := target > limit
				judge := func(kind, in string, reached bool, refused bool, pn interface{}) {
					c.Eval(kind, in, true)
					switch {
					case pn != nil:
						c.SpecFail(kind, in, fmt.Sprint("panic: ", pn), "no panic", "C08/"+kind+"/panic", "size handling panics")
					case over && reached:
						c.SpecFail(kind, in, "delivered to the handler", "an error", "C08/"+kind+"/over-limit-delivered", "a message over the receive limit reaches the handler")
					case !over && (!reached || refused):
						c.SpecFail(kind, in, "refused", "delivered", "C08/"+kind+"/within-limit-refused", "a message within the limits is refused on size grounds")
					}
				}
				sizeIn := func(what string) string {
					return fmt.Sprintf("%s limit=%d encoded=%d", what, limit, target)
				}
				reachedWith := func() bool {
					for _, g := range sfx.got {
						if bytes.Equal(g, d) {
							return true
						}
					}
					return false
				}
				// HttpBody: a unary upload is one message of `target` raw bytes; a streamed upload is cut
				// into chunks none of which may exceed the limit
				if ti < 5 {
					raw := make([]byte, target)
					c.Rng.Read(raw)
					for _, zip := range []bool{false, true} {
						hdr := map[string]string{"Content-Type": "application/octet-stream"}
						body := raw
						if zip {
							hdr["Content-Encoding"] = "gzip"
							body = gzipBytes(raw)
						}
						sfx.reset(nil)
						rec, pn := sfx.serveStream("POST", "/c06/put/f", hdr, body, genSched(c, len(body)), c.Rng.Intn(2) == 0, false)
						reached := false
						for _, g := range sfx.got {
							reached = reached || bytes.Equal(g, raw)
						}
						handlerRan := len(sfx.got) > 0
						kind := "http-unary-httpbody"
						if zip {
							kind += "-gzip"
						}
						in := fmt.Sprintf("limit=%d raw=%d", limit, target)
						c.Eval(kind, in, true)
						switch {
						case pn != nil:
							c.SpecFail(kind, in, fmt.Sprint("panic: ", pn), "no panic", "C08/"+kind+"/panic", "panic")
						case over && (handlerRan || rec.Code == 200):
							c.SpecFail(kind, in, fmt.Sprintf("%d handler ran=%v with %d bytes", rec.Code, handlerRan, func() int {
								if handlerRan {
									return len(sfx.got[0])
								}
								return -1
							}()), "an error, handler not reached", "C08/"+kind+"/over-limit-accepted", "an HttpBody upload over the receive limit does not fail (the handler runs / the request answers 200)")
						case !over && (!reached || rec.Code != 200):
							c.SpecFail(kind, in, fmt.Sprintf("%d reached=%v", rec.Code, reached), "delivered", "C08/"+kind+"/within-limit-refused", "an HttpBody upload within the limit is refused")
						}
					}
					// streamed upload of 3*limit+7 bytes (+ carried bytes between reads)
					big := make([]byte, 3*limit+7+ti)
					c.Rng.Read(big)
					sfx.reset(nil)
					rec, pn := sfx.serveStream("POST", "/c06/upload/f", map[string]string{"Content-Type": "application/octet-stream"}, big, genSched(c, len(big)), c.Rng.Intn(2) == 0, false)
					in := fmt.Sprintf("limit=%d upload=%d", limit, len(big))
					c.Eval("http-stream-httpbody", in, true)
					var all []byte
					maxChunk := 0
					for _, g := range sfx.got {
						all = append(all, g...)
						if len(g) > maxChunk {
							maxChunk = len(g)
						}
					}
					if pn != nil {
						c.SpecFail("http-stream-httpbody", in, fmt.Sprint("panic: ", pn), "no panic", "C08/http-stream-httpbody/panic", "panic")
					} else if maxChunk > limit {
						c.SpecFail("http-stream-httpbody", in, fmt.Sprintf("a chunk of %d bytes", maxChunk), fmt.Sprintf("chunks of at most %d", limit), "C08/http-stream-httpbody/chunk-over-limit", "a streamed HttpBody chunk larger than the receive limit reaches the handler")
					} else if rec.Code != 200 || !bytes.Equal(all, big) {
						c.SpecFail("http-stream-httpbody", in, fmt.Sprintf("%d, %d of %d bytes", rec.Code, len(all), len(big)), "all bytes in chunks within the limit", "C08/http-stream-httpbody/bytes-lost", "a streamed upload within the per-chunk limit loses bytes or is refused")
					}
				}
				// HTTP unary protobuf (readAll) — data with EOF and separately, body length unknown and announced
				for ei, eofd := range []bool{false, true, false, true} {
					serveStreamKnownLength = ei >= 2
					sfx.reset([][]byte{nil})
					rec, pn := sfx.serveStream("POST", "/c06/unary", map[string]string{"Content-Type": "application/protobuf"}, enc, nil, eofd, false)
					judge("http-unary-proto", sizeIn(fmt.Sprintf("eofWithData=%v", eofd)), reachedWith(), rec.Code != 200, pn)
					// gzip request body: size after decompression counts
					sfx.reset([][]byte{nil})
					rec, pn = sfx.serveStream("POST", "/c06/unary", map[string]string{"Content-Type": "application/protobuf", "Content-Encoding": "gzip"}, gzipBytes(enc), nil, eofd, false)
					judge("http-unary-gzip", sizeIn(fmt.Sprintf("eofWithData=%v content-length-known=%v compressed=%d", eofd, ei >= 2, len(gzipBytes(enc)))), reachedWith(), rec.Code != 200, pn)
					serveStreamKnownLength = false
				}
				// HTTP streaming protobuf and JSON
				{
					wire := append(protowire.AppendVarint(nil, uint64(len(enc))), enc...)
					sfx.reset(nil)
					rec, pn := sfx.serveStream("POST", "/c06/up", map[string]string{"Content-Type": "application/protobuf"}, wire, genSched(c, len(wire)), c.Rng.Intn(2) == 0, false)
					judge("http-stream-proto", sizeIn(""), reachedWith(), rec.Code != 200, pn)
					// the whole frame in one read, alone and behind a small message (look-ahead carried over)
					sfx.reset(nil)
					rec, pn = sfx.serveStream("POST", "/c06/up", map[string]string{"Content-Type": "application/protobuf"}, wire, nil, true, false)
					judge("http-stream-proto", sizeIn("one-read"), reachedWith(), rec.Code != 200, pn)
					small, _ := proto.Marshal(reqWithData(fx, []byte{7}))
					wire2 := append(append(protowire.AppendVarint(nil, uint64(len(small))), small...), wire...)
					sfx.reset(nil)
					rec, pn = sfx.serveStream("POST", "/c06/up", map[string]string{"Content-Type": "application/protobuf"}, wire2, nil, false, false)
					judge("http-stream-proto", sizeIn("one-read-after-a-small-message"), reachedWith(), rec.Code != 200, pn)
				}
				{
					// JSON: pad the data so that the JSON text has exactly target bytes
					for n := max(0, (target-60)*3/4-16); n <= target; n++ { // base64 inside JSON: about 4/3 of the data plus a small frame
						dj := make([]byte, n)
						c.Rng.Read(dj)
						j, _ := protojson.Marshal(reqWithData(fx, dj))
						if len(j) == target || (len(j) > target && len(j) <= target+3) {
							overJ := len(j) > limit
							sfx.reset(nil)
							rec, pn := sfx.serveStream("POST", "/c06/up", map[string]string{"Content-Type": "application/json"}, j, genSched(c, len(j)), c.Rng.Intn(2) == 0, false)
							reached := len(sfx.got) > 0 && bytes.Equal(sfx.got[0], dj)
							c.Eval("http-stream-json", fmt.Sprintf("limit=%d json=%d", limit, len(j)), true)
							if pn != nil {
								c.SpecFail("http-stream-json", fmt.Sprintf("limit=%d json=%d", limit, len(j)), fmt.Sprint("panic: ", pn), "no panic", "C08/http-stream-json/panic", "panic")
							} else if overJ && reached {
								c.SpecFail("http-stream-json", fmt.Sprintf("limit=%d json=%d", limit, len(j)), "delivered", "an error", "C08/http-stream-json/over-limit-delivered", "a JSON message over the limit reaches the handler")
							} else if !overJ && (!reached || rec.Code != 200) {
								c.SpecFail("http-stream-json", fmt.Sprintf("limit=%d json=%d", limit, len(j)), fmt.Sprint("refused ", rec.Code), "delivered", "C08/http-stream-json/within-limit-refused", "a JSON message within the limit is refused")
							}
							break
						}
					}
				}
				// gRPC and gRPC-web, identity and gzip (also a highly compressible payload)
				for _, tr := range []string{"grpc", "web", "web-text", "web-2msgs"} {
					for _, z := range []bool{false, true} {
						payload := enc
						flag := byte(0)
						hdr := map[string]string{"Content-Type": "application/grpc+proto"}
						if tr != "grpc" {
							hdr["Content-Type"] = "application/grpc-web+proto"
						}
						if z {
							payload, flag = gzipBytes(enc), 1
							hdr["Grpc-Encoding"] = "gzip"
						}
						sfx.reset(nil)
						wire := grpcFrame(flag, payload)
						if tr == "web-2msgs" { // a small message first: the limit is per message, not per body
							small, _ := proto.Marshal(reqWithData(fx, []byte{9, 9, 9}))
							wire = append(grpcFrame(0, small), wire...)
						}
						if tr == "web-text" {
							hdr["Content-Type"] = "application/grpc-web-text+proto"
							wire = []byte(base64.StdEncoding.EncodeToString(wire))
						}
						rec, pn := sfx.serveStream("POST", "/verif.v1.Svc/Up", hdr, wire, genSched(c, len(wire)), c.Rng.Intn(2) == 0, tr == "grpc")
						st := rec.Header().Get("Grpc-Status")
						if st == "" {
							st = rec.Result().Trailer.Get("Grpc-Status")
						}
						if st == "" && bytes.Contains(rec.Body.Bytes(), []byte("grpc-status: 0")) {
							st = "0"
						}
						kind := tr + map[bool]string{true: "-gzip", false: ""}[z]
						if z && len(payload) > limit && !over {
							// the compressed frame itself is larger than the limit although the message is not
							c.Eval(kind, sizeIn("compressed-larger"), true)
							if !reachedWith() {
								c.SpecFail(kind, sizeIn(fmt.Sprintf("compressed=%d", len(payload))), "refused", "delivered", "C08/"+map[bool]string{true: "grpc", false: "web"}[tr == "grpc"]+"-gzip/compressed-frame-over-limit", "a message within the limit is refused because its compressed frame is larger than the limit")
							}
							continue
						}
						judge(kind, sizeIn(""), reachedWith(), st != "0", pn)
					}
				}
				// a frame that claims to be compressed on a stream that negotiated no compression: whatever the
				// mux makes of it, its payload over the limit never reaches the handler
				if over {
					for _, enc2 := range []string{"", "identity"} {
						hdr := map[string]string{"Content-Type": "application/grpc+proto"}
						if enc2 != "" {
							hdr["Grpc-Encoding"] = enc2
						}
						sfx.reset(nil)
						_, pn := sfx.serveStream("POST", "/verif.v1.Svc/Up", hdr, grpcFrame(1, enc), nil, false, true)
						in := sizeIn(fmt.Sprintf("frame flag 1 with Grpc-Encoding %q", enc2))
						c.Eval("grpc-forged-flag", in, true)
						if pn != nil {
							c.SpecFail("grpc-forged-flag", in, fmt.Sprint("panic: ", pn), "an error", "C08/grpc-forged-flag/panic", "panic")
						} else if reachedWith() || len(sfx.got) > 0 {
							c.SpecFail("grpc-forged-flag", in, fmt.Sprintf("%d message(s) delivered", len(sfx.got)), "an error", "C08/grpc-forged-flag/over-limit-delivered", "a frame marked compressed on a stream without compression carries an over-limit message to the handler")
						}
					}
				}
				// highly compressible bomb: tiny frame, inflates to 8 x limit
				{
					big := make([]byte, 8*limit)
					encBig, _ := proto.Marshal(reqWithData(fx, big))
					z := gzipBytes(encBig)
					sfx.reset(nil)
					_, pn := sfx.serveStream("POST", "/verif.v1.Svc/Up", map[string]string{"Content-Type": "application/grpc+proto", "Grpc-Encoding": "gzip"}, grpcFrame(1, z), nil, false, true)
					c.Eval("grpc-bomb", fmt.Sprintf("limit=%d compressed=%d inflated=%d", limit, len(z), len(encBig)), true)
					if pn != nil || len(sfx.got) > 0 {
						c.SpecFail("grpc-bomb", fmt.Sprintf("limit=%d compressed=%d inflated=%d", limit, len(z), len(encBig)), fmt.Sprintf("delivered=%d panic=%v", len(sfx.got), pn), "an error", "C08/grpc-gzip/over-limit-delivered", "a compressed message that inflates over the limit reaches the handler")
					}
				}
				// … and one whose fields are all 4 bytes long (repeated one-character strings), a number of them
				// well over the limit: wherever an inflater that stops AT the limit cuts it (limit divisible by 4),
				// the prefix still parses — a truncated message would be delivered as if it were the client's
				if limit%4 == 0 {
					m := fx.NewMsg("Req")
					l := m.Mutable(m.Descriptor().Fields().ByName("rs")).List()
					for k := 0; k < limit/4+3; k++ {
						l.Append(protoreflect.ValueOfString("e"))
					}
					encM, _ := proto.Marshal(m)
					for _, tr := range []string{"application/grpc+proto", "application/grpc-web+proto"} {
						sfx.reset(nil)
						_, pn := sfx.serveStream("POST", "/verif.v1.Svc/Up", map[string]string{"Content-Type": tr, "Grpc-Encoding": "gzip"}, grpcFrame(1, gzipBytes(encM)), nil, false, tr == "application/grpc+proto")
						in := fmt.Sprintf("%s limit=%d inflated=%d (%d fields of 4 bytes)", tr, limit, len(encM), limit/4+3)
						c.Eval("grpc-gzip-fields", in, true)
						if pn != nil || len(sfx.got) > 0 {
							c.SpecFail("grpc-gzip-fields", in, fmt.Sprintf("delivered=%d panic=%v", len(sfx.got), pn), "an error", "C08/grpc-gzip/over-limit-delivered-truncated", "a compressed message that inflates over the limit reaches the handler cut down to the limit")
						}
					}
				}
				// WebSocket
				{
					j, _ := protojson.Marshal(reqWithData(fx, d))
					overJ := len(j) > limit
					sfx.reset(nil)
					hts := fx.HTTPServer()
					for _, frag := range []int{0, 2, 5} { // one frame, or the message fragmented into 2 / 5 frames
						sfx.reset(nil)
						delivered, err := wsSendOne(hts.URL+"/c06/ws", j, frag)
						reached := len(sfx.got) > 0 && bytes.Equal(sfx.got[0], d)
						in := fmt.Sprintf("limit=%d json=%d frames=%d", limit, len(j), max(frag, 1))
						c.Eval("ws", in, true)
						if overJ && reached {
							c.SpecFail("ws", in, "delivered", "an error", "C08/ws/over-limit-delivered", "a WebSocket message over the limit reaches the handler")
						} else if !overJ && (!reached || !delivered) {
							c.SpecFail("ws", in, fmt.Sprint("refused ", err), "delivered", "C08/ws/within-limit-refused", "a WebSocket message within the limit is refused")
						}
					}
				}
				// send limit: reply of `target` encoded bytes against sendLimit
				{
					rd := dataFor(target)
					if rd != nil {
						overSend := target > sendLimit
						sfx.reset([][]byte{rd})
						wire := grpcFrame(0, nil)
						rec, pn := sfx.serveStream("POST", "/verif.v1.Svc/Unary", map[string]string{"Content-Type": "application/grpc+proto"}, wire, nil, false, true)
						frames, _, _ := parseFrames(rec.Body.Bytes())
						sent := len(frames) > 0 && len(frames[0]) == target
						in := fmt.Sprintf("sendLimit=%d recvLimit=%d reply=%d", sendLimit, limit, target)
						c.Eval("grpc-send", in, true)
						model := c.Drv.Ask(join("grpcsend", strconv.Itoa(sendLimit), hexs(bytes.Repeat([]byte{1}, target))))
						if strings.HasPrefix(model, "ok") != sent {
							c.res.NDisagree++
							c.res.Disagree = append(c.res.Disagree, Case{Kind: "grpc-send", Input: in, Impl: fmt.Sprint("sent=", sent), Model: model[:min(len(model), 20)]})
						}
						if pn != nil {
							c.SpecFail("grpc-send", in, fmt.Sprint("panic: ", pn), "no panic", "C08/grpc-send/panic", "panic")
						} else if !overSend && !sent {
							c.SpecFail("grpc-send", in, "refused", "sent", "C08/grpc-send/within-limit-refused", "a reply within the send limit is refused")
						} else if overSend && sent {
							c.SpecFail("grpc-send", in, "sent", "refused", "C08/grpc-send/over-limit-sent", "a reply over the send limit is sent")
						}
						// the same reply with gzip negotiated: the send limit is about the message, not its gzip frame
						sfx.reset([][]byte{rd})
						recz, pnz := sfx.serveStream("POST", "/verif.v1.Svc/Unary", map[string]string{"Content-Type": "application/grpc+proto", "Grpc-Encoding": "gzip"}, wire, nil, false, true)
						fz, flz, _ := parseFrames(recz.Body.Bytes())
						sentz := len(fz) > 0 && flz[0] == 1
						if sentz {
							if plain, err := gunzip(fz[0]); err != nil || len(plain) != target {
								sentz = false
							}
						}
						c.Eval("grpc-send-gzip", in, true)
						if pnz != nil {
							c.SpecFail("grpc-send-gzip", in, fmt.Sprint("panic: ", pnz), "no panic", "C08/grpc-send-gzip/panic", "panic")
						} else if !overSend && !sentz {
							c.SpecFail("grpc-send-gzip", in, "refused", "sent", "C08/grpc-send-gzip/within-limit-refused", "a reply within the send limit is refused when gzip is negotiated")
						} else if overSend && sentz {
							c.SpecFail("grpc-send-gzip", in, "sent", "refused", "C08/grpc-send-gzip/over-limit-sent", "a reply over the send limit is sent when gzip is negotiated")
						}
						// HTTP unary reply (writeAll)
						sfx.reset([][]byte{rd})
						r := httptest.NewRequest("POST", "/c06/unary", strings.NewReader("{}"))
						r.Header.Set("Accept", "application/protobuf")
						rec2, pn2 := fx.Serve(r)
						sent2 := false
						if rec2.Code == 200 {
							rm := fx.NewMsg("Reply")
							sent2 = proto.Unmarshal(rec2.Body.Bytes(), rm) == nil && bytes.Equal(dataOf(rm), rd)
						}
						if overSend && !sent2 && rec2.Code == 200 {
							c.SpecFail("http-send", in, "200 with an error body", "an error status", "C08/http-send/refusal-answered-200", "a reply refused on size grounds is answered 200")
						}
						c.Eval("http-send", in, true)
						if pn2 != nil {
							c.SpecFail("http-send", in, fmt.Sprint("panic: ", pn2), "no panic", "C08/http-send/panic", "panic")
						} else if !overSend && !sent2 {
							c.SpecFail("http-send", in, fmt.Sprint("refused ", rec2.Code), "sent", "C08/http-send/within-limit-refused", "an HTTP reply within the send limit is refused")
						} else if overSend && sent2 {
							c.SpecFail("http-send", in, "sent", "refused", "C08/http-send/over-limit-sent", "an HTTP reply over the send limit is sent")
						}
					}
				}
			}
			if sendLimit >= limit {
				c08ThroughServer(c, sfx, limit, dataFor)
			}
			fx.Close()
		}
	}
	c08HugeLimits(c)
	c08DefaultLimit(c)
}

// c08DefaultLimit: a mux built without a receive option enforces the documented default of 4 MiB.
func c08DefaultLimit(c *Ctx) {
	sfx, err := newStreamFx()
	if err != nil {
		c.Note("c08 default fixture: " + err.Error())
		return
	}
	defer sfx.fx.Close()
	const def = 4 << 20
	for _, target := range []int{def, def + 1} {
		var d []byte
		for n := target - 6; n <= target; n++ {
			if e, _ := proto.Marshal(reqWithData(sfx.fx, make([]byte, n))); len(e) == target {
				d = make([]byte, n)
			}
		}
		if d == nil {
			continue
		}
		d[0], d[len(d)-1] = 7, 9
		enc, _ := proto.Marshal(reqWithData(sfx.fx, d))
		for _, tr := range []string{"application/grpc+proto", "application/grpc-web+proto"} {
			sfx.reset(nil)
			_, pn := sfx.serveStream("POST", "/verif.v1.Svc/Up", map[string]string{"Content-Type": tr}, grpcFrame(0, enc), nil, false, tr == "application/grpc+proto")
			in := fmt.Sprintf("default receive limit (no option): %s message of %d bytes", tr, target)
			c.Eval("default-limit", in, true)
			reached := len(sfx.got) == 1 && len(sfx.got[0]) == len(d)
			switch {
			case pn != nil:
				c.SpecFail("default-limit", in, fmt.Sprint("panic: ", pn), "no panic", "C08/default-limit/panic", "panic")
			case target > def && reached:
				c.SpecFail("default-limit", in, "delivered to the handler", "an error", "C08/default-limit/over-limit-delivered", "a message over the default receive limit reaches the handler")
			case target <= def && !reached:
				c.SpecFail("default-limit", in, "refused", "delivered", "C08/default-limit/within-limit-refused", "a message of exactly the default receive limit is refused")
			}
		}
	}
}

// c08HugeLimits: configured limits are ints; on 64-bit platforms they may pass 2^32 (the width of a
// gRPC frame length). A small message is then within the limit on every transport.
func c08HugeLimits(c *Ctx) {
	for _, lim := range []int{1 << 32, 1<<32 + 16, 5 << 30, 1 << 40} {
		for _, side := range []string{"receive", "send"} {
			opt := larking.MaxReceiveMessageSizeOption(lim)
			if side == "send" {
				opt = larking.MaxSendMessageSizeOption(lim)
			}
			sfx, err := newStreamFx(opt)
			if err != nil {
				c.Note("c08 huge fixture: " + err.Error())
				continue
			}
			d := make([]byte, 100)
			c.Rng.Read(d)
			enc, _ := proto.Marshal(reqWithData(sfx.fx, d))
			for _, tr := range []string{"application/grpc+proto", "application/grpc-web+proto"} {
				sfx.reset([][]byte{d})
				path := "/verif.v1.Svc/Up"
				if side == "send" {
					path = "/verif.v1.Svc/Unary"
				}
				rec, pn := sfx.serveStream("POST", path, map[string]string{"Content-Type": tr}, grpcFrame(0, enc), nil, false, tr == "application/grpc+proto")
				in := fmt.Sprintf("%s limit=%d (>= 2^32), %s, a 100-byte message", side, lim, tr)
				c.Eval("huge-limit", in, true)
				ok := pn == nil
				if side == "receive" {
					ok = ok && len(sfx.got) == 1 && bytes.Equal(sfx.got[0], d)
				} else {
					fr, _, _ := parseFrames(rec.Body.Bytes())
					rm := sfx.fx.NewMsg("Reply")
					ok = ok && len(fr) >= 1 && proto.Unmarshal(fr[0], rm) == nil && bytes.Equal(dataOf(rm), d)
				}
				if !ok {
					c.SpecFail("huge-limit", in, fmt.Sprintf("panic=%v delivered=%d body=%x", pn, len(sfx.got), trunc(rec.Body.Bytes(), 40)), "delivered", "C08/huge-limit/"+side+"/within-limit-refused", "a small message is refused on size grounds when the configured limit is 2^32 or more")
				}
			}
			sfx.fx.Close()
		}
	}
}

// c08ThroughServer: the limits are per MESSAGE also when the mux is served by the library's own
// server (NewServer): a body of several messages, each within the limit, totalling far more.
func c08ThroughServer(c *Ctx, sfx *streamFx, limit int, dataFor func(int) []byte) {
	fx := sfx.fx
	srv, err := larking.NewServer(fx.Mux)
	if err != nil {
		c.Note("c08 NewServer: " + err.Error())
		return
	}
	lis, err := net.Listen("tcp", "127.0.0.1:0")
	if err != nil {
		c.Note("c08 listen: " + err.Error())
		return
	}
	go srv.Serve(lis) //nolint
	defer srv.Close()
	cc, _ := grpc.NewClient(lis.Addr().String(), grpcInsecure())
	defer cc.Close()
	for _, sizes := range [][]int{{limit, limit, limit, limit}, {limit, limit / 2, limit / 2}, {limit - 1, 1, 1, 1, 1, 1, 1, limit}} {
		var want [][]byte
		for _, n := range sizes {
			want = append(want, dataFor(n))
		}
		sfx.reset(nil)
		ctx, cancel := context.WithTimeout(context.Background(), 5*time.Second)
		st, err := cc.NewStream(ctx, &grpc.StreamDesc{ClientStreams: true}, "/verif.v1.Svc/Up")
		for k := 0; err == nil && k < len(want); k++ {
			err = st.SendMsg(reqWithData(fx, want[k]))
		}
		if err == nil {
			err = st.CloseSend()
		}
		if err == nil {
			err = st.RecvMsg(fx.NewMsg("Reply"))
		}
		cancel()
		in := fmt.Sprintf("NewServer, gRPC client stream: limit=%d message sizes=%v", limit, sizes)
		c.Eval("server-grpc-stream", in, true)
		sfx.mu.Lock()
		got := append([][]byte(nil), sfx.got...)
		sfx.mu.Unlock()
		ok := err == nil && len(got) == len(want)
		for k := 0; ok && k < len(want); k++ {
			ok = bytes.Equal(got[k], want[k])
		}
		if !ok {
			c.SpecFail("server-grpc-stream", in, fmt.Sprintf("err=%v, %d of %d messages delivered", err, len(got), len(want)), "every message delivered, status OK", "C08/server/grpc-stream-within-limit-refused", "a stream of messages each within the receive limit is refused once their total passes it (served through NewServer)")
		}
	}
	// a chunked HttpBody upload of 8 x limit bytes over real HTTP/1.1
	big := make([]byte, 8*limit+3)
	c.Rng.Read(big)
	sfx.reset(nil)
	req, _ := http.NewRequest("POST", "http://"+lis.Addr().String()+"/c06/upload/f", io.NopCloser(bytes.NewReader(big)))
	req.Header.Set("Content-Type", "application/octet-stream")
	req.ContentLength = -1
	hc := &http.Client{Timeout: 5 * time.Second}
	resp, err := hc.Do(req)
	code := 0
	if err == nil {
		io.Copy(io.Discard, resp.Body) //nolint
		resp.Body.Close()
		code = resp.StatusCode
	}
	hc.CloseIdleConnections()
	in := fmt.Sprintf("NewServer, HTTP/1.1 chunked HttpBody upload: limit=%d upload=%d", limit, len(big))
	c.Eval("server-http-upload", in, true)
	sfx.mu.Lock()
	var all []byte
	maxChunk := 0
	for _, g := range sfx.got {
		all = append(all, g...)
		maxChunk = max(maxChunk, len(g))
	}
	sfx.mu.Unlock()
	if maxChunk > limit {
		c.SpecFail("server-http-upload", in, fmt.Sprintf("a chunk of %d bytes", maxChunk), fmt.Sprintf("chunks of at most %d", limit), "C08/server/chunk-over-limit", "a streamed HttpBody chunk larger than the receive limit reaches the handler")
	} else if err != nil || code != 200 || !bytes.Equal(all, big) {
		c.SpecFail("server-http-upload", in, fmt.Sprintf("err=%v status=%d, %d of %d bytes", err, code, len(all), len(big)), "all bytes in chunks within the limit", "C08/server/upload-within-limit-refused", "a streamed upload whose chunks are within the limit is refused once the body passes it (served through NewServer)")
	}
}

func wsSendOne(url string, msg []byte, frags ...int) (bool, error) {
	url = "ws" + strings.TrimPrefix(url, "http")
	ctx, cancel := context.WithTimeout(context.Background(), 5*time.Second)
	defer cancel()
	conn, _, _, err := ws.Dial(ctx, url)
	if err != nil {
		return false, err
	}
	defer conn.Close()
	conn.SetDeadline(time.Now().Add(3 * time.Second))
	if n := append(frags, 0)[0]; n >= 2 && len(msg) >= n {
		step := len(msg) / n
		for i := 0; i < n; i++ {
			part := msg[i*step : (i+1)*step]
			if i == n-1 {
				part = msg[i*step:]
			}
			op := ws.OpContinuation
			if i == 0 {
				op = ws.OpText
			}
			if err := ws.WriteFrame(conn, ws.MaskFrameInPlace(ws.NewFrame(op, i == n-1, append([]byte(nil), part...)))); err != nil {
				return false, err
			}
		}
	} else if err := wsutil.WriteClientMessage(conn, ws.OpText, msg); err != nil {
		return false, err
	}
	_, op, err := wsutil.ReadServerData(conn)
	if err != nil {
		return false, err
	}
	return op == ws.OpText, nil
}
