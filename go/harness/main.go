// Correspondence / conformance harness for the larking Lean model.
//
//	harness gen  --lean /verif/lean                 regenerate Larking/Gen/*.lean from /repo
//	harness run  --prop C05 --tier quick --seed 1 --driver <path> --out result.json [--replay file]
//
// Every case is sent both to the real code (in-process, -tags verif) and, over a
// pipe, to the compiled Lean driver; canonical outputs are compared
// (correspondence) and the observed behaviour is judged by a property-level
// oracle (conformance).
package main

import (
	"encoding/json"
	"flag"
	"fmt"
	"math/rand"
	"os"
	"sort"
	"strings"
	"time"
)

type Case struct {
	Kind     string `json:"kind"`
	Input    string `json:"input"`
	Impl     string `json:"implementation,omitempty"`
	Model    string `json:"model,omitempty"`
	Expected string `json:"specification,omitempty"`
	Note     string `json:"note,omitempty"`
	Key      string `json:"finding_key,omitempty"`
}

type Result struct {
	Prop         string         `json:"property"`
	Tier         string         `json:"tier"`
	Seed         int64          `json:"seed"`
	Evaluations  int            `json:"evaluations"`
	Distinct     int            `json:"distinct_nontrivial"`
	Rule         string         `json:"rule"`
	Classes      map[string]int `json:"outcome_classes"`
	Samples      []string       `json:"samples"`
	Disagree     []Case         `json:"disagreements"` // implementation vs model
	SpecFail     []Case         `json:"spec_failures"` // property-level oracle failed on the implementation
	Assumptions  []string       `json:"assumptions"`
	NDisagree    int            `json:"n_disagreements"`
	NSpecFail    int            `json:"n_spec_failures"`
	Corresponded int            `json:"traces_validated_against_impl"`
	WallS        float64        `json:"wall_s"`
	Notes        []string       `json:"notes,omitempty"`
}

type Ctx struct {
	Prop     string
	Tier     string
	Seed     int64
	Rng      *rand.Rand
	Drv      *Driver
	res      *Result
	distinct map[string]struct{}
	sampleN  map[string]int
}

func (c *Ctx) Thorough() bool { return c.Tier == "thorough" }

// N picks a case count by tier.
func (c *Ctx) N(quick, thorough int) int {
	if c.Thorough() {
		return thorough
	}
	return quick
}

func (c *Ctx) Class(name string) { c.res.Classes[name]++ }

func (c *Ctx) count(kind, input string, nontrivial bool) {
	c.res.Evaluations++
	if nontrivial {
		k := kind + "\x00" + input
		if _, ok := c.distinct[k]; !ok {
			c.distinct[k] = struct{}{}
		}
	}
	if os.Getenv("VERIF_KINDS") != "" {
		c.res.Classes["kind:"+kind]++
	}
	if c.sampleN[kind] < 3 {
		c.sampleN[kind]++
		s := kind + " " + input
		if len(s) > 300 {
			s = s[:300] + "..."
		}
		c.res.Samples = append(c.res.Samples, s)
	}
}

// Eval records a case that has no model counterpart (API-level conformance).
func (c *Ctx) Eval(kind, input string, nontrivial bool) { c.count(kind, input, nontrivial) }

// Correspond sends `line` to the Lean driver and compares its answer with impl.
func (c *Ctx) Correspond(kind, line, impl string, nontrivial bool) (model string, same bool) {
	c.count(kind, line, nontrivial)
	model = c.Drv.Ask(line)
	c.res.Corresponded++
	if model != impl {
		c.res.NDisagree++
		if len(c.res.Disagree) < 25 {
			c.res.Disagree = append(c.res.Disagree, Case{Kind: kind, Input: line, Impl: impl, Model: model})
		}
		return model, false
	}
	return model, true
}

// SpecFail records a property violation observed on the implementation.
func (c *Ctx) SpecFail(kind, input, observed, expected, key, note string) {
	c.res.NSpecFail++
	// keep the first few of every key so that distinct defects all surface
	n := 0
	for _, f := range c.res.SpecFail {
		if f.Key == key {
			n++
		}
	}
	if n < 3 && len(c.res.SpecFail) < 60 {
		c.res.SpecFail = append(c.res.SpecFail, Case{Kind: kind, Input: input, Impl: observed, Expected: expected, Key: key, Note: note})
	}
}

func (c *Ctx) Note(s string)   { c.res.Notes = append(c.res.Notes, s) }
func (c *Ctx) Assume(s string) { c.res.Assumptions = append(c.res.Assumptions, s) }
func (c *Ctx) Rule(s string)   { c.res.Rule = s }

var props = map[string]func(*Ctx){}

// stressors run in a child process built with the race detector.
var stressors = map[string]func(seed int64, d time.Duration) *StressReport{}

func main() {
	if len(os.Args) < 2 {
		fmt.Fprintln(os.Stderr, "usage: harness gen|run ...")
		os.Exit(2)
	}
	switch os.Args[1] {
	case "gen":
		fs := flag.NewFlagSet("gen", flag.ExitOnError)
		lean := fs.String("lean", "/verif/lean", "lean project dir")
		repo := fs.String("repo", "/repo", "repository")
		fs.Parse(os.Args[2:])
		if err := runGen(*repo, *lean); err != nil {
			fmt.Fprintln(os.Stderr, "gen:", err)
			os.Exit(1)
		}
	case "run":
		fs := flag.NewFlagSet("run", flag.ExitOnError)
		prop := fs.String("prop", "", "property id")
		tier := fs.String("tier", "quick", "quick|thorough")
		seed := fs.Int64("seed", 1, "seed")
		driver := fs.String("driver", "/verif/lean/.lake/build/bin/driver", "lean driver")
		out := fs.String("out", "", "result json")
		fs.Parse(os.Args[2:])
		fn, ok := props[*prop]
		if !ok {
			fmt.Fprintln(os.Stderr, "unknown property", *prop)
			os.Exit(2)
		}
		start := time.Now()
		var drv *Driver
		if *driver != "none" {
			var err error
			drv, err = StartDriver(*driver)
			if err != nil {
				fmt.Fprintln(os.Stderr, "driver:", err)
				os.Exit(2)
			}
		}
		ctx := &Ctx{
			Prop: *prop, Tier: *tier, Seed: *seed, Rng: rand.New(rand.NewSource(*seed)), Drv: drv,
			res:      &Result{Prop: *prop, Tier: *tier, Seed: *seed, Classes: map[string]int{}},
			distinct: map[string]struct{}{}, sampleN: map[string]int{},
		}
		fn(ctx)
		drv.Close()
		ctx.res.Distinct = len(ctx.distinct)
		ctx.res.WallS = time.Since(start).Seconds()
		sort.Strings(ctx.res.Samples)
		b, _ := json.MarshalIndent(ctx.res, "", " ")
		if *out == "" {
			fmt.Println(string(b))
		} else if err := os.WriteFile(*out, b, 0o644); err != nil {
			fmt.Fprintln(os.Stderr, err)
			os.Exit(2)
		}
	case "stress":
		// child process (built with -race): concurrent scenarios; prints one JSON report.
		fs := flag.NewFlagSet("stress", flag.ExitOnError)
		prop := fs.String("prop", "", "property id")
		seed := fs.Int64("seed", 1, "seed")
		millis := fs.Int("millis", 1500, "duration of each scenario")
		fs.Parse(os.Args[2:])
		fn, ok := stressors[*prop]
		if !ok {
			fmt.Fprintln(os.Stderr, "no stress scenario for", *prop)
			os.Exit(2)
		}
		rep := fn(*seed, time.Duration(*millis)*time.Millisecond)
		b, _ := json.Marshal(rep)
		fmt.Println(string(b))
	default:
		fmt.Fprintln(os.Stderr, "unknown command", os.Args[1])
		os.Exit(2)
	}
}

func hexs(b []byte) string { return fmt.Sprintf("%x", b) }
func hexS(s string) string { return fmt.Sprintf("%x", s) }

func join(parts ...string) string { return strings.Join(parts, "\t") }
