package main

import (
	"context"
	"fmt"
	"go/ast"
	"go/token"
	"net/http/httptest"
	"path/filepath"
	"strconv"
	"strings"

	"google.golang.org/grpc"
	"google.golang.org/grpc/metadata"
	"google.golang.org/protobuf/proto"
	"google.golang.org/protobuf/types/dynamicpb"
	"larking.io/larking"
)

func init() { genSteps = append(genSteps, genGrpc) }

// switchStrings returns the string literals of the first case clause of the
// first switch statement in fn.
func switchStrings(fd *ast.FuncDecl) []string {
	var out []string
	ast.Inspect(fd.Body, func(n ast.Node) bool {
		if out != nil {
			return false
		}
		if cc, ok := n.(*ast.CaseClause); ok && len(cc.List) > 0 {
			for _, e := range cc.List {
				if bl, ok := e.(*ast.BasicLit); ok && bl.Kind == token.STRING {
					s, _ := strconv.Unquote(bl.Value)
					out = append(out, s)
				}
			}
			return false
		}
		return true
	})
	return out
}

func leanBytesLit(s string) string {
	var parts []string
	for i := 0; i < len(s); i++ {
		parts = append(parts, strconv.Itoa(int(s[i])))
	}
	return "[" + strings.Join(parts, ", ") + "]"
}

func leanBytesList(xs []string) string {
	var parts []string
	for _, x := range xs {
		parts = append(parts, leanBytesLit(x)+" /- "+x+" -/")
	}
	return "[" + strings.Join(parts, ",\n   ") + "]"
}

func genGrpc(g *genCtx, lean string, facts map[string]interface{}) error {
	// ---- timeout units (evaluated) and the shape of decodeTimeout
	var units []string
	for b := 0; b < 256; b++ {
		if d := larking.VerifTimeoutUnit(byte(b)); d != 0 {
			units = append(units, fmt.Sprintf("(%d, %d)", b, int64(d)))
		}
	}
	minLen, maxLen, acceptsSign := -1, -1, true
	if fd := g.funcs["decodeTimeout"]; fd != nil {
		ast.Inspect(fd.Body, func(n ast.Node) bool {
			switch t := n.(type) {
			case *ast.IfStmt:
				if be, ok := t.Cond.(*ast.BinaryExpr); ok && exprString(be.X) == "size" {
					if bl, ok := be.Y.(*ast.BasicLit); ok {
						v, _ := strconv.Atoi(bl.Value)
						switch be.Op {
						case token.LSS:
							minLen = v
						case token.LEQ:
							minLen = v + 1
						case token.GTR:
							maxLen = v
						case token.GEQ:
							maxLen = v - 1
						}
					}
				}
			case *ast.CallExpr:
				switch exprString(t.Fun) {
				case "strconv.ParseUint":
					acceptsSign = false
				case "strconv.ParseInt", "strconv.Atoi":
					acceptsSign = true
				}
			}
			return true
		})
		// a digit-only pre-check in front of ParseInt also rejects signs
		src := nodeSrc(g, fd)
		if strings.Contains(src, "< '0'") || strings.Contains(src, "unicode.IsDigit") || strings.Contains(src, "isDigit") {
			acceptsSign = false
		}
	} else {
		g.miss("func decodeTimeout")
	}
	if minLen < 0 {
		g.miss("decodeTimeout lower length bound")
		minLen = 0
	}
	if maxLen < 0 {
		g.miss("decodeTimeout upper length bound")
		maxLen = 1 << 20
	}

	// ---- cancellation fence of the streamGRPC operations
	var fenced []string
	for _, m := range []string{"SendHeader", "SendMsg", "RecvMsg"} {
		fd := g.funcs["streamGRPC."+m]
		ok := false
		if fd != nil && len(fd.Body.List) >= 3 {
			s0 := nodeSrc(g, fd.Body.List[0])
			s1 := nodeSrc(g, fd.Body.List[1])
			s2 := nodeSrc(g, fd.Body.List[2])
			ok = strings.Contains(s0, "s.begin()") && strings.Contains(s0, "return err") && strings.HasPrefix(s1, "defer") && strings.Contains(s1, "wg.Done()") &&
				strings.Contains(s2, "isDone()") && strings.Contains(s2, "return err")
		}
		if fd == nil {
			g.miss("method streamGRPC." + m)
		}
		fenced = append(fenced, fmt.Sprintf("(%q, %v)", m, ok))
	}

	// ---- reserved / whitelisted header keys
	var reserved, whitelisted []string
	if fd := g.funcs["isReservedHeader"]; fd != nil {
		reserved = switchStrings(fd)
	} else {
		g.miss("func isReservedHeader")
	}
	if fd := g.funcs["isWhitelistedHeader"]; fd != nil {
		whitelisted = switchStrings(fd)
	} else {
		g.miss("func isWhitelistedHeader")
	}
	// cross-check the syntactic lists against the compiled predicate
	for _, k := range reserved {
		if !larking.VerifIsReservedHeader(k) {
			g.miss("isReservedHeader disagrees with its extracted case list at " + k)
		}
	}

	// ---- decodeBinHeader: decoder used when len(v)%4 == 0
	padded := false
	if fd := g.funcs["decodeBinHeader"]; fd != nil {
		is := firstIf(fd, func(is *ast.IfStmt) bool { return strings.Contains(exprString(is.Cond), "%4") })
		if is == nil {
			g.miss("len(v)%4 branch in decodeBinHeader")
		} else {
			thenSrc := nodeSrc(g, is.Body)
			elseSrc := ""
			if is.Else != nil {
				elseSrc = nodeSrc(g, is.Else)
			}
			padded = strings.Contains(thenSrc, "base64.StdEncoding")
			if !padded && !strings.Contains(thenSrc, "base64.RawStdEncoding") {
				g.miss("decoder of the padded branch of decodeBinHeader")
			}
			if !strings.Contains(elseSrc, "base64.RawStdEncoding") {
				g.miss("decoder of the unpadded branch of decodeBinHeader")
			}
		}
	} else {
		g.miss("func decodeBinHeader")
	}

	// ---- how serveGRPC publishes handler trailers (observed on a recorder)
	prefixed := probeTrailerPrefix()

	facts["timeoutUnits"] = units
	facts["timeoutLen"] = []int{minLen, maxLen}
	facts["timeoutAcceptsSign"] = acceptsSign
	facts["grpcOpsFenced"] = fenced
	facts["reservedHeaders"] = reserved
	facts["whitelistedHeaders"] = whitelisted
	facts["binPaddedWhenMul4"] = padded
	facts["grpcTrailersPrefixed"] = prefixed

	var sb strings.Builder
	sb.WriteString(genHeader)
	sb.WriteString("namespace Larking.Gen\n\n")
	fmt.Fprintf(&sb, "/-- `timeoutUnit`: (unit byte, nanoseconds) for every byte with a non-zero unit. -/\ndef timeoutUnits : List (Nat × Int) := [%s]\n\n", strings.Join(units, ", "))
	fmt.Fprintf(&sb, "/-- `decodeTimeout`: rejects `len < %d` and `len > %d`. -/\ndef timeoutMinLen : Nat := %d\ndef timeoutMaxLen : Nat := %d\n\n", minLen, maxLen, minLen, maxLen)
	fmt.Fprintf(&sb, "/-- whether the number parser of `decodeTimeout` accepts a leading sign. -/\ndef timeoutAcceptsSign : Bool := %v\n\n", acceptsSign)
	fmt.Fprintf(&sb, "/-- per streamGRPC op: does it start with `if err := s.begin() …; defer wg.Done(); if err := isDone() …`. -/\ndef grpcOpsFenced : List (String × Bool) := [%s]\n\n", strings.Join(fenced, ", "))
	fmt.Fprintf(&sb, "/-- case list of `isReservedHeader`. -/\ndef reservedHeaders : List (List UInt8) :=\n  %s\n\n", leanBytesList(reserved))
	fmt.Fprintf(&sb, "/-- case list of `isWhitelistedHeader`. -/\ndef whitelistedHeaders : List (List UInt8) :=\n  %s\n\n", leanBytesList(whitelisted))
	fmt.Fprintf(&sb, "/-- `decodeBinHeader`: the `len(v)%%4 == 0` branch uses the padded decoder. -/\ndef binPaddedWhenMul4 : Bool := %v\n\n", padded)
	fmt.Fprintf(&sb, "/-- `serveGRPC` publishes handler trailers under `http.TrailerPrefix` (observed). -/\ndef grpcTrailersPrefixed : Bool := %v\n\n", prefixed)
	sb.WriteString("end Larking.Gen\n")
	return writeIfChanged(filepath.Join(lean, "Larking/Gen/Grpc.lean"), sb.String())
}

func nodeSrc(g *genCtx, n ast.Node) string {
	var sb strings.Builder
	printerFprint(&sb, g.fset, n)
	return sb.String()
}

// probeTrailerPrefix runs one gRPC call on a recorder and looks at the key
// under which a handler trailer was stored in the header map.
func probeTrailerPrefix() (prefixed bool) {
	defer func() { recover() }()
	fx, err := NewFixture([]*MethodSpec{{Name: "T", In: "Req", Out: "Reply", Unary: func(ctx context.Context, in *dynamicpb.Message) (proto.Message, error) {
		grpc.SetTrailer(ctx, metadata.Pairs("x-probe", "1"))
		return dynamicpb.NewMessage(in.Descriptor().ParentFile().Messages().ByName("Reply")), nil
	}}}, nil)
	if err != nil {
		return false
	}
	r := httptest.NewRequest("POST", "/verif.v1.Svc/T", strings.NewReader(string(grpcFrame(0, nil))))
	r.ProtoMajor, r.ProtoMinor = 2, 0
	r.Header.Set("Content-Type", "application/grpc")
	rec, _ := fx.Serve(r)
	_, ok := rec.Header()["Trailer:X-Probe"]
	return ok
}
