package main

import (
	"bytes"
	"context"
	"fmt"
	"net"
	"net/http/httptest"
	"sort"
	"strconv"
	"strings"
	"sync/atomic"
	"time"

	"google.golang.org/genproto/googleapis/api/annotations"
	"google.golang.org/grpc"
	"google.golang.org/grpc/codes"
	"google.golang.org/grpc/credentials/insecure"
	"google.golang.org/grpc/reflection"
	rpb "google.golang.org/grpc/reflection/grpc_reflection_v1alpha"
	"google.golang.org/grpc/status"
	"google.golang.org/protobuf/encoding/protojson"
	"google.golang.org/protobuf/proto"
	"google.golang.org/protobuf/reflect/protoreflect"
	"google.golang.org/protobuf/types/dynamicpb"
	"larking.io/larking"
)

func init() {
	props["C11"] = runC11
}

// ---- the service universe

type regMethod struct {
	stream  bool // server-streaming (registered by registerService's second loop)
	id      int
	svc     string
	name    string
	rule    *annotations.HttpRule
	keys    []int       // route keys in the order appendHandler binds them (implicit first)
	samples [][2]string // per key: verb, concrete path
}

type regUniverse struct {
	methods []*regMethod
	svcs    []string
	fx      *Fixture // all services: descriptors for local registration
	subFx   map[int]*Fixture
	calls   *int64
}

func (u *regUniverse) bySvc(svc string) []*regMethod {
	var out []*regMethod
	for _, m := range u.methods {
		if m.svc == svc {
			out = append(out, m)
		}
	}
	return out
}

func (u *regUniverse) full(m *regMethod) string { return "/" + fxPkg + "." + m.svc + "/" + m.name }

func newRegUniverse() (*regUniverse, error) {
	u := &regUniverse{svcs: []string{"SvcA", "SvcB", "SvcC", "SvcD", "SvcE", "SvcF"}, subFx: map[int]*Fixture{}}
	// the annotated routes share trie nodes: one node (/c11/v) holds a literal child and five
	// variables that sort as  *  a/*  b/*  c/**  — pruning one must not disturb the others.
	d := getRule("/c11/v/{name=c/**}")
	d.AdditionalBindings = []*annotations.HttpRule{getRule("/c11/w/{name}")}
	u.methods = []*regMethod{
		{id: 1, svc: "SvcA", name: "M1", rule: getRule("/c11/v/{name=a/*}"), keys: []int{101, 1}, samples: [][2]string{{"POST", ""}, {"GET", "/c11/v/a/n1"}}},
		{id: 2, svc: "SvcA", name: "M2", rule: postRule("/c11/v/a2", "*"), keys: []int{102, 2}, samples: [][2]string{{"POST", ""}, {"POST", "/c11/v/a2"}}},
		{id: 3, svc: "SvcB", name: "M3", rule: getRule("/c11/v/{name=b/*}/x/{i32}"), keys: []int{103, 3}, samples: [][2]string{{"POST", ""}, {"GET", "/c11/v/b/n3/x/7"}}},
		// M4's only annotated route lies BELOW M7's implicit path: the node /verif.v1.SvcE/M7 then holds
		// nothing but M7's kind-'*' binding and a child; removing M4's rule must not prune it.
		{id: 4, svc: "SvcB", name: "M4", rule: getRule("/" + fxPkg + ".SvcE/M7/extra"), keys: []int{104, 8}, samples: [][2]string{{"POST", ""}, {"GET", "/" + fxPkg + ".SvcE/M7/extra"}}},
		{id: 5, svc: "SvcC", name: "M5", rule: getRule("/c11/v/{name=a/*}"), keys: []int{105, 1}, samples: [][2]string{{"POST", ""}, {"GET", "/c11/v/a/n5"}}},
		{id: 6, svc: "SvcD", name: "M6", rule: d, keys: []int{106, 4, 5}, samples: [][2]string{{"POST", ""}, {"GET", "/c11/v/c/x/y"}, {"GET", "/c11/w/z"}}},
		{id: 7, svc: "SvcE", name: "M7", rule: getRule("/c11/v/{name}"), keys: []int{107, 6}, samples: [][2]string{{"POST", ""}, {"GET", "/c11/v/solo"}}},
		// SvcF: a unary method and a streaming one whose route is also claimed by M1 / M5 — a
		// registration that fails in its second half must leave nothing of its first half
		{id: 8, svc: "SvcF", name: "M8", rule: getRule("/c11/f/{name}"), keys: []int{108, 7}, samples: [][2]string{{"POST", ""}, {"GET", "/c11/f/n8"}}},
		{id: 9, svc: "SvcF", name: "M9", stream: true, rule: getRule("/c11/v/{name=a/*}"), keys: []int{109, 1}, samples: [][2]string{{"POST", ""}, {"GET", "/c11/v/a/n9"}}},
		// a method without any annotation: its only HTTP route is the implicit kind-'*' one, which delRule never finds
		{id: 10, svc: "SvcC", name: "M10", keys: []int{110}, samples: [][2]string{{"POST", ""}}},
	}
	for _, m := range u.methods {
		m.samples[0][1] = u.full(m)
	}
	var err error
	fixtureDeferRegistration = true
	defer func() { fixtureDeferRegistration = false }()
	u.fx, err = NewFixture(u.specs(63, "local"), nil)
	return u, err
}

// specs builds the MethodSpecs of the services in mask (bit i = u.svcs[i]); handlers answer with tag.
func (u *regUniverse) specs(mask int, tag string) []*MethodSpec {
	var out []*MethodSpec
	for i, svc := range u.svcs {
		if mask&(1<<i) == 0 {
			continue
		}
		for _, m := range u.bySvc(svc) {
			if m.stream {
				out = append(out, &MethodSpec{Service: svc, Name: m.name, In: "Req", Out: "Reply", Rule: m.rule, ServerStream: true,
					Stream: func(fx *Fixture, ms *MethodSpec, st grpc.ServerStream) error {
						if err := st.RecvMsg(fx.NewMsg("Req")); err != nil {
							return err
						}
						r := fx.NewMsg("Reply")
						r.Set(r.Descriptor().Fields().ByName("text"), protoreflect.ValueOfString(tag))
						return st.SendMsg(r)
					}})
				continue
			}
			out = append(out, &MethodSpec{Service: svc, Name: m.name, In: "Req", Out: "Reply", Rule: m.rule,
				Unary: func(ctx context.Context, in *dynamicpb.Message) (proto.Message, error) {
					if u.calls != nil {
						atomic.AddInt64(u.calls, 1)
					}
					out := dynamicpb.NewMessage(in.Descriptor().ParentFile().Messages().ByName("Reply"))
					out.Set(out.Descriptor().Fields().ByName("text"), protoreflect.ValueOfString(tag))
					return out, nil
				}})
		}
	}
	return out
}

func (u *regUniverse) mspecs(mask int) string {
	var items []string
	for i, svc := range u.svcs {
		if mask&(1<<i) == 0 {
			continue
		}
		for _, m := range u.bySvc(svc) {
			ks := make([]string, len(m.keys))
			for j, k := range m.keys {
				ks[j] = strconv.Itoa(k)
			}
			items = append(items, fmt.Sprintf("%d:%s", m.id, strings.Join(ks, ".")))
		}
	}
	if len(items) == 0 {
		return "-"
	}
	return strings.Join(items, ",")
}

// ---- backends whose advertised descriptor set can be switched

type regBackend struct {
	idx   int
	tag   string
	gs    *grpc.Server
	cc    *grpc.ClientConn
	mask  atomic.Int64
	u     *regUniverse
	hits  int64
	files map[int]*Fixture
	delay atomic.Int64 // artificial latency of every reflection answer
}

func (b *regBackend) GetServiceInfo() map[string]grpc.ServiceInfo {
	if d := b.delay.Load(); d > 0 {
		time.Sleep(time.Duration(d))
	}
	out := map[string]grpc.ServiceInfo{}
	mask := int(b.mask.Load())
	for i, svc := range b.u.svcs {
		if mask&(1<<i) != 0 {
			out[fxPkg+"."+svc] = grpc.ServiceInfo{}
		}
	}
	return out
}

func (b *regBackend) fx() *Fixture { return b.files[int(b.mask.Load())] }

func (b *regBackend) FindFileByPath(p string) (protoreflect.FileDescriptor, error) {
	return b.fx().Files.FindFileByPath(p)
}
func (b *regBackend) FindDescriptorByName(n protoreflect.FullName) (protoreflect.Descriptor, error) {
	return b.fx().Files.FindDescriptorByName(n)
}

func newRegBackend(u *regUniverse, idx int) (*regBackend, error) {
	b := &regBackend{idx: idx, tag: "b" + strconv.Itoa(idx), u: u, files: map[int]*Fixture{}}
	fixtureDeferRegistration = true
	defer func() { fixtureDeferRegistration = false }()
	for mask := 1; mask < 64; mask++ {
		fx, err := NewFixture(u.specs(mask, b.tag), nil)
		if err != nil {
			return nil, err
		}
		b.files[mask] = fx
	}
	b.mask.Store(63)
	b.gs = grpc.NewServer()
	for _, sd := range b.files[63].ServiceDescs() {
		b.gs.RegisterService(sd, nil)
	}
	rpb.RegisterServerReflectionServer(b.gs, reflection.NewServer(reflection.ServerOptions{Services: b, DescriptorResolver: b}))
	lis, err := net.Listen("tcp", "127.0.0.1:0")
	if err != nil {
		return nil, err
	}
	go b.gs.Serve(lis) //nolint
	b.cc, err = grpc.NewClient(lis.Addr().String(), grpc.WithTransportCredentials(insecure.NewCredentials()))
	return b, err
}

func listenLocal() (net.Listener, error) { return net.Listen("tcp", "127.0.0.1:0") }
func grpcInsecure() grpc.DialOption      { return grpc.WithTransportCredentials(insecure.NewCredentials()) }

func (b *regBackend) close() {
	b.cc.Close()
	b.gs.Stop()
}

// ---- one history

type regRun struct {
	stuck    bool // a writer call never returned
	c        *Ctx
	u        *regUniverse
	backends []*regBackend
	unknown  *grpc.ClientConn
	mux      *larking.Mux
	ops      []string
	impl     []string
	live     map[int][]string // independent bookkeeping: method id -> owners ("L" or conn number)
	reg      map[int]int      // conn number -> mask registered
	hashes   map[string]int
	gcc      *grpc.ClientConn
	hist     string
	lastErr  string
}

func (r *regRun) connNo(target string) string {
	for _, b := range r.backends {
		if b.cc.Target() == target {
			return strconv.Itoa(b.idx + 1)
		}
	}
	if target == "untracked" {
		return "L"
	}
	return "?" + target
}

// implState renders the published state in the driver's format.
func (r *regRun) implState() string {
	snap := r.mux.VerifSnapshot()
	owners := snap.Owners()
	conns := snap.Conns()
	var hs, cn, live []string
	for _, m := range r.u.methods {
		os := owners[r.u.full(m)]
		if len(os) == 0 {
			continue
		}
		l := make([]string, len(os))
		for i, o := range os {
			l[i] = r.connNo(o)
		}
		hs = append(hs, fmt.Sprintf("%d=%s", m.id, strings.Join(l, ".")))
		var ks []string
		for j, k := range m.keys {
			got := "-"
			if vm, _, err := snap.Match(m.samples[j][1], m.samples[j][0]); err == nil && vm != nil {
				got = "?" + vm.Name
				for _, m2 := range r.u.methods {
					if r.u.full(m2) == vm.Name {
						got = strconv.Itoa(m2.id)
					}
				}
			}
			ks = append(ks, fmt.Sprintf("%d>%s", k, got))
		}
		live = append(live, fmt.Sprintf("%d=%s", m.id, strings.Join(ks, ".")))
	}
	for _, b := range r.backends {
		vc, ok := conns[b.cc.Target()]
		if !ok {
			continue
		}
		var ms []string
		for _, full := range vc.Methods {
			for _, m := range r.u.methods {
				if r.u.full(m) == full {
					ms = append(ms, strconv.Itoa(m.id))
				}
			}
		}
		hv, ok := r.hashes[vc.Hash]
		hvs := strconv.Itoa(hv)
		if !ok {
			hvs = "?" + vc.Hash[:8]
		}
		cn = append(cn, fmt.Sprintf("%d=%s:%s", b.idx+1, hvs, strings.Join(ms, ".")))
	}
	return strings.Join(hs, ";") + "#" + strings.Join(cn, ";") + "#" + strings.Join(live, ";")
}

func b2i(b bool) int {
	if b {
		return 1
	}
	return 0
}

func without(l []string, o string) []string {
	var out []string
	for _, x := range l {
		if x != o {
			out = append(out, x)
		}
	}
	return out
}

func (r *regRun) doOp(kind string, arg int, arg2 int) {
	ctx, cancel := context.WithTimeout(context.Background(), 5*time.Second)
	defer cancel()
	var res, op string
	var pn interface{}
	if r.stuck {
		return // an earlier writer call of this history never returned: nothing more can be called
	}
	returned := make(chan struct{})
	go func() {
		defer close(returned)
		defer func() {
			if p := recover(); p != nil {
				pn = p
			}
		}()
		switch kind {
		case "S":
			svc := r.u.svcs[arg]
			op = "S " + r.u.mspecs(1<<arg)
			err, p := r.u.fx.registerOneOn(r.mux, svc)
			if p != nil {
				panic(p)
			}
			res = "ok"
			if err != nil {
				res = "err"
			} else {
				for _, m := range r.u.bySvc(svc) {
					r.live[m.id] = append(r.live[m.id], "L")
				}
			}
		case "C":
			b := r.backends[arg]
			b.mask.Store(int64(arg2))
			op = fmt.Sprintf("C %d %d %s", arg+1, arg2, r.u.mspecs(arg2))
			err := r.mux.RegisterConn(ctx, b.cc)
			res = "ok"
			if err != nil {
				res = "err"
				r.lastErr = err.Error()
			} else {
				cno := strconv.Itoa(arg + 1)
				if old, ok := r.reg[arg+1]; !ok || old != arg2 {
					for id := range r.live {
						r.live[id] = without(r.live[id], cno)
					}
					for i, svc := range r.u.svcs {
						if arg2&(1<<i) != 0 {
							for _, m := range r.u.bySvc(svc) {
								r.live[m.id] = append(r.live[m.id], cno)
							}
						}
					}
					r.reg[arg+1] = arg2
				}
				if vc, ok := r.mux.VerifSnapshot().Conns()[b.cc.Target()]; ok {
					if _, seen := r.hashes[vc.Hash]; !seen {
						r.hashes[vc.Hash] = arg2
					}
				}
			}
		case "D":
			var cc *grpc.ClientConn
			if arg < len(r.backends) {
				cc = r.backends[arg].cc
				op = fmt.Sprintf("D %d", arg+1)
			} else {
				cc = r.unknown
				op = "D 9"
			}
			ok := r.mux.DropConn(ctx, cc)
			res = strconv.FormatBool(ok)
			_, was := r.reg[arg+1]
			if ok != was {
				r.c.SpecFail("registry", r.hist+" | "+op, "DropConn = "+res, strconv.FormatBool(was), "C11/drop-return", "DropConn's return value does not say whether the connection was registered")
			}
			if ok {
				cno := strconv.Itoa(arg + 1)
				for id := range r.live {
					r.live[id] = without(r.live[id], cno)
				}
				delete(r.reg, arg+1)
			}
		}
	}()
	select {
	case <-returned:
	case <-time.After(8 * time.Second):
		r.stuck = true
		r.c.SpecFail("registry", r.hist+" | "+kind+" "+strconv.Itoa(arg+1), "the call has not returned after 8 s", "a return value", "C11/writer-call-never-returns", "a registration / removal call blocks forever (a lock left held by an earlier call)")
		return
	}
	r.hist += " | " + op
	if pn != nil {
		r.c.SpecFail("registry", r.hist, fmt.Sprint("panic: ", pn), "a return value", "C11/registration-panic", "a registration call panics")
		res = "panic"
	}
	r.ops = append(r.ops, op)
	r.impl = append(r.impl, res+"#"+r.implState())
}

// registerOneOn registers one service of the fixture's descriptors on another mux.
func (fx *Fixture) registerOneOn(mux *larking.Mux, name string) (err error, panicked interface{}) {
	for _, sd := range fx.ServiceDescs() {
		if sd.ServiceName != fxPkg+"."+name {
			continue
		}
		func() {
			defer func() {
				if r := recover(); r != nil {
					panicked = r
				}
			}()
			err = mux.VerifRegisterService(sd, nil)
		}()
	}
	return
}

// probe sends requests for every method and checks who answers against the bookkeeping.
func (r *regRun) probe(rounds int) {
	tagOf := func(o string) string {
		if o == "L" {
			return "local"
		}
		n, _ := strconv.Atoi(o)
		return "b" + strconv.Itoa(n-1)
	}
	for _, m := range r.u.methods {
		own := map[string]bool{}
		for _, o := range r.live[m.id] {
			own[tagOf(o)] = true
		}
		// a route claimed by two methods (key 1: M1 and M5) belongs to whichever is registered;
		// both at once is impossible (the second registration fails with a duplicate rule).
		shared := map[string]bool{}
		for _, m2 := range r.u.methods {
			if m2.id == 1 || m2.id == 5 || m2.id == 9 {
				for _, o := range r.live[m2.id] {
					shared[tagOf(o)] = true
				}
			}
		}
		if b2i(len(r.live[1]) > 0)+b2i(len(r.live[5]) > 0)+b2i(len(r.live[9]) > 0) > 1 {
			r.c.SpecFail("registry", r.hist, fmt.Sprintf("methods claiming one route live together: 1:%v 5:%v 9:%v", r.live[1], r.live[5], r.live[9]), "the second registration fails", "C11/conflicting-both-live", "two methods bound to the same route are both registered")
		}
		allowed := own
		check := func(via string, code int, tag string, pn interface{}, body string) {
			in := fmt.Sprintf("%s ; then %s for method %d (live: %v)", r.hist, via, m.id, r.live[m.id])
			r.c.Eval("dispatch", in, len(r.ops) > 1)
			switch {
			case pn != nil:
				key := "C11/dispatch-panic"
				if strings.Contains(fmt.Sprint(pn), "does not belong to this message") || strings.Contains(fmt.Sprint(pn), "mismatching field") {
					key = "C11/foreign-descriptor-panic"
				}
				r.c.SpecFail("dispatch", in, fmt.Sprint("panic: ", pn), "an answer", key, "a request panics the mux")
			case len(allowed) == 0:
				if code == 200 {
					r.c.SpecFail("dispatch", in, fmt.Sprintf("200 from %q", tag), "Unimplemented / NotFound", "C11/dead-method-served", "a method without a live backend is served (a dropped or failed registration still receives requests)")
				} else if code != 404 && code != 501 {
					r.c.SpecFail("dispatch", in, fmt.Sprintf("%d %s", code, body), "404 / 501", "C11/dead-method-status", "a method without a live backend is not answered Unimplemented / NotFound")
				}
			default:
				if code != 200 {
					r.c.SpecFail("dispatch", in, fmt.Sprintf("%d %s", code, body), "200 from one of the live backends", "C11/live-method-refused", "a method with a live backend is reported unimplemented / not found")
				} else if !allowed[tag] {
					r.c.SpecFail("dispatch", in, fmt.Sprintf("answered by %q", tag), "one of the live backends", "C11/wrong-backend", "a request was delivered to a backend that is not currently registered for the method")
				}
			}
		}
		for i := 0; i < rounds; i++ {
			for j := range m.keys {
				verb, path := m.samples[j][0], m.samples[j][1]
				allowed = own
				if m.keys[j] == 1 {
					allowed = shared
				}
				var req = httptest.NewRequest(verb, path, nil)
				if verb == "POST" {
					if i%2 == 1 {
						path += "?name=q&nested.n=5" // query parameters resolve through the bound rule's descriptors
					}
					req = httptest.NewRequest(verb, path, bytes.NewReader([]byte("{}")))
					req.Header.Set("Content-Type", "application/json")
				}
				rec, pn := serveOn(r.mux, req)
				tag := ""
				if pn == nil && rec.Code == 200 {
					out := r.u.fx.NewMsg("Reply")
					if err := protojson.Unmarshal(rec.Body.Bytes(), out); err == nil {
						tag = out.Get(out.Descriptor().Fields().ByName("text")).String()
					}
				}
				check(verb+" "+path, rec.Code, tag, pn, string(trunc(rec.Body.Bytes(), 100)))
			}
			// gRPC entry
			allowed = own
			if r.gcc != nil {
				ctx, cancel := context.WithTimeout(context.Background(), 3*time.Second)
				in, out := r.u.fx.NewMsg("Req"), r.u.fx.NewMsg("Reply")
				err := r.gcc.Invoke(ctx, r.u.full(m), in, out)
				cancel()
				code := 200
				switch status.Code(err) {
				case codes.OK:
				case codes.Unimplemented:
					code = 501
				case codes.NotFound:
					code = 404
				default:
					code = 500
				}
				check("gRPC "+r.u.full(m), code, out.Get(out.Descriptor().Fields().ByName("text")).String(), nil, fmt.Sprint(err))
			}
		}
	}
}

func runC11(c *Ctx) {
	c.Rule("random histories of RegisterService / RegisterConn / DropConn over 6 services (10 methods, one of them streaming; annotated routes that share one trie node holding a literal and four sorted variables, a deep wildcard, additional bindings, two services claiming the same route), 4 real gRPC backends with server reflection whose advertised descriptor set can change between calls (unchanged re-registration, changed re-registration, registrations that fail with a duplicate rule), an unknown connection, local registrations; after every call the published state (handler owners per method in order, connection table, where every live route leads) is compared with the Lean state machine, and every method is probed on every one of its routes and over gRPC: the answering backend must be live, a method with a live backend answers 200, one without 404/501. Non-trivial: histories of at least two calls; distinct by history+probe.")
	u, err := newRegUniverse()
	if err != nil {
		c.SpecFail("fixture", "c11", err.Error(), "universe", "C11/fixture", "fixture")
		return
	}
	var backends []*regBackend
	for i := 0; i < 4; i++ {
		b, err := newRegBackend(u, i)
		if err != nil {
			c.SpecFail("fixture", "c11 backend", err.Error(), "backend", "C11/fixture", "fixture")
			return
		}
		defer b.close()
		backends = append(backends, b)
	}
	// a connection that is never registered
	ub, err := newRegBackend(u, 8)
	if err != nil {
		return
	}
	defer ub.close()

	c11TrieDel(c)
	masks := []int{1, 2, 3, 4, 8, 16, 17, 18, 24, 9, 10, 6, 5, 15, 11, 27, 31, 26, 19, 32, 34, 33, 48, 42}
	nh := c.N(30, 400)
	for h := 0; h < nh; h++ {
		mux, err := larking.NewMux(larking.FilesOption(u.fx.Files), larking.TypesOption(u.fx.Types))
		if err != nil {
			c.SpecFail("fixture", "mux", err.Error(), "mux", "C11/fixture", "fixture")
			return
		}
		r := &regRun{c: c, u: u, backends: backends, unknown: ub.cc, mux: mux, live: map[int][]string{}, reg: map[int]int{}, hashes: map[string]int{}}
		withGRPC := h%5 == 0
		var srvClose func()
		if withGRPC {
			srv, err := larking.NewServer(mux)
			if err == nil {
				lis, err := net.Listen("tcp", "127.0.0.1:0")
				if err == nil {
					go srv.Serve(lis) //nolint
					r.gcc, _ = grpc.NewClient(lis.Addr().String(), grpc.WithTransportCredentials(insecure.NewCredentials()))
					srvClose = func() { r.gcc.Close(); srv.Close() }
				}
			}
		}
		n := 4 + c.Rng.Intn(10)
		// a few fixed scenarios first
		scen := [][3]interface{}{}
		switch h {
		case 0: // register, re-register unchanged, drop
			scen = [][3]interface{}{{"C", 0, 1}, {"C", 0, 1}, {"D", 0, 0}, {"D", 0, 0}}
		case 1: // two backends for one service, drop one
			scen = [][3]interface{}{{"C", 0, 3}, {"C", 1, 3}, {"D", 0, 0}, {"D", 1, 0}}
		case 2: // local + conn, drop conn
			scen = [][3]interface{}{{"S", 0, 0}, {"C", 0, 31 &^ 4}, {"D", 0, 0}}
		case 3: // conflicting registration fails and changes nothing
			scen = [][3]interface{}{{"C", 0, 1}, {"C", 1, 4}, {"S", 2, 0}, {"D", 0, 0}, {"C", 1, 4}}
		case 4: // changed re-registration
			scen = [][3]interface{}{{"C", 0, 3}, {"C", 0, 2}, {"C", 0, 10}, {"D", 0, 0}}
		case 5: // drop then register again
			scen = [][3]interface{}{{"C", 0, 9}, {"D", 0, 0}, {"C", 0, 9}, {"C", 1, 8}, {"D", 0, 0}}
		case 6: // twins: drop one, register it again, drop the other — the first must serve
			scen = [][3]interface{}{{"C", 0, 3}, {"C", 1, 3}, {"D", 0, 0}, {"C", 0, 3}, {"D", 1, 0}, {"D", 0, 0}}
		case 7: // register, drop, register again (same conn, another conn, a local service): every route comes back
			scen = [][3]interface{}{{"C", 0, 27}, {"D", 0, 0}, {"C", 0, 27}, {"D", 0, 0}, {"C", 1, 27}, {"D", 1, 0}, {"S", 0, 0}, {"S", 1, 0}}
		case 8: // three twins dropped in registration order and in reverse
			scen = [][3]interface{}{{"C", 0, 9}, {"C", 1, 9}, {"C", 2, 9}, {"D", 0, 0}, {"D", 1, 0}, {"C", 0, 9}, {"D", 2, 0}, {"D", 0, 0}}
		case 9: // a local service next to a twin connection
			scen = [][3]interface{}{{"S", 0, 0}, {"C", 0, 1}, {"D", 0, 0}, {"C", 0, 1}, {"C", 1, 1}, {"D", 0, 0}, {"D", 1, 0}}
		}
		for i := 0; i < n || i < len(scen); i++ {
			if i < len(scen) {
				r.doOp(scen[i][0].(string), scen[i][1].(int), scen[i][2].(int))
			} else {
				switch x := c.Rng.Intn(20); {
				case x < 2:
					r.doOp("S", c.Rng.Intn(6), 0)
				case x < 11:
					b := c.Rng.Intn(4)
					mask := masks[c.Rng.Intn(len(masks))]
					if old, ok := r.reg[b+1]; ok && c.Rng.Intn(3) == 0 {
						mask = old // unchanged
					}
					r.doOp("C", b, mask)
				case x < 19:
					b := c.Rng.Intn(4)
					if _, ok := r.reg[b+1]; !ok && c.Rng.Intn(4) > 0 {
						for k := 1; k <= 4; k++ { // prefer a registered connection
							if _, ok := r.reg[(k+b)%4+1]; ok {
								b = (k + b) % 4
								break
							}
						}
					}
					r.doOp("D", b, 0)
				default:
					r.doOp("D", 8, 0)
				}
			}
			if r.stuck {
				break
			}
			c.Class("op:" + r.ops[len(r.ops)-1][:1] + ":" + strings.SplitN(r.impl[len(r.impl)-1], "#", 2)[0])
			r.probe(c.N(2, 3))
		}
		if srvClose != nil {
			srvClose()
		}
		// the whole history against the model
		line := join("registry", strings.Join(r.ops, "|"))
		model := c.Drv.Ask(line)
		c.res.Corresponded++
		implS := strings.Join(r.impl, "|")
		if model != implS {
			// locate the first differing call
			ms, is := strings.Split(model, "|"), strings.Split(implS, "|")
			at := 0
			for at < len(ms) && at < len(is) && ms[at] == is[at] {
				at++
			}
			c.res.NDisagree++
			if len(c.res.Disagree) < 25 {
				mi, ii := "<none>", "<none>"
				if at < len(ms) {
					mi = ms[at]
				}
				if at < len(is) {
					ii = is[at]
				}
				c.res.Disagree = append(c.res.Disagree, Case{Kind: "registry", Input: line + "  (first difference after call " + strconv.Itoa(at+1) + "; last error: " + r.lastErr + ")", Impl: ii, Model: mi})
			}
		}
	}
	var keys []string
	for k := range c.res.Classes {
		keys = append(keys, k)
	}
	sort.Strings(keys)
}
