package main

import (
	"bufio"
	"fmt"
	"io"
	"os/exec"
	"strings"
)

// Driver is the compiled Lean model behind a line protocol.
type Driver struct {
	cmd *exec.Cmd
	in  io.WriteCloser
	out *bufio.Reader
}

func StartDriver(path string) (*Driver, error) {
	cmd := exec.Command(path)
	in, err := cmd.StdinPipe()
	if err != nil {
		return nil, err
	}
	out, err := cmd.StdoutPipe()
	if err != nil {
		return nil, err
	}
	if err := cmd.Start(); err != nil {
		return nil, err
	}
	return &Driver{cmd: cmd, in: in, out: bufio.NewReaderSize(out, 1<<20)}, nil
}

func (d *Driver) Ask(line string) string {
	if d == nil {
		return "driver-unavailable"
	}
	if strings.ContainsAny(line, "\n\r") {
		return "driver-error: newline in request"
	}
	if _, err := io.WriteString(d.in, line+"\n"); err != nil {
		return "driver-error: " + err.Error()
	}
	resp, err := d.out.ReadString('\n')
	if err != nil {
		return "driver-error: " + err.Error()
	}
	return strings.TrimRight(resp, "\n")
}

func (d *Driver) Close() {
	if d == nil {
		return
	}
	d.in.Close()
	if err := d.cmd.Wait(); err != nil {
		fmt.Println("driver exit:", err)
	}
}
