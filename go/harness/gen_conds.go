package main

import (
	"fmt"
	"go/ast"
	"path/filepath"
	"sort"
	"strings"
)

func init() { genSteps = append(genSteps, genConds) }

// functions whose control skeleton the hand-written model was built against.
var skeletonFuncs = []string{
	"HTTPStatusCode", "WSStatusCode", "encodeGrpcMessage", "decodeTimeout", "timeoutUnit",
	"decodeBinHeader", "newIncomingContext", "setOutgoingHeader", "setOutgoingTrailer",
	"growcap", "CodecProto.ReadNext", "CodecProto.WriteNext", "CodecJSON.ReadNext", "CodecJSON.WriteNext",
	"codecHTTPBody.ReadNext", "muxOptions.readAll", "muxOptions.writeAll",
	"streamHTTP.readMsg", "streamHTTP.RecvMsg", "streamHTTP.decodeRequestArgs", "streamHTTP.writeMsg", "streamHTTP.SendMsg",
	"streamGRPC.RecvMsg", "streamGRPC.SendMsg", "streamWS.RecvMsg", "streamWS.SendMsg",
	"webWriter.writeTrailer", "webWriter.flushWithTrailer", "webWriter.seeHeaders",
	"variable.index", "path.search", "path.match", "path.addRule", "path.addVariable", "path.addPath", "path.delRule", "path.clone",
	"lexSegment", "lexSegments", "lexVariable", "lexFieldPath", "lexTemplate", "lexPath", "lexPathSegment", "lexVerb", "lexIdent", "lexLiteral",
	"lexer.emit", "isIdent", "isLiteral", "isPath",
	"ruleSelector.getRules", "ruleSelector.setRules",
	"parseAccept", "expectQuality", "negotiateContentType", "negotiateContentEncoding",
	"state.clone", "state.appendHandler", "state.removeHandler", "state.pickMethodHandler",
	"Mux.registerService", "Mux.RegisterConn", "Mux.DropConn", "Mux.ServeHTTP", "Mux.serveHTTP", "Mux.serveGRPC", "Mux.serveGRPCWeb", "Mux.encError",
	"params.set", "method.parseQueryParams", "fieldPath", "mutablePath", "ownField", "NewServer", "createConnHandler",
	"parseParam", "quote", "streamHTTP.getCodec", "Mux.match",
	"state.addConnHandler", "state.processFile", "path.alive", "Mux.loadState", "Mux.storeState",
	"gzipReader.Read", "gzipWriter.Close", "CompressorGzip.Compress", "CompressorGzip.Decompress", "streamGRPC.compress", "streamGRPC.decompress",
	"streamHTTP.SendHeader", "streamGRPC.SendHeader", "muxOptions.unary", "muxOptions.stream", "inPayload", "outPayload",
	"isStreamError", "HTTPHandlerOption", "MuxHandleOption", "NewServer", "Mux.ServeHTTP",
	"AddHealthz", "TLSCredsOption", "NewMux",
	"webWriter.Write", "webWriter.WriteHeader", "webWriter.Flush", "newWebWriter", "isWebRequest",
	"AsHTTPBodyReader", "AsHTTPBodyWriter", "streamGRPC.begin", "streamGRPC.close", "streamGRPC.isDone",
}

func leanIdent(fn string) string {
	return strings.NewReplacer(".", "_").Replace(fn)
}

// skeleton lists, in source order, every branching condition, loop header and
// return/panic statement of fn (rendered from the AST).
func skeleton(g *genCtx, fd *ast.FuncDecl) (conds []string, sites []string) {
	// the signature first: receiver (by value or by pointer matters), parameters, results
	sig := "func "
	if fd.Recv != nil && len(fd.Recv.List) == 1 {
		sig += "(" + nodeSrc(g, fd.Recv.List[0].Type) + ") "
	}
	sig += fd.Name.Name + strings.TrimPrefix(nodeSrc(g, fd.Type), "func")
	conds = append(conds, sig)
	ast.Inspect(fd.Body, func(n ast.Node) bool {
		switch t := n.(type) {
		case *ast.IfStmt:
			s := "if " + nodeSrc(g, t.Cond)
			if t.Init != nil {
				s = "if " + nodeSrc(g, t.Init) + "; " + nodeSrc(g, t.Cond)
			}
			conds = append(conds, s)
		case *ast.ForStmt:
			s := "for"
			if t.Init != nil {
				s += " " + nodeSrc(g, t.Init) + ";"
			}
			if t.Cond != nil {
				s += " " + nodeSrc(g, t.Cond)
			}
			if t.Post != nil {
				s += "; " + nodeSrc(g, t.Post)
			}
			conds = append(conds, s)
		case *ast.RangeStmt:
			conds = append(conds, "range "+nodeSrc(g, t.X))
		case *ast.SwitchStmt:
			s := "switch"
			if t.Tag != nil {
				s += " " + nodeSrc(g, t.Tag)
			}
			conds = append(conds, s)
		case *ast.TypeSwitchStmt:
			conds = append(conds, "typeswitch "+nodeSrc(g, t.Assign))
		case *ast.CaseClause:
			var es []string
			for _, e := range t.List {
				es = append(es, nodeSrc(g, e))
			}
			if len(es) == 0 {
				conds = append(conds, "default")
			} else {
				conds = append(conds, "case "+strings.Join(es, ", "))
			}
		case *ast.ReturnStmt:
			var es []string
			for _, e := range t.Results {
				es = append(es, nodeSrc(g, e))
			}
			conds = append(conds, "return "+strings.Join(es, ", "))
		case *ast.GoStmt:
			conds = append(conds, "go")
		case *ast.DeferStmt:
			conds = append(conds, "defer "+nodeSrc(g, t.Call))
		case *ast.IndexExpr:
			sites = append(sites, "index "+nodeSrc(g, t))
		case *ast.SliceExpr:
			sites = append(sites, "slice "+nodeSrc(g, t))
		case *ast.TypeAssertExpr:
			if t.Type != nil {
				sites = append(sites, "assert "+nodeSrc(g, t))
			}
		case *ast.CallExpr:
			if id, ok := t.Fun.(*ast.Ident); ok && id.Name == "panic" {
				sites = append(sites, "panic "+nodeSrc(g, t))
			}
		}
		return true
	})
	for i := range conds {
		conds[i] = strings.Join(strings.Fields(conds[i]), " ")
	}
	for i := range sites {
		sites[i] = strings.Join(strings.Fields(sites[i]), " ")
	}
	return
}

// simpleStmts renders the body of fn — every statement in source order with its block
// structure — as the lines of the pretty-printed body (go/printer normalises spacing; comments
// are not part of the printed node).
func simpleStmts(g *genCtx, fd *ast.FuncDecl) (out []string) {
	for _, ln := range strings.Split(nodeSrc(g, fd.Body), "\n") {
		ln = strings.Join(strings.Fields(ln), " ")
		if ln != "" {
			out = append(out, ln)
		}
	}
	return
}

var stmtFuncs = []string{
	"state.clone", "path.clone", "state.removeHandler", "state.appendHandler", "state.addConnHandler", "path.delRule",
	"Mux.registerService", "Mux.RegisterConn", "Mux.DropConn", "Mux.loadState", "Mux.storeState",
	"gzipReader.Read", "gzipWriter.Close", "CompressorGzip.Compress", "CompressorGzip.Decompress", "streamGRPC.compress", "streamGRPC.decompress",
	"streamGRPC.RecvMsg", "streamGRPC.SendMsg", "streamHTTP.readMsg", "streamHTTP.decodeRequestArgs", "streamHTTP.SendMsg", "createConnHandler",
	"Mux.serveHTTP", "Mux.serveGRPC", "streamHTTP.RecvMsg", "streamHTTP.SendHeader", "streamGRPC.SendHeader", "streamWS.RecvMsg", "streamWS.SendMsg",
	"muxOptions.unary", "muxOptions.stream", "inPayload", "outPayload", "isStreamError",
	"HTTPHandlerOption", "MuxHandleOption", "NewServer", "Mux.ServeHTTP",
	"variable.index", "path.search", "path.match", "CodecProto.ReadNext", "CodecJSON.ReadNext", "codecHTTPBody.ReadNext", "params.set",
	"Mux.serveGRPCWeb", "decodeTimeout", "lexPath",
	"AddHealthz", "TLSCredsOption", "NewMux", "ruleSelector.getRules", "ruleSelector.setRules",
	"webWriter.seeHeaders", "webWriter.writeTrailer", "webWriter.flushWithTrailer", "webWriter.Write", "webWriter.WriteHeader",
	"webWriter.Flush", "newWebWriter", "isWebRequest",
	"setOutgoingHeader", "setOutgoingTrailer", "newIncomingContext", "decodeBinHeader", "AsHTTPBodyReader", "AsHTTPBodyWriter",
	"streamGRPC.begin", "streamGRPC.close", "streamGRPC.isDone", "timeoutUnit", "encodeGrpcMessage", "HTTPStatusCode", "WSStatusCode",
	"Mux.encError", "streamHTTP.writeMsg", "streamHTTP.getCodec", "parseParam", "quote", "method.parseQueryParams", "fieldPath", "mutablePath", "ownField",
	"path.addRule", "path.addVariable", "path.addPath", "lexTemplate", "lexSegment", "lexSegments", "lexVariable", "lexFieldPath", "lexVerb",
	"lexPathSegment", "lexIdent", "lexLiteral", "lexer.emit", "isIdent", "isLiteral", "isPath",
	"parseAccept", "expectQuality", "negotiateContentType", "negotiateContentEncoding", "state.pickMethodHandler", "state.processFile", "path.alive", "Mux.match",
	"growcap", "CodecProto.WriteNext", "CodecJSON.WriteNext", "muxOptions.readAll", "muxOptions.writeAll",
}

// writerOrder: the order of lock / load / modify / store / unlock in a writer function
// (a deferred Unlock runs at return, i.e. last).
func writerOrder(g *genCtx, fd *ast.FuncDecl) []string {
	var out []string
	deferred := false
	seen := map[string]bool{}
	add := func(k string) {
		if !seen[k] {
			seen[k] = true
			out = append(out, k)
		}
	}
	ast.Inspect(fd.Body, func(n ast.Node) bool {
		switch t := n.(type) {
		case *ast.DeferStmt:
			if strings.HasSuffix(nodeSrc(g, t.Call.Fun), ".mu.Unlock") {
				deferred = true
				return false
			}
		case *ast.CallExpr:
			fn := nodeSrc(g, t.Fun)
			switch {
			case strings.HasSuffix(fn, ".mu.Lock"):
				add("lock")
			case strings.HasSuffix(fn, ".mu.Unlock"):
				add("unlock")
			case strings.HasSuffix(fn, ".loadState"):
				add("load")
			case strings.HasSuffix(fn, ".storeState"):
				add("store")
			case fn == "s.appendHandler" || fn == "s.addConnHandler" || fn == "s.removeHandler":
				add("modify")
			}
		}
		return true
	})
	if deferred {
		out = append(out, "unlock")
	}
	return out
}

func leanStrListML(xs []string) string {
	if len(xs) == 0 {
		return "[]"
	}
	var sb strings.Builder
	sb.WriteString("[\n")
	for i, x := range xs {
		sb.WriteString("   " + fmt.Sprintf("%q", x))
		if i < len(xs)-1 {
			sb.WriteString(",")
		}
		sb.WriteString("\n")
	}
	sb.WriteString("  ]")
	return sb.String()
}

func genConds(g *genCtx, lean string, facts map[string]interface{}) error {
	var sb strings.Builder
	sb.WriteString(genHeader)
	sb.WriteString("namespace Larking.Gen.Skel\n\n")
	var names []string
	seenName := map[string]bool{}
	for _, n := range skeletonFuncs {
		if !seenName[n] {
			seenName[n] = true
			names = append(names, n)
		}
	}
	sort.Strings(names)
	all := map[string]interface{}{}
	for _, fn := range names {
		fd := g.funcs[fn]
		var conds, sites []string
		if fd == nil {
			conds, sites = []string{"<missing>"}, []string{"<missing>"}
		} else {
			conds, sites = skeleton(g, fd)
		}
		all[fn] = map[string]interface{}{"conds": conds, "sites": sites}
		fmt.Fprintf(&sb, "/-- control skeleton of `%s`. -/\ndef conds_%s : List String := %s\n\n", fn, leanIdent(fn), leanStrListML(conds))
		fmt.Fprintf(&sb, "/-- index / slice / type-assertion / panic sites of `%s`. -/\ndef sites_%s : List String := %s\n\n", fn, leanIdent(fn), leanStrListML(sites))
	}
	seenStmt := map[string]bool{}
	for _, fn := range stmtFuncs {
		if seenStmt[fn] {
			continue
		}
		seenStmt[fn] = true
		var st []string
		if fd := g.funcs[fn]; fd == nil {
			st = []string{"<missing>"}
		} else {
			st = simpleStmts(g, fd)
		}
		fmt.Fprintf(&sb, "/-- every simple statement of `%s`, in source order. -/\ndef stmts_%s : List String := %s\n\n", fn, leanIdent(fn), leanStrListML(st))
	}
	sb.WriteString("/-- order of lock / load / modify / store / unlock in the three writer calls. -/\ndef writerOrder : List (String × List String) := [\n")
	for i, fn := range []string{"Mux.registerService", "Mux.RegisterConn", "Mux.DropConn"} {
		wo := []string{"<missing>"}
		if fd := g.funcs[fn]; fd != nil {
			wo = writerOrder(g, fd)
		}
		qs := make([]string, len(wo))
		for j, w := range wo {
			qs[j] = fmt.Sprintf("%q", w)
		}
		sep := ","
		if i == 2 {
			sep = ""
		}
		fmt.Fprintf(&sb, "  (%q, [%s])%s\n", fn, strings.Join(qs, ", "), sep)
	}
	sb.WriteString("]\n\n")
	// every function that loads the published state, with the number of loads: a request must
	// be resolved against ONE snapshot.
	sb.WriteString("/-- functions (outside the verif hooks) that call loadState, with the number of calls. -/\ndef stateLoads : List (String × Nat) := [\n")
	var loads []string
	var fns []string
	for fn := range g.funcs {
		fns = append(fns, fn)
	}
	sort.Strings(fns)
	for _, fn := range fns {
		if strings.HasPrefix(fn, "Verif") || strings.Contains(fn, ".Verif") {
			continue
		}
		n := 0
		ast.Inspect(g.funcs[fn].Body, func(x ast.Node) bool {
			if c, ok := x.(*ast.CallExpr); ok && strings.HasSuffix(nodeSrc(g, c.Fun), ".loadState") {
				n++
			}
			return true
		})
		if n > 0 {
			loads = append(loads, fmt.Sprintf("  (%q, %d)", fn, n))
		}
	}
	sb.WriteString(strings.Join(loads, ",\n") + "\n]\n\n")
	// every place an interceptor can be entered from: calls of opts.unary / opts.stream and
	// mentions of the raw interceptor fields.
	sb.WriteString("/-- call sites through which a unary / stream interceptor is entered, per function. -/\ndef interceptorSites : List (String × String) := [\n")
	var sites2 []string
	for _, fn := range fns {
		if strings.HasPrefix(fn, "Verif") || strings.Contains(fn, ".Verif") {
			continue
		}
		ast.Inspect(g.funcs[fn].Body, func(x ast.Node) bool {
			switch t := x.(type) {
			case *ast.CallExpr:
				f := nodeSrc(g, t.Fun)
				if f == "opts.unary" || f == "opts.stream" || strings.HasSuffix(f, ".unaryInterceptor") || strings.HasSuffix(f, ".streamInterceptor") || f == "ui" || f == "si" {
					sites2 = append(sites2, fmt.Sprintf("  (%q, %q)", fn, strings.Join(strings.Fields(nodeSrc(g, t)), " ")))
					return true
				}
				for _, a := range t.Args {
					if as := nodeSrc(g, a); strings.HasSuffix(as, ".unaryInterceptor") || strings.HasSuffix(as, ".streamInterceptor") {
						sites2 = append(sites2, fmt.Sprintf("  (%q, %q)", fn, strings.Join(strings.Fields(nodeSrc(g, t)), " ")))
					}
				}
			}
			return true
		})
	}
	sb.WriteString(strings.Join(sites2, ",\n") + "\n]\n\n")
	sb.WriteString("end Larking.Gen.Skel\n")
	facts["skeletons"] = all
	return writeIfChanged(filepath.Join(lean, "Larking/Gen/Skel.lean"), sb.String())
}
