package main

import (
	"fmt"
	"go/ast"
	"path/filepath"
	"sort"
	"strings"
)

func init() { genSteps = append(genSteps, genConds) }

// functions whose control skeleton the hand-written model was built against.
var skeletonFuncs = []string{
	"HTTPStatusCode", "WSStatusCode", "encodeGrpcMessage", "decodeTimeout", "timeoutUnit",
	"decodeBinHeader", "newIncomingContext", "setOutgoingHeader", "setOutgoingTrailer",
	"growcap", "CodecProto.ReadNext", "CodecProto.WriteNext", "CodecJSON.ReadNext", "CodecJSON.WriteNext",
	"codecHTTPBody.ReadNext", "muxOptions.readAll", "muxOptions.writeAll",
	"streamHTTP.readMsg", "streamHTTP.RecvMsg", "streamHTTP.decodeRequestArgs", "streamHTTP.writeMsg", "streamHTTP.SendMsg",
	"streamGRPC.RecvMsg", "streamGRPC.SendMsg", "streamWS.RecvMsg", "streamWS.SendMsg",
	"webWriter.writeTrailer", "webWriter.flushWithTrailer", "webWriter.seeHeaders",
	"variable.index", "path.search", "path.match", "path.addRule", "path.addVariable", "path.addPath", "path.delRule", "path.clone",
	"lexSegment", "lexSegments", "lexVariable", "lexFieldPath", "lexTemplate", "lexPath", "lexPathSegment", "lexVerb", "lexIdent", "lexLiteral",
	"lexer.emit", "isIdent", "isLiteral", "isPath",
	"ruleSelector.getRules", "ruleSelector.setRules",
	"parseAccept", "expectQuality", "negotiateContentType", "negotiateContentEncoding",
	"state.clone", "state.appendHandler", "state.removeHandler", "state.pickMethodHandler",
	"Mux.registerService", "Mux.RegisterConn", "Mux.DropConn", "Mux.ServeHTTP", "Mux.serveHTTP", "Mux.serveGRPC", "Mux.serveGRPCWeb", "Mux.encError",
	"params.set", "method.parseQueryParams", "fieldPath", "NewServer", "createConnHandler",
	"parseParam", "quote", "streamHTTP.getCodec", "Mux.match",
	"state.addConnHandler", "state.processFile", "path.alive", "Mux.loadState", "Mux.storeState",
}

func leanIdent(fn string) string {
	return strings.NewReplacer(".", "_").Replace(fn)
}

// skeleton lists, in source order, every branching condition, loop header and
// return/panic statement of fn (rendered from the AST).
func skeleton(g *genCtx, fd *ast.FuncDecl) (conds []string, sites []string) {
	ast.Inspect(fd.Body, func(n ast.Node) bool {
		switch t := n.(type) {
		case *ast.IfStmt:
			s := "if " + nodeSrc(g, t.Cond)
			if t.Init != nil {
				s = "if " + nodeSrc(g, t.Init) + "; " + nodeSrc(g, t.Cond)
			}
			conds = append(conds, s)
		case *ast.ForStmt:
			s := "for"
			if t.Init != nil {
				s += " " + nodeSrc(g, t.Init) + ";"
			}
			if t.Cond != nil {
				s += " " + nodeSrc(g, t.Cond)
			}
			if t.Post != nil {
				s += "; " + nodeSrc(g, t.Post)
			}
			conds = append(conds, s)
		case *ast.RangeStmt:
			conds = append(conds, "range "+nodeSrc(g, t.X))
		case *ast.SwitchStmt:
			s := "switch"
			if t.Tag != nil {
				s += " " + nodeSrc(g, t.Tag)
			}
			conds = append(conds, s)
		case *ast.TypeSwitchStmt:
			conds = append(conds, "typeswitch "+nodeSrc(g, t.Assign))
		case *ast.CaseClause:
			var es []string
			for _, e := range t.List {
				es = append(es, nodeSrc(g, e))
			}
			if len(es) == 0 {
				conds = append(conds, "default")
			} else {
				conds = append(conds, "case "+strings.Join(es, ", "))
			}
		case *ast.ReturnStmt:
			var es []string
			for _, e := range t.Results {
				es = append(es, nodeSrc(g, e))
			}
			conds = append(conds, "return "+strings.Join(es, ", "))
		case *ast.GoStmt:
			conds = append(conds, "go")
		case *ast.DeferStmt:
			conds = append(conds, "defer "+nodeSrc(g, t.Call))
		case *ast.IndexExpr:
			sites = append(sites, "index "+nodeSrc(g, t))
		case *ast.SliceExpr:
			sites = append(sites, "slice "+nodeSrc(g, t))
		case *ast.TypeAssertExpr:
			if t.Type != nil {
				sites = append(sites, "assert "+nodeSrc(g, t))
			}
		case *ast.CallExpr:
			if id, ok := t.Fun.(*ast.Ident); ok && id.Name == "panic" {
				sites = append(sites, "panic "+nodeSrc(g, t))
			}
		}
		return true
	})
	for i := range conds {
		conds[i] = strings.Join(strings.Fields(conds[i]), " ")
	}
	for i := range sites {
		sites[i] = strings.Join(strings.Fields(sites[i]), " ")
	}
	return
}

func leanStrListML(xs []string) string {
	if len(xs) == 0 {
		return "[]"
	}
	var sb strings.Builder
	sb.WriteString("[\n")
	for i, x := range xs {
		sb.WriteString("   " + fmt.Sprintf("%q", x))
		if i < len(xs)-1 {
			sb.WriteString(",")
		}
		sb.WriteString("\n")
	}
	sb.WriteString("  ]")
	return sb.String()
}

func genConds(g *genCtx, lean string, facts map[string]interface{}) error {
	var sb strings.Builder
	sb.WriteString(genHeader)
	sb.WriteString("namespace Larking.Gen.Skel\n\n")
	names := append([]string(nil), skeletonFuncs...)
	sort.Strings(names)
	all := map[string]interface{}{}
	for _, fn := range names {
		fd := g.funcs[fn]
		var conds, sites []string
		if fd == nil {
			conds, sites = []string{"<missing>"}, []string{"<missing>"}
		} else {
			conds, sites = skeleton(g, fd)
		}
		all[fn] = map[string]interface{}{"conds": conds, "sites": sites}
		fmt.Fprintf(&sb, "/-- control skeleton of `%s`. -/\ndef conds_%s : List String := %s\n\n", fn, leanIdent(fn), leanStrListML(conds))
		fmt.Fprintf(&sb, "/-- index / slice / type-assertion / panic sites of `%s`. -/\ndef sites_%s : List String := %s\n\n", fn, leanIdent(fn), leanStrListML(sites))
	}
	sb.WriteString("end Larking.Gen.Skel\n")
	facts["skeletons"] = all
	return writeIfChanged(filepath.Join(lean, "Larking/Gen/Skel.lean"), sb.String())
}
