package main

import (
	"bytes"
	"compress/gzip"
	"context"
	"encoding/base64"
	"encoding/json"
	"fmt"
	"io"
	"math"
	"net/http/httptest"
	"net/url"
	"strconv"
	"strings"
	"time"

	gws "github.com/gobwas/ws"
	"github.com/gobwas/ws/wsutil"
	"google.golang.org/genproto/googleapis/api/annotations"
	"google.golang.org/grpc"
	"google.golang.org/protobuf/encoding/protojson"
	"google.golang.org/protobuf/proto"
	"google.golang.org/protobuf/reflect/protoreflect"
	"google.golang.org/protobuf/types/dynamicpb"
	"google.golang.org/protobuf/types/known/durationpb"
	"google.golang.org/protobuf/types/known/fieldmaskpb"
	"google.golang.org/protobuf/types/known/timestamppb"
	"google.golang.org/protobuf/types/known/wrapperspb"
	"larking.io/larking"
)

func init() {
	props["C03"] = runC03
	props["C07"] = runC07
}

func implParse(fx *Fixture, field string, raw string) (protoreflect.Value, bool) {
	fds := larking.VerifFieldPath(fx.MsgDesc("Req").Fields(), strings.Split(field, ".")...)
	v, err := larking.VerifParseParam(fds, []byte(raw))
	return v, err == nil
}

// paramFx: one unary method with the given rule, recording the request it receives.
type paramFx struct {
	fx  *Fixture
	got *dynamicpb.Message
}

func newParamFx(rules map[string]*annotations.HttpRule) (*paramFx, error) {
	p := &paramFx{}
	h := func(ctx context.Context, in *dynamicpb.Message) (proto.Message, error) {
		// what the handler holds is what it can pass on: the message is observed through its
		// wire form (fields smuggled in as unknown bytes are decoded like any peer would)
		p.got = in
		if b, err := proto.Marshal(in); err == nil {
			m2 := dynamicpb.NewMessage(in.Descriptor())
			if proto.Unmarshal(b, m2) == nil {
				p.got = m2
			}
		}
		return dynamicpb.NewMessage(in.Descriptor().ParentFile().Messages().ByName("Reply")), nil
	}
	var ms []*MethodSpec
	for name, r := range rules {
		ms = append(ms, &MethodSpec{Name: name, In: "Req", Out: "Reply", Unary: h, Rule: r})
	}
	fx, err := NewFixture(ms, nil)
	if err != nil {
		return nil, err
	}
	if fx.RegErr != nil || fx.RegPanic != nil {
		return nil, fmt.Errorf("registration: %v %v", fx.RegErr, fx.RegPanic)
	}
	p.fx = fx
	return p, nil
}

var intFields = []struct {
	name   string
	signed bool
	bits   int
}{{"i32", true, 32}, {"s32", true, 32}, {"sf32", true, 32}, {"i64", true, 64}, {"s64", true, 64}, {"sf64", true, 64}, {"u32", false, 32}, {"f32", false, 32}, {"u64", false, 64}, {"f64", false, 64}}

func runC03(c *Ctx) {
	c.Rule("function level: parseParam on generated text for every integer family (boundaries, +-1 around each range end, leading zeros, signs, fractions, exponents, quotes, whitespace, null), bool, bytes (every length 0..9 and longer in all four base64 forms, plus junk), enum names/numbers; API level: generated request messages (all scalar kinds incl. boundary values, enums, bytes, repeated scalars, nested messages, oneofs, wrappers, Timestamp/Duration/FieldMask) split into path variables, query parameters and body under three rule shapes (no body, body '*', body field), JSON and protobuf bodies, with and without gzip and chunked transfer, then compared with proto.Equal against what the handler received. Non-trivial: non-empty text / non-empty message; distinct by kind+input.")
	c.Assume("float/double and protojson-parsed well-known types are library parameters: checked by the round trip only")
	pf, err := newParamFx(map[string]*annotations.HttpRule{
		"Query": getRule("/c03/q/{name}"),
		"Star":  postRule("/c03/star/{name}/{nested.s}", "*"),
		"Field": postRule("/c03/field/{name}", "nested"),
		// literal siblings of the variables under OTHER verbs: a value equal to the literal still belongs to the variable
		"LitQ": {Pattern: &annotations.HttpRule_Delete{Delete: "/c03/q/latest"}},
		"LitS": {Pattern: &annotations.HttpRule_Put{Put: "/c03/star/latest/deep"}, Body: "*"},
		"LitF": {Pattern: &annotations.HttpRule_Delete{Delete: "/c03/field/latest"}},
		// another method bound with kind "*" (and another body mapping) on the same templates: a request
		// with the rule's own verb is still decoded under that rule
		"AnyF": customRule("*", "/c03/field/{name}", "*"),
		"AnyS": customRule("*", "/c03/star/{name}/{nested.s}", "nested"),
		"AnyQ": customRule("*", "/c03/q/{name}", "*"),
	})
	if err != nil {
		c.SpecFail("fixture", "c03", err.Error(), "registered", "C03/fixture", "fixture registration failed")
		return
	}
	fx := pf.fx

	// ---------- integers
	texts := []string{"0", "-0", "1", "-1", "7", "42", "007", "+1", "1.0", "1e3", "1E3", "0x10", "\"1\"", " 1", "1 ", "\t1\n", "null", " null ", "nul", "true", "", "-", "--1", "1-", "1_000", "١", "2147483647", "2147483648", "-2147483648", "-2147483649", "4294967295", "4294967296", "9223372036854775807", "9223372036854775808", "-9223372036854775808", "-9223372036854775809", "18446744073709551615", "18446744073709551616", "99999999999999999999999", "0.0", "-1.5", "1e0", "NaN", "Infinity", "[1]", "{}"}
	for i := 0; i < c.N(300, 6000); i++ {
		n := c.Rng.Int63()
		if c.Rng.Intn(2) == 0 {
			n = n >> uint(c.Rng.Intn(63))
		}
		s := strconv.FormatInt(n, 10)
		if c.Rng.Intn(3) == 0 {
			s = "-" + s
		}
		texts = append(texts, s)
	}
	for _, f := range intFields {
		for _, raw := range texts {
			v, ok := implParse(fx, f.name, raw)
			impl := "err"
			if ok {
				if f.signed {
					impl = "ok " + strconv.FormatInt(v.Int(), 10)
				} else {
					impl = "ok " + strconv.FormatUint(v.Uint(), 10)
				}
			}
			c.Correspond("parseint", join("parseint", map[bool]string{true: "1", false: "0"}[f.signed], strconv.Itoa(f.bits), hexS(raw)), impl, raw != "")
			c.Class("parseint:" + impl[:2])
			// independent oracle: canonical decimal text of an in-range value is accepted with that value;
			// anything accepted must be null or a canonical literal of that value
			if ok {
				core := strings.Trim(raw, " \t\r\n")
				canon := ""
				if f.signed {
					canon = strconv.FormatInt(v.Int(), 10)
				} else {
					canon = strconv.FormatUint(v.Uint(), 10)
				}
				if !(core == canon || (core == "null" && canon == "0") || (core == "-0" && canon == "0")) {
					c.SpecFail("parseint", f.name+" "+strconv.Quote(raw), impl, "rejected", "C03/int/coerced", "text that is not the value's proto3 JSON form is coerced instead of rejected")
				}
			} else if isCanonInt(raw, f.signed, f.bits) {
				c.SpecFail("parseint", f.name+" "+strconv.Quote(raw), impl, "accepted", "C03/int/valid-rejected", "a valid in-range integer text is rejected")
			}
		}
	}
	// ---------- bool
	for _, raw := range []string{"true", "false", "null", " true", "True", "TRUE", "1", "0", "t", "", "\"true\"", "yes", "T", "f", "F", "False", "FALSE", "tRuE", "on", "2", "true ", "nul", "truefalse"} {
		v, ok := implParse(fx, "flag", raw)
		impl := "err"
		if ok {
			impl = "ok " + strconv.FormatBool(v.Bool())
		}
		c.Correspond("parsebool", join("parsebool", hexS(raw)), impl, raw != "")
		// proto3 JSON spells a bool `true` or `false` (null = absent); anything else is not a bool
		core := strings.Trim(raw, " \t\r\n") // surrounding JSON white space: no demand either way
		valid := core == "true" || core == "false" || core == "null"
		if raw != core {
			continue
		}
		if ok && !valid {
			c.SpecFail("parsebool", "flag "+strconv.Quote(raw), impl, "rejected", "C03/bool/coerced", "text that is not a proto3 JSON bool is coerced to a bool")
		} else if !ok && valid {
			c.SpecFail("parsebool", "flag "+strconv.Quote(raw), impl, "accepted", "C03/bool/valid-rejected", "a valid bool text is rejected")
		}
	}
	// ---------- enum: numbers (with and without a declared value), declared names, near misses
	if efd := fx.NewMsg("Req").Descriptor().Fields().ByName("kind"); efd != nil && efd.Enum() != nil {
		var names []string
		declared := map[string]int32{}
		for i := 0; i < efd.Enum().Values().Len(); i++ {
			ev := efd.Enum().Values().Get(i)
			names = append(names, hexS(string(ev.Name()))+":"+strconv.Itoa(int(ev.Number())))
			declared[string(ev.Name())] = int32(ev.Number())
		}
		texts := []string{"0", "1", "2", "-3", "7", "-9", "42", "2147483647", "-2147483648", "2147483648", "-2147483649", "null", " 1", "1 ", "01", "+1", "1.0", "1e0", "\"1\"", "", "0x1", "nul", "NULL"}
		for n := range declared {
			texts = append(texts, n, strings.ToLower(n), n+"X", " "+n, "\""+n+"\"")
		}
		for _, raw := range texts {
			v, ok := implParse(fx, "kind", raw)
			impl := "err"
			if ok {
				impl = "ok " + strconv.Itoa(int(v.Enum()))
			}
			c.Correspond("parseenum", join("parseenum", strings.Join(names, ","), hexS(raw)), impl, raw != "")
			c.Class("parseenum:" + impl[:2])
			// proto3 JSON spells an enum by a declared name or by ANY int32 number (enums are open)
			if n, err := strconv.ParseInt(raw, 10, 32); err == nil && strconv.FormatInt(n, 10) == raw {
				if !ok || int64(v.Enum()) != n {
					c.SpecFail("parseenum", "kind "+strconv.Quote(raw), impl, "ok "+raw, "C03/enum/number-refused", "an int32 enum number (proto3 enums are open) is refused or altered")
				}
			} else if want, isName := declared[raw]; isName {
				if !ok || int32(v.Enum()) != want {
					c.SpecFail("parseenum", "kind "+strconv.Quote(raw), impl, "ok "+strconv.Itoa(int(want)), "C03/enum/name-refused", "a declared enum value name is refused or altered")
				}
			} else if ok && strings.Trim(raw, " \t\r\n") == raw && raw != "null" {
				c.SpecFail("parseenum", "kind "+strconv.Quote(raw), impl, "rejected", "C03/enum/coerced", "text that is neither an int32 literal nor a declared name is coerced to an enum value")
			}
		}
	}
	// ---------- bytes: four encodings x every short length, plus junk
	encs := []*base64.Encoding{base64.StdEncoding, base64.RawStdEncoding, base64.URLEncoding, base64.RawURLEncoding}
	for i := 0; i < c.N(600, 15000); i++ {
		n := i % 10
		if i >= 400 {
			n = c.Rng.Intn(60)
		}
		b := make([]byte, n)
		c.Rng.Read(b)
		if c.Rng.Intn(3) == 0 {
			for j := range b {
				b[j] = []byte{0xfb, 0xff, 0xfe, 0x3e, 0x3f}[c.Rng.Intn(5)] // bytes that produce + / - _
			}
		}
		for _, e := range encs {
			raw := e.EncodeToString(b)
			v, ok := implParse(fx, "data", raw)
			impl := "err"
			if ok {
				impl = "ok " + hexs(v.Bytes())
			}
			c.Correspond("parsebytes", join("parsebytes", hexS(raw)), impl, n > 0)
			if !ok || !bytes.Equal(v.Bytes(), b) {
				c.SpecFail("parsebytes", raw, impl, "ok "+hexs(b), "C03/bytes/roundtrip", "a base64 form of the bytes is not decoded back exactly")
			}
		}
	}
	for i := 0; i < c.N(300, 5000); i++ {
		alpha := "AQz+/=-_ \n9b"
		var sb strings.Builder
		for j, k := 0, c.Rng.Intn(10); j < k; j++ {
			sb.WriteByte(alpha[c.Rng.Intn(len(alpha))])
		}
		raw := sb.String()
		v, ok := implParse(fx, "data", raw)
		impl := "err"
		if ok {
			impl = "ok " + hexs(v.Bytes())
		}
		c.Correspond("parsebytes-junk", join("parsebytes", hexS(raw)), impl, raw != "")
	}
	c03API(c, pf)
}

func isCanonInt(raw string, signed bool, bits int) bool {
	if signed {
		v, err := strconv.ParseInt(raw, 10, bits)
		return err == nil && strconv.FormatInt(v, 10) == raw
	}
	v, err := strconv.ParseUint(raw, 10, bits)
	return err == nil && strconv.FormatUint(v, 10) == raw
}

// genReq builds a random request message; `urlOnly` restricts it to what a URL can carry.
func genReq(c *Ctx, fx *Fixture, urlOnly, nestedInBody bool) *dynamicpb.Message {
	m := fx.NewMsg("Req")
	fs := m.Descriptor().Fields()
	set := func(name string, v protoreflect.Value) { m.Set(fs.ByName(protoreflect.Name(name)), v) }
	pick := func(n int) bool { return c.Rng.Intn(n) == 0 }
	strs := []string{"x", "hello world", "a/b", "é日", "q?&=#%+", "trailing ", "50%", "null", "123", "a,b", "6\"", "\"hi\" he said", "he said \"hi\"", "a\"b", "\"q\"", "\"", "\\", "tab\there", "true", "{}", "[1]", "-1.5e3"}
	i64s := []int64{0, 1, -1, 42, math.MaxInt32, math.MinInt32, math.MaxInt64, math.MinInt64, 1 << 53, -(1 << 40)}
	u64s := []uint64{0, 1, math.MaxUint32, math.MaxUint64, 1 << 63, 12345}
	if pick(2) {
		set("i32", protoreflect.ValueOfInt32(int32(i64s[c.Rng.Intn(6)])))
	}
	if pick(2) {
		set("i64", protoreflect.ValueOfInt64(i64s[c.Rng.Intn(len(i64s))]))
	}
	if pick(3) {
		set("u32", protoreflect.ValueOfUint32(uint32(u64s[c.Rng.Intn(3)])))
	}
	if pick(3) {
		set("u64", protoreflect.ValueOfUint64(u64s[c.Rng.Intn(len(u64s))]))
	}
	if pick(4) {
		set("s32", protoreflect.ValueOfInt32(int32(i64s[c.Rng.Intn(6)])))
		set("s64", protoreflect.ValueOfInt64(i64s[c.Rng.Intn(len(i64s))]))
	}
	if pick(4) {
		set("f32", protoreflect.ValueOfUint32(uint32(u64s[c.Rng.Intn(3)])))
		set("f64", protoreflect.ValueOfUint64(u64s[c.Rng.Intn(len(u64s))]))
		set("sf32", protoreflect.ValueOfInt32(int32(i64s[c.Rng.Intn(6)])))
		set("sf64", protoreflect.ValueOfInt64(i64s[c.Rng.Intn(len(i64s))]))
	}
	if pick(2) {
		set("flag", protoreflect.ValueOfBool(true))
	}
	if pick(2) {
		b := make([]byte, c.Rng.Intn(12))
		c.Rng.Read(b)
		set("data", protoreflect.ValueOfBytes(b))
	}
	if pick(3) {
		set("fl", protoreflect.ValueOfFloat32([]float32{0.5, -1.25, 3.4028235e38, 1e-10, 16777216}[c.Rng.Intn(5)]))
	}
	if pick(3) {
		set("db", protoreflect.ValueOfFloat64([]float64{0.1, -2.5, 1.7976931348623157e308, 5e-324, 1 << 53}[c.Rng.Intn(5)]))
	}
	if pick(3) {
		set("kind", protoreflect.ValueOfEnum([]protoreflect.EnumNumber{1, 2, -3, 7, 2147483647, -9}[c.Rng.Intn(6)])) // proto3 enums are open: 7, MaxInt32, -9 have no declared value
	}
	if pick(3) {
		set("other_name", protoreflect.ValueOfString(strs[c.Rng.Intn(len(strs))]))
	}
	if pick(3) {
		l := m.Mutable(fs.ByName("ri")).List()
		for i, k := 0, 1+c.Rng.Intn(3); i < k; i++ {
			l.Append(protoreflect.ValueOfInt32(int32(c.Rng.Intn(100) - 50)))
		}
	}
	if pick(3) {
		l := m.Mutable(fs.ByName("rs")).List()
		for i, k := 0, 1+c.Rng.Intn(3); i < k; i++ {
			if pick(5) {
				l.Append(protoreflect.ValueOfString("")) // an empty element is an element
				continue
			}
			l.Append(protoreflect.ValueOfString(strs[c.Rng.Intn(len(strs))]))
		}
	}
	if pick(4) {
		l := m.Mutable(fs.ByName("rb")).List()
		for i, k := 0, 1+c.Rng.Intn(2); i < k; i++ {
			b := make([]byte, 1+c.Rng.Intn(5))
			c.Rng.Read(b)
			l.Append(protoreflect.ValueOfBytes(b))
		}
	}
	if pick(3) {
		set("ts", protoreflect.ValueOfMessage((&timestamppb.Timestamp{Seconds: int64(c.Rng.Intn(2000000000)), Nanos: int32(c.Rng.Intn(2)) * 500000000}).ProtoReflect()))
	}
	if pick(3) {
		set("dur", protoreflect.ValueOfMessage((&durationpb.Duration{Seconds: int64(c.Rng.Intn(100000)) - 50000, Nanos: 0}).ProtoReflect()))
	}
	if pick(4) {
		set("fm", protoreflect.ValueOfMessage((&fieldmaskpb.FieldMask{Paths: []string{"a.b", "c"}}).ProtoReflect()))
	}
	if pick(4) {
		set("w64", protoreflect.ValueOfMessage(wrapperspb.Int64(i64s[c.Rng.Intn(len(i64s))]).ProtoReflect()))
	}
	if pick(4) {
		set("wstr", protoreflect.ValueOfMessage(wrapperspb.String(strs[c.Rng.Intn(len(strs))]).ProtoReflect()))
	}
	if pick(5) {
		set("wb", protoreflect.ValueOfMessage(wrapperspb.Bool(true).ProtoReflect()))
		set("wu32", protoreflect.ValueOfMessage(wrapperspb.UInt32(7).ProtoReflect()))
	}
	if pick(4) {
		switch {
		case pick(6):
			set("oa", protoreflect.ValueOfString("")) // a oneof member set to its empty value is set
		case pick(6):
			set("ob", protoreflect.ValueOfInt32(0))
		case pick(2):
			set("oa", protoreflect.ValueOfString(strs[c.Rng.Intn(len(strs))]))
		default:
			set("ob", protoreflect.ValueOfInt32(int32(c.Rng.Intn(1000))))
		}
	}
	nfs := fs.ByName("nested").Message().Fields()
	nested := func() protoreflect.Message { return m.Mutable(fs.ByName("nested")).Message() }
	if pick(2) {
		nested().Set(nfs.ByName("n"), protoreflect.ValueOfInt32(int32(c.Rng.Intn(1000)-500)))
	}
	if pick(3) {
		nested().Set(nfs.ByName("kind"), protoreflect.ValueOfEnum(2))
	}
	if pick(3) {
		l := nested().Mutable(nfs.ByName("tags")).List()
		l.Append(protoreflect.ValueOfString("t1"))
		l.Append(protoreflect.ValueOfString(strs[c.Rng.Intn(len(strs))]))
	}
	if nestedInBody && pick(3) {
		child := nested().Mutable(nfs.ByName("child")).Message()
		child.Set(nfs.ByName("s"), protoreflect.ValueOfString("deep"))
	}
	if !urlOnly {
		if pick(3) {
			mm := m.Mutable(fs.ByName("m")).Map()
			mm.Set(protoreflect.ValueOfString("k").MapKey(), protoreflect.ValueOfString("v"))
		}
		if pick(4) {
			l := m.Mutable(fs.ByName("rn")).List()
			e := l.NewElement()
			e.Message().Set(nfs.ByName("s"), protoreflect.ValueOfString("elem"))
			l.Append(e)
		}
	}
	return m
}

// queryOf renders every set field of m (except those in skip) as URL query parameters in
// their proto3 JSON text form.
func queryOf(m protoreflect.Message, prefix string, skip map[string]bool, q url.Values) {
	m.Range(func(fd protoreflect.FieldDescriptor, v protoreflect.Value) bool {
		name := prefix + string(fd.Name())
		if skip[name] {
			return true
		}
		one := func(v protoreflect.Value) string {
			switch fd.Kind() {
			case protoreflect.BytesKind:
				return base64.StdEncoding.EncodeToString(v.Bytes())
			case protoreflect.EnumKind:
				if ev := fd.Enum().Values().ByNumber(v.Enum()); ev != nil && v.Enum()&1 == 1 { // odd declared values by name, even ones by number
					return string(ev.Name())
				}
				return strconv.Itoa(int(v.Enum())) // the number: the only spelling of a value without a name
			case protoreflect.MessageKind:
				b, _ := protojson.Marshal(v.Message().Interface())
				s := string(b)
				if len(s) >= 2 && s[0] == '"' {
					var bare string
					json.Unmarshal(b, &bare) // string-shaped well-known types travel as the bare string
					if n := len(bare); n == 0 || bare[0] != '"' || bare[n-1] != '"' {
						s = bare
					} // ... unless that would read as an already quoted JSON string: then the JSON form
				}
				return s
			case protoreflect.FloatKind:
				return strconv.FormatFloat(v.Float(), 'g', -1, 32)
			case protoreflect.DoubleKind:
				return strconv.FormatFloat(v.Float(), 'g', -1, 64)
			}
			return v.String()
		}
		switch {
		case fd.IsList():
			for i := 0; i < v.List().Len(); i++ {
				q.Add(name, one(v.List().Get(i)))
			}
		case fd.IsMap():
		case fd.Kind() == protoreflect.MessageKind && !strings.HasPrefix(string(fd.Message().FullName()), "google.protobuf."):
			queryOf(v.Message(), name+".", skip, q)
		default:
			q.Add(name, one(v))
		}
		return true
	})
}

// an empty sub-message and an absent one have the same URL and body form
func dropEmptyNested(m *dynamicpb.Message) {
	fd := m.Descriptor().Fields().ByName("nested")
	if m.Has(fd) {
		empty := true
		m.Get(fd).Message().Range(func(protoreflect.FieldDescriptor, protoreflect.Value) bool { empty = false; return false })
		if empty {
			m.Clear(fd)
		}
	}
}

func c03API(c *Ctx, pf *paramFx) {
	fx := pf.fx
	names := []string{"n1", "é日", "~tilde", "q=1&r", "a+b", "x.y-z_0", "(a)!$'*,;@", "0", "latest", "latest", ".", "..", "...", ".hidden"}
	outside := []string{"hello world", "50%", "a b+c", "x%2Fy", "what?", "#1"}
	for i := 0; i < c.N(400, 8000); i++ {
		shape := []string{"Query", "Star", "Field"}[c.Rng.Intn(3)]
		M := genReq(c, fx, shape != "Star", shape != "Query")
		fs := M.Descriptor().Fields()
		name := names[c.Rng.Intn(len(names))]
		if c.Rng.Intn(10) == 0 {
			name = outside[c.Rng.Intn(len(outside))]
		}
		M.Set(fs.ByName("name"), protoreflect.ValueOfString(name))
		nestedS := "ns-" + strconv.Itoa(c.Rng.Intn(100))
		if name == "latest" && c.Rng.Intn(2) == 0 {
			nestedS = "deep" // the literal route /c03/star/latest/deep exists, for PUT only
		}
		var reqURL string
		var body []byte
		ct := []string{"application/json", "application/protobuf"}[c.Rng.Intn(2)]
		q := url.Values{}
		method := "POST"
		switch shape {
		case "Query":
			method = "GET"
			queryOf(M, "", map[string]bool{"name": true}, q)
			reqURL = "/c03/q/" + url.PathEscape(name)
		case "Star":
			M.Mutable(fs.ByName("nested")).Message().Set(M.Get(fs.ByName("nested")).Message().Descriptor().Fields().ByName("s"), protoreflect.ValueOfString(nestedS))
			bm := proto.Clone(M).(*dynamicpb.Message)
			bm.Clear(fs.ByName("name"))
			if ct == "application/json" {
				body, _ = protojson.Marshal(bm)
			} else {
				body, _ = proto.Marshal(bm)
			}
			reqURL = "/c03/star/" + url.PathEscape(name) + "/" + url.PathEscape(nestedS)
		case "Field":
			nm := M.Mutable(fs.ByName("nested")).Message()
			if ct == "application/json" {
				body, _ = protojson.Marshal(nm.Interface())
			} else {
				body, _ = proto.Marshal(nm.Interface())
			}
			queryOf(M, "", map[string]bool{"name": true, "nested": true, "nested.s": true, "nested.n": true, "nested.kind": true, "nested.tags": true}, q)
			// the nested message travels in the body: drop what queryOf would have flattened
			for k := range q {
				if strings.HasPrefix(k, "nested.") {
					q.Del(k)
				}
			}
			reqURL = "/c03/field/" + url.PathEscape(name)
		}
		if len(q) > 0 {
			reqURL += "?" + q.Encode()
		}
		zip := c.Rng.Intn(3) == 0 && body != nil
		chunked := c.Rng.Intn(3) == 0
		send := body
		if zip {
			var buf bytes.Buffer
			cut := len(body)
			if c.Rng.Intn(3) == 0 && len(body) > 1 { // the compressed body as two concatenated gzip members (RFC 1952 2.2)
				cut = 1 + c.Rng.Intn(len(body)-1)
			}
			w := gzip.NewWriter(&buf)
			w.Write(body[:cut]) //nolint
			w.Close()
			if cut < len(body) {
				w = gzip.NewWriter(&buf)
				w.Write(body[cut:]) //nolint
				w.Close()
			}
			send = buf.Bytes()
		}
		var r = httptest.NewRequest(method, reqURL, nil)
		if body != nil {
			r = httptest.NewRequest(method, reqURL, bytes.NewReader(send))
			r.Header.Set("Content-Type", ct)
			if zip {
				r.Header.Set("Content-Encoding", "gzip")
			}
			if chunked {
				r.ContentLength = -1
			}
		}
		// what the client wants BACK says nothing about how its request body is encoded
		accept := []string{"", "", "application/json", "application/protobuf", "*/*", "application/octet-stream"}[c.Rng.Intn(6)]
		if accept != "" {
			r.Header.Set("Accept", accept)
		}
		pf.got = nil
		rec, pn := fx.Serve(r)
		dropEmptyNested(M)
		if pf.got != nil {
			dropEmptyNested(pf.got)
		}
		in := fmt.Sprintf("%s %s ct=%s accept=%q gzip=%v chunked=%v M=%s", shape, trunc([]byte(reqURL), 800), ct, accept, zip, chunked, trunc([]byte(prototextS(M)), 1500))
		c.Eval("api-reconstruct", in, true)
		c.Class("api:" + shape)
		if pn != nil {
			c.SpecFail("api-reconstruct", in, fmt.Sprint("panic: ", pn), "the message", "C03/api/panic", "request decoding panics")
			continue
		}
		if rec.Code != 200 || pf.got == nil || !proto.Equal(pf.got, M) {
			got := "<handler not reached>"
			if pf.got != nil {
				got = prototextS(pf.got)
			}
			key := "C03/api/" + shape + "/message-differs"
			if rec.Code != 200 {
				key = "C03/api/" + shape + "/refused"
				if rec.Code == 404 && strings.ContainsAny(name, " %?#\"<>[]\\^`{|}") {
					// the value is expressible (percent-encoded) but the path lexer's alphabet excludes it
					key = "C03/path-variable-alphabet"
				}
			}
			c.SpecFail("api-reconstruct", in, fmt.Sprintf("%d %s %s", rec.Code, trunc(rec.Body.Bytes(), 150), trunc([]byte(got), 1500)), "handler receives M", key, "the handler does not receive the message that was split into path, query and body")
		}
	}
	// invalid text for the field's type is rejected, not coerced (through the whole stack)
	bad := []struct{ q, what string }{{"i32=1.5", "fraction"}, {"i32=2147483648", "overflow"}, {"u32=-1", "negative-unsigned"}, {"u32=4294967296", "overflow-u32"}, {"i64=9223372036854775808", "overflow-i64"}, {"flag=yes", "bool"}, {"flag=1", "bool-1"}, {"flag=True", "bool-True"}, {"flag=t", "bool-t"}, {"flag=0", "bool-0"}, {"flag=FALSE", "bool-FALSE"}, {"kind=NOPE", "enum-name"}, {"data=%21%21", "base64"}, {"ts=yesterday", "timestamp"}, {"fl=3.5e38", "float32-overflow"}, {"fl=abc", "float-text"}, {"db=1e400", "double-overflow"}, {"i32=%2B1", "plus-sign"}, {"i32=01", "leading-zero"}, {"ri=1&ri=x", "repeated-element"}, {"nope=1", "unknown-field"}, {"nested.nope=1", "unknown-nested"}, {"m.k=v", "map"}}
	for _, b := range bad {
		pf.got = nil
		rec, pn := fx.Serve(httptest.NewRequest("GET", "/c03/q/n?"+b.q, nil))
		c.Eval("api-invalid", b.q, true)
		if pn != nil {
			c.SpecFail("api-invalid", b.q, fmt.Sprint("panic: ", pn), "an error", "C03/api/invalid-panic/"+b.what, "invalid parameter text panics")
		} else if rec.Code == 200 {
			c.SpecFail("api-invalid", b.q, "200 "+prototextS(pf.got), "an error", "C03/api/invalid-coerced/"+b.what, "text that is not valid for the field's type is coerced instead of rejected")
		}
	}
}

// ---------------------------------------------------------------- C07

func runC07(c *Ctx) {
	c.Rule("rules with one or two path variables (top-level and nested fields, string / int / bool / enum / float typed, with and without a trailing wildcard, body '', '*' and a body field, bound to one HTTP method or to every method through custom kind '*') x captured values incl. each type's zero value x competing values for the same field in the query string (proto and JSON name, one or several occurrences, before and after other parameters) and / or the body (JSON and protobuf): the handler must see the captured value. Every case is also run through the Lean model of the application order. Non-trivial: at least one competing value; distinct by input.")
	rules := map[string]*annotations.HttpRule{
		"S":   getRule("/c07/s/{name}"),
		"SW":  getRule("/c07/sw/{name}/x/*"),
		"I":   getRule("/c07/i/{i32}"),
		"IW":  getRule("/c07/iw/{i32}/star/*"),
		"D":   getRule("/c07/d/{db}/{flag}/{kind}"),
		"N":   getRule("/c07/n/{nested.s}/{nested.n}"),
		"B":   postRule("/c07/b/{name}/{i32}", "*"),
		"BF":  postRule("/c07/bf/{nested.s}/{nested.n}", "nested"),
		"BW":  postRule("/c07/bw/{other_name}/**", "*"),
		"TWO": getRule("/c07/two/{name}/*/{other_name}"),
		// bound for every HTTP method (custom kind "*"): the lookup ends in methodAll, not in methods[verb]
		"K":  customRule("*", "/c07/k/{name}", ""),
		"KB": customRule("*", "/c07/kb/{name}/{i32}", "*"),
	}
	pf, err := newParamFx(rules)
	if err != nil {
		c.SpecFail("fixture", "c07", err.Error(), "registered", "C07/fixture", "fixture registration failed")
		return
	}
	fx := pf.fx
	c07Extra(c)
	type binding struct{ field, jsonName, capture string }
	type tcase struct {
		rule  string
		path  string
		binds []binding
		body  bool
		sub   string // body field ("" = whole message)
	}
	strVals := []string{"PATH", "p", "0", "false"}
	intVals := []string{"0", "7", "-1", "42"}
	for i := 0; i < c.N(400, 8000); i++ {
		var tc tcase
		sv, sv2, iv := strVals[c.Rng.Intn(len(strVals))], strVals[c.Rng.Intn(len(strVals))], intVals[c.Rng.Intn(len(intVals))]
		switch c.Rng.Intn(12) {
		case 10:
			tc = tcase{rule: "K", path: "/c07/k/" + sv, binds: []binding{{"name", "name", sv}}}
		case 11:
			tc = tcase{rule: "KB", path: "/c07/kb/" + sv + "/" + iv, binds: []binding{{"name", "name", sv}, {"i32", "i32", iv}}, body: true}
		case 0:
			tc = tcase{rule: "S", path: "/c07/s/" + sv, binds: []binding{{"name", "name", sv}}}
		case 1:
			tc = tcase{rule: "SW", path: "/c07/sw/" + sv + "/x/tail", binds: []binding{{"name", "name", sv}}}
		case 2:
			tc = tcase{rule: "I", path: "/c07/i/" + iv, binds: []binding{{"i32", "i32", iv}}}
		case 3:
			tc = tcase{rule: "IW", path: "/c07/iw/" + iv + "/star/one", binds: []binding{{"i32", "i32", iv}}}
		case 4:
			d := []string{"0", "1.5", "0.0", "-2"}[c.Rng.Intn(4)]
			f := []string{"false", "true"}[c.Rng.Intn(2)]
			k := []string{"KIND_UNSPECIFIED", "ALPHA", "0", "2"}[c.Rng.Intn(4)]
			tc = tcase{rule: "D", path: "/c07/d/" + d + "/" + f + "/" + k, binds: []binding{{"db", "db", d}, {"flag", "flag", f}, {"kind", "kind", k}}}
		case 5:
			tc = tcase{rule: "N", path: "/c07/n/" + sv + "/" + iv, binds: []binding{{"nested.s", "nested.s", sv}, {"nested.n", "nested.n", iv}}}
		case 6:
			tc = tcase{rule: "B", path: "/c07/b/" + sv + "/" + iv, binds: []binding{{"name", "name", sv}, {"i32", "i32", iv}}, body: true}
		case 7:
			tc = tcase{rule: "BF", path: "/c07/bf/" + sv + "/" + iv, binds: []binding{{"nested.s", "nested.s", sv}, {"nested.n", "nested.n", iv}}, body: true, sub: "nested"}
		case 8:
			tc = tcase{rule: "BW", path: "/c07/bw/" + sv + "/a/b", binds: []binding{{"other_name", "otherName", sv}}, body: true}
		default:
			tc = tcase{rule: "TWO", path: "/c07/two/" + sv + "/mid/" + sv2, binds: []binding{{"name", "name", sv}, {"other_name", "otherName", sv2}}}
		}
		// competing values
		q := url.Values{}
		var order []string
		competing := false
		for _, b := range tc.binds {
			if c.Rng.Intn(3) > 0 {
				competing = true
				key := b.field
				if c.Rng.Intn(2) == 0 {
					key = b.jsonName
				}
				rival := rivalValue(b.field)
				if c.Rng.Intn(3) == 0 {
					order = append(order, key+"="+url.QueryEscape(rival), "rs=filler")
				} else {
					order = append(order, "rs=filler", key+"="+url.QueryEscape(rival))
				}
				if c.Rng.Intn(4) == 0 {
					order = append(order, key+"="+url.QueryEscape(rival))
				}
			}
		}
		_ = q
		reqURL := tc.path
		if len(order) > 0 {
			reqURL += "?" + strings.Join(order, "&")
		}
		var r = httptest.NewRequest("GET", reqURL, nil)
		bodyDesc := ""
		if tc.body {
			bm := fx.NewMsg("Req")
			target := protoreflect.Message(bm)
			if tc.sub != "" {
				target = bm.Mutable(bm.Descriptor().Fields().ByName(protoreflect.Name(tc.sub))).Message()
			}
			for _, b := range tc.binds {
				if c.Rng.Intn(3) > 0 {
					competing = true
					leaf := b.field
					if tc.sub != "" {
						leaf = strings.TrimPrefix(b.field, tc.sub+".")
					}
					fd := target.Descriptor().Fields().ByName(protoreflect.Name(leaf))
					if fd == nil {
						continue
					}
					switch fd.Kind() {
					case protoreflect.StringKind:
						target.Set(fd, protoreflect.ValueOfString("BODY"))
					case protoreflect.Int32Kind:
						target.Set(fd, protoreflect.ValueOfInt32(999))
					}
				}
			}
			var body []byte
			ct := []string{"application/json", "application/protobuf"}[c.Rng.Intn(2)]
			if ct == "application/json" {
				body, _ = protojson.Marshal(target.Interface())
			} else {
				body, _ = proto.Marshal(target.Interface())
			}
			bodyDesc = ct + " " + string(trunc(body, 80))
			r = httptest.NewRequest("POST", reqURL, bytes.NewReader(body))
			r.Header.Set("Content-Type", ct)
		}
		pf.got = nil
		rec, pn := fx.Serve(r)
		in := fmt.Sprintf("%s %s body=%s", tc.rule, reqURL, bodyDesc)
		c.Eval("path-wins", in, competing)
		if pn != nil {
			c.SpecFail("path-wins", in, fmt.Sprint("panic: ", pn), "the captured value", "C07/panic", "panic")
			continue
		}
		if rec.Code != 200 || pf.got == nil {
			c.SpecFail("path-wins", in, fmt.Sprintf("%d %s", rec.Code, trunc(rec.Body.Bytes(), 120)), "200", "C07/refused", "a valid request with competing values is refused")
			continue
		}
		// model: the captured values are what the message holds
		var qps, pps []string
		for k, b := range tc.binds {
			pps = append(pps, fmt.Sprintf("%d:0:x%x", k+1, b.capture))
			for _, o := range order {
				kk, vv, _ := strings.Cut(o, "=")
				if kk == b.field || kk == b.jsonName {
					u, _ := url.QueryUnescape(vv)
					qps = append(qps, fmt.Sprintf("%d:0:x%x", k+1, u))
				}
			}
		}
		qarg := strings.Join(qps, ",")
		if qarg == "" {
			qarg = "-"
		}
		model := c.Drv.Ask(join("decodereq", "-", qarg, strings.Join(pps, ",")))
		c.res.Corresponded++
		var implParts []string
		for k, b := range tc.binds {
			got := fieldText(pf.got, b.field)
			implParts = append(implParts, fmt.Sprintf("%d=x%x", k+1, normValue(b.field, got)))
			if normValue(b.field, got) != normValue(b.field, b.capture) {
				c.SpecFail("path-wins", in, fmt.Sprintf("%s=%q", b.field, got), fmt.Sprintf("%q", b.capture), "C07/path-overridden/"+b.field, "a query parameter or body value replaced the value captured from the path")
			}
		}
		var modelParts []string
		for _, it := range strings.Split(model, ";") {
			k, v, _ := strings.Cut(it, "=")
			idx, _ := strconv.Atoi(k)
			if idx >= 1 && idx <= len(tc.binds) {
				var raw []byte
				fmt.Sscanf(strings.TrimPrefix(v, "x"), "%x", &raw)
				modelParts = append(modelParts, fmt.Sprintf("%d=x%x", idx, normValue(tc.binds[idx-1].field, string(raw))))
			}
		}
		if strings.Join(modelParts, ";") != strings.Join(implParts, ";") {
			c.res.NDisagree++
			if len(c.res.Disagree) < 25 {
				c.res.Disagree = append(c.res.Disagree, Case{Kind: "path-wins", Input: in, Impl: strings.Join(implParts, ";"), Model: strings.Join(modelParts, ";")})
			}
		}
	}
}

func rivalValue(field string) string {
	switch field {
	case "i32", "nested.n":
		return "555"
	case "db":
		return "2.5"
	case "flag":
		return "true"
	case "kind":
		return "BETA"
	}
	return "QUERY"
}

func fieldText(m protoreflect.Message, path string) string {
	cur := m
	parts := strings.Split(path, ".")
	for i, p := range parts {
		fd := cur.Descriptor().Fields().ByName(protoreflect.Name(p))
		if i < len(parts)-1 {
			cur = cur.Get(fd).Message()
			continue
		}
		v := cur.Get(fd)
		switch fd.Kind() {
		case protoreflect.EnumKind:
			return strconv.Itoa(int(v.Enum()))
		case protoreflect.DoubleKind:
			return strconv.FormatFloat(v.Float(), 'g', -1, 64)
		}
		return v.String()
	}
	return ""
}

func normValue(field, text string) string {
	switch field {
	case "kind":
		switch text {
		case "KIND_UNSPECIFIED":
			return "0"
		case "ALPHA":
			return "1"
		case "BETA":
			return "2"
		}
	case "db":
		if f, err := strconv.ParseFloat(text, 64); err == nil {
			return strconv.FormatFloat(f, 'g', -1, 64)
		}
	}
	return text
}

// c07Extra: message-typed path variables, many parameters, and the WebSocket transport.
// upViaReader: the upload handler of c07Extra reads through AsHTTPBodyReader instead of RecvMsg.
var upViaReader bool

func c07Extra(c *Ctx) {
	var got *dynamicpb.Message
	h := func(ctx context.Context, in *dynamicpb.Message) (proto.Message, error) {
		got = in
		return dynamicpb.NewMessage(in.Descriptor().ParentFile().Messages().ByName("Reply")), nil
	}
	var wsFirst *dynamicpb.Message
	ws := func(fx *Fixture, ms *MethodSpec, st grpc.ServerStream) error {
		m := fx.NewMsg("Req")
		if err := st.RecvMsg(m); err != nil {
			return err
		}
		wsFirst = m
		return st.SendMsg(fx.NewMsg("Reply"))
	}
	fx, err := NewFixture([]*MethodSpec{
		{Name: "Dur", In: "Req", Out: "Reply", Unary: h, Rule: getRule("/c07x/dur/{dur}")},
		{Name: "DurB", In: "Req", Out: "Reply", Unary: h, Rule: postRule("/c07x/durb/{dur}", "*")},
		{Name: "W64", In: "Req", Out: "Reply", Unary: h, Rule: getRule("/c07x/w/{w64}")},
		{Name: "Fm", In: "Req", Out: "Reply", Unary: h, Rule: getRule("/c07x/fm/{fm}")},
		{Name: "Ts", In: "Req", Out: "Reply", Unary: h, Rule: getRule("/c07x/ts/{ts}")},
		{Name: "Many", In: "Req", Out: "Reply", Unary: h, Rule: getRule("/c07x/many/{name}/{nested.s}")},
		{Name: "Ws", In: "Req", Out: "Reply", ClientStream: true, ServerStream: true, Stream: ws, Rule: customRule("WEBSOCKET", "/c07x/ws/{name}", "*")},
		{Name: "WsWatch", In: "Req", Out: "Reply", ClientStream: true, ServerStream: true, Stream: ws, Rule: customRule("WEBSOCKET", "/c07x/wsw/{name}", "")}, // NO body: the request is the URL alone
		{Name: "WsGreet", In: "Req", Out: "Reply", ClientStream: true, ServerStream: true, Rule: customRule("WEBSOCKET", "/c07x/wsg/{name}", "*"),
			Stream: func(fx *Fixture, ms *MethodSpec, st grpc.ServerStream) error {
				if err := st.SendMsg(fx.NewMsg("Reply")); err != nil { // greets before it receives
					return err
				}
				m := fx.NewMsg("Req")
				if err := st.RecvMsg(m); err != nil {
					return err
				}
				wsFirst = m
				return st.SendMsg(fx.NewMsg("Reply"))
			}},
		{Name: "Oa", In: "Req", Out: "Reply", Unary: h, Rule: getRule("/c07x/oa/{oa}")},
		{Name: "OaB", In: "Req", Out: "Reply", Unary: h, Rule: postRule("/c07x/oab/{oa}", "*")},
		{Name: "Up", In: "Req", Out: "Reply", ClientStream: true, Rule: postRule("/c07x/up/{name}", "file"),
			Stream: func(fx *Fixture, ms *MethodSpec, st grpc.ServerStream) error {
				m := fx.NewMsg("Req")
				var rd io.Reader
				var err error
				if upViaReader {
					rd, err = larking.AsHTTPBodyReader(st, m)
				} else {
					err = st.RecvMsg(m)
				}
				if err != nil {
					return err
				}
				if rd != nil {
					io.Copy(io.Discard, rd) //nolint
				} else {
					for st.RecvMsg(fx.NewMsg("Req")) == nil {
					}
				}
				got = m
				return st.SendMsg(fx.NewMsg("Reply"))
			}},
	}, nil)
	if err != nil || fx.RegErr != nil || fx.RegPanic != nil {
		c.SpecFail("fixture", "c07 extra", fmt.Sprint(err, fx.RegErr, fx.RegPanic), "", "C07/fixture", "fixture")
		return
	}
	defer fx.Close()
	field := func(m *dynamicpb.Message, name string) string {
		fd := m.Descriptor().Fields().ByName(protoreflect.Name(name))
		if fd.Message() != nil {
			b, _ := protojson.Marshal(m.Get(fd).Message().Interface())
			return string(b)
		}
		return m.Get(fd).String()
	}
	type tc struct {
		method, target, body string
		field, want          string
	}
	var cases []tc
	for _, capv := range []string{"3s", "0.250s", "0s", "100s"} {
		want, _ := protojson.Marshal(mustDur(capv))
		for _, rival := range []string{"dur=1.5s", "dur.nanos=5", "dur.seconds=9", "dur=9s&dur.nanos=7"} {
			cases = append(cases, tc{"GET", "/c07x/dur/" + capv + "?" + rival, "", "dur", string(want)})
		}
		cases = append(cases, tc{"POST", "/c07x/durb/" + capv, `{"dur":"1.5s"}`, "dur", string(want)})
		cases = append(cases, tc{"POST", "/c07x/durb/" + capv + "?dur.nanos=5", `{"dur":"9.5s","name":"x"}`, "dur", string(want)})
	}
	// captured text that spells a JSON literal
	for _, capv := range []string{"null", "true", "0", "nul"} {
		cases = append(cases, tc{"GET", "/c07x/many/" + capv + "/" + capv + "?name=QUERY&nested.s=QN", "", "name", capv})
		cases = append(cases, tc{"GET", "/c07x/oa/" + capv + "?oa=QUERY", "", "oa", capv})
		cases = append(cases, tc{"POST", "/c07x/oab/" + capv, `{"oa":"BODY"}`, "oa", capv})
	}
	for _, capv := range []string{"0", "7", "-1"} {
		for _, rival := range []string{"w64=7", "w64=9", "w64.value=3"} {
			cases = append(cases, tc{"GET", "/c07x/w/" + capv + "?" + rival, "", "w64", `"` + capv + `"`})
		}
	}
	for _, rival := range []string{"fm=owner", "fm.paths=owner", "fm=a,b"} {
		cases = append(cases, tc{"GET", "/c07x/fm/title?" + rival, "", "fm", `"title"`})
	}
	// a oneof member bound by the path: the same member or its sibling in the query / body
	for _, rival := range []string{"oa=QUERY", "oa=QUERY&oa=Q2"} {
		cases = append(cases, tc{"GET", "/c07x/oa/PATH?" + rival, "", "oa", "PATH"})
	}
	cases = append(cases, tc{"POST", "/c07x/oab/PATH", `{"oa":"BODY"}`, "oa", "PATH"})
	cases = append(cases, tc{"POST", "/c07x/oab/PATH?oa=QUERY", `{"oa":"BODY","name":"n"}`, "oa", "PATH"})
	// many parameters of mixed depth around the rivals (any order the query map yields)
	for rep := 0; rep < c.N(30, 300); rep++ {
		q := url.Values{}
		for i, k := range []string{"i32", "i64", "u32", "u64", "flag", "db", "fl", "kind", "other_name", "nested.n", "nested.kind", "nested.child.s", "nested.child.n", "nested.tags", "rs", "ri", "wstr", "oa"} {
			if c.Rng.Intn(5) > 0 {
				q.Set(k, []string{"1", "2", "3", "true", "1.5", "2", "x", "7", "9", "t", "s", "4", "1", "1", "zz", "y"}[(i+rep)%16])
			}
		}
		for _, k := range []string{"flag", "kind", "nested.kind", "i32", "i64", "u32", "u64", "db", "fl", "nested.n", "nested.child.n", "ri"} {
			if q.Has(k) {
				q.Set(k, map[string]string{"flag": "true", "kind": "ALPHA", "nested.kind": "BETA", "db": "1.5", "fl": "2.5"}[k])
				if q.Get(k) == "" {
					q.Set(k, strconv.Itoa(1+c.Rng.Intn(90)))
				}
			}
		}
		q.Set("name", "QUERY")
		q.Set("nested.s", "QUERYNESTED")
		cases = append(cases, tc{"GET", "/c07x/many/PATH/PATHNESTED?" + q.Encode(), "", "name", "PATH"})
	}
	for _, t := range cases {
		var r = httptest.NewRequest(t.method, t.target, nil)
		if t.body != "" {
			r = httptest.NewRequest(t.method, t.target, strings.NewReader(t.body))
			r.Header.Set("Content-Type", "application/json")
		}
		got = nil
		rec, pn := fx.Serve(r)
		in := t.method + " " + truncS(t.target, 300) + " body=" + t.body
		c.Eval("path-wins-extra", in, true)
		c.Class("extra:" + t.field)
		if pn != nil || rec.Code != 200 || got == nil {
			c.SpecFail("path-wins-extra", in, fmt.Sprintf("%d %s panic=%v", rec.Code, truncS(rec.Body.String(), 120), pn), "200", "C07/extra/refused", "a valid request with competing values is refused")
			continue
		}
		if g := field(got, t.field); g != t.want {
			c.SpecFail("path-wins-extra", in, t.field+"="+g, t.want, "C07/path-overridden/"+t.field, "a query parameter or body value replaced (or was merged into) the value captured from the path")
		}
		if strings.HasPrefix(t.target, "/c07x/many/PATH/") {
			nested := got.Get(got.Descriptor().Fields().ByName("nested")).Message()
			if g := nested.Get(nested.Descriptor().Fields().ByName("s")).String(); g != "PATHNESTED" {
				c.SpecFail("path-wins-extra", in, "nested.s="+g, "PATHNESTED", "C07/path-overridden/nested.s", "a query parameter replaced the value captured from the path")
			}
		}
	}
	// HttpBody upload: the handler reads with RecvMsg or through AsHTTPBodyReader
	for _, via := range []bool{false, true} {
		for _, q := range []string{"", "?name=QUERY", "?other_name=o&name=QUERY"} {
			upViaReader = via
			got = nil
			r := httptest.NewRequest("POST", "/c07x/up/PATH"+q, strings.NewReader("upload-bytes"))
			r.Header.Set("Content-Type", "application/octet-stream")
			rec, pn := fx.Serve(r)
			upViaReader = false
			in := fmt.Sprintf("POST /c07x/up/PATH%s (HttpBody upload, handler reads via AsHTTPBodyReader=%v)", q, via)
			c.Eval("path-wins-upload", in, q != "")
			c.Class("extra:upload")
			if pn != nil || rec.Code != 200 || got == nil {
				c.SpecFail("path-wins-upload", in, fmt.Sprintf("%d %s panic=%v", rec.Code, truncS(rec.Body.String(), 120), pn), "200", "C07/extra/refused", "a valid upload is refused")
			} else if g := field(got, "name"); g != "PATH" {
				c.SpecFail("path-wins-upload", in, "name="+g, "PATH", "C07/path-overridden/upload-name", "on an HttpBody upload a query parameter replaced the value captured from the path")
			}
		}
	}
	// body media types the mux may or may not decode: refused, or the captured value is what the handler sees
	for _, b := range []struct{ verb, target, ct, body string }{
		{"POST", "/c07x/oab/PATH", "application/x-www-form-urlencoded", "oa=BODY"},
		{"POST", "/c07x/oab/PATH?oa=QUERY", "application/x-www-form-urlencoded; charset=utf-8", "name=n&oa=BODY"},
		{"POST", "/c07x/oab/PATH", "multipart/form-data; boundary=x", "--x\r\nContent-Disposition: form-data; name=\"oa\"\r\n\r\nBODY\r\n--x--\r\n"},
		{"POST", "/c07x/oab/PATH", "text/plain", "oa=BODY"},
		{"POST", "/c07x/oab/PATH", "application/json; charset=utf-8", `{"oa":"BODY"}`},
		{"POST", "/c07x/oab/PATH", "", `{"oa":"BODY"}`},
	} {
		got = nil
		r := httptest.NewRequest(b.verb, b.target, strings.NewReader(b.body))
		if b.ct != "" {
			r.Header.Set("Content-Type", b.ct)
		}
		rec, pn := fx.Serve(r)
		in := fmt.Sprintf("%s %s Content-Type=%q body=%q", b.verb, b.target, b.ct, b.body)
		c.Eval("path-wins-media", in, true)
		c.Class("extra:media:" + map[bool]string{true: "dispatched", false: "refused"}[got != nil])
		if pn != nil {
			c.SpecFail("path-wins-media", in, fmt.Sprint("panic: ", pn), "a response", "C07/extra/panic", "a request body of another media type panics")
		} else if got != nil {
			if g := field(got, "oa"); g != "PATH" {
				c.SpecFail("path-wins-media", in, fmt.Sprintf("%d oa=%s", rec.Code, g), "PATH (or the request is refused)", "C07/path-overridden/oa", "a body value replaced the value captured from the path")
			}
		}
	}
	// WebSocket: a blank frame before the first message either ends the stream or is skipped — the first
	// message the handler sees still carries the captured value
	for _, blank := range []string{"", "\n", " "} {
		wsFirst = nil
		url := "ws" + strings.TrimPrefix(fx.HTTPServer().URL, "http") + "/c07x/ws/PATH"
		ctx, cancel := context.WithTimeout(context.Background(), 3*time.Second)
		conn, _, _, err := gws.Dial(ctx, url)
		cancel()
		in := fmt.Sprintf("websocket /c07x/ws/PATH: blank frame %q, then {\"name\":\"BODY\"}", blank)
		c.Eval("path-wins-ws", in, true)
		c.Class("extra:ws-blank")
		if err != nil {
			continue
		}
		conn.SetDeadline(time.Now().Add(2 * time.Second))
		wsutil.WriteClientMessage(conn, gws.OpText, []byte(blank))             //nolint
		wsutil.WriteClientMessage(conn, gws.OpText, []byte(`{"name":"BODY"}`)) //nolint
		wsutil.ReadServerData(conn)                                            //nolint
		conn.Close()
		time.Sleep(5 * time.Millisecond)
		if wsFirst != nil {
			if g := field(wsFirst, "name"); g != "PATH" {
				c.SpecFail("path-wins-ws", in, "name="+g, "PATH (or no message at all)", "C07/path-overridden/ws-name", "over WebSocket the first message the handler received does not carry the value captured from the path")
			}
		}
	}
	// WebSocket: a handler that sends before it receives
	{
		wsFirst = nil
		url := "ws" + strings.TrimPrefix(fx.HTTPServer().URL, "http") + "/c07x/wsg/PATH"
		ctx, cancel := context.WithTimeout(context.Background(), 3*time.Second)
		conn, br, _, err := gws.Dial(ctx, url)
		cancel()
		in := "websocket /c07x/wsg/PATH: the handler greets first, then receives {\"name\":\"BODY\"}"
		c.Eval("path-wins-ws", in, true)
		c.Class("extra:ws-greet")
		if err == nil {
			conn.SetDeadline(time.Now().Add(2 * time.Second))
			var rw io.ReadWriter = conn
			if br != nil {
				rw = struct {
					io.Reader
					io.Writer
				}{br, conn}
			}
			wsutil.ReadServerData(rw)                                              //nolint
			wsutil.WriteClientMessage(conn, gws.OpText, []byte(`{"name":"BODY"}`)) //nolint
			wsutil.ReadServerData(rw)                                              //nolint
			conn.Close()
			time.Sleep(5 * time.Millisecond)
			if wsFirst == nil {
				c.SpecFail("path-wins-ws", in, "handler received nothing", "a first message", "C07/ws/no-message", "the websocket handler did not receive the first message")
			} else if g := field(wsFirst, "name"); g != "PATH" {
				c.SpecFail("path-wins-ws", in, "name="+g, "PATH", "C07/path-overridden/ws-name", "over WebSocket the first message of a handler that had already sent does not carry the value captured from the path")
			}
		}
	}
	// WebSocket: the first frame carries a value for the path-bound field
	for _, frame := range []string{`{"name":"BODY"}`, `{"name":"BODY","otherName":"o"}`, `{}`} {
		wsFirst = nil
		url := "ws" + strings.TrimPrefix(fx.HTTPServer().URL, "http") + "/c07x/ws/PATH?name=QUERY"
		ctx, cancel := context.WithTimeout(context.Background(), 3*time.Second)
		conn, _, _, err := gws.Dial(ctx, url)
		cancel()
		in := "websocket /c07x/ws/PATH?name=QUERY first frame " + frame
		c.Eval("path-wins-ws", in, true)
		c.Class("extra:ws")
		if err != nil {
			c.SpecFail("path-wins-ws", in, err.Error(), "a connection", "C07/ws/dial", "websocket dial failed")
			continue
		}
		conn.SetDeadline(time.Now().Add(3 * time.Second))
		wsutil.WriteClientMessage(conn, gws.OpText, []byte(frame)) //nolint
		wsutil.ReadServerData(conn)                                //nolint
		conn.Close()
		time.Sleep(5 * time.Millisecond)
		if wsFirst == nil {
			c.SpecFail("path-wins-ws", in, "handler received nothing", "a first message", "C07/ws/no-message", "the websocket handler did not receive the first message")
		} else if g := field(wsFirst, "name"); g != "PATH" {
			c.SpecFail("path-wins-ws", in, "name="+g, "PATH", "C07/path-overridden/ws-name", "over WebSocket the first frame or the query replaced the value captured from the path")
		}
	}
	// a websocket rule WITHOUT a body (watch / subscribe style): the first message is the URL alone
	for _, q := range []string{"", "?name=QUERY", "?other_name=o&name=QUERY"} {
		wsFirst = nil
		url := "ws" + strings.TrimPrefix(fx.HTTPServer().URL, "http") + "/c07x/wsw/PATH" + q
		ctx, cancel := context.WithTimeout(context.Background(), 3*time.Second)
		conn, br, _, err := gws.Dial(ctx, url)
		cancel()
		in := "websocket /c07x/wsw/PATH" + q + " (rule without a body, no frame sent)"
		c.Eval("path-wins-ws", in, true)
		c.Class("extra:ws-bodyless")
		if err != nil {
			c.SpecFail("path-wins-ws", in, err.Error(), "a connection", "C07/ws/dial", "websocket dial failed")
			continue
		}
		conn.SetDeadline(time.Now().Add(3 * time.Second))
		var rw io.ReadWriter = conn
		if br != nil {
			rw = struct {
				io.Reader
				io.Writer
			}{br, conn}
		}
		wsutil.ReadServerData(rw) //nolint
		conn.Close()
		time.Sleep(5 * time.Millisecond)
		if wsFirst == nil {
			c.SpecFail("path-wins-ws", in, "handler received nothing", "a first message", "C07/ws/no-message", "the websocket handler did not receive the first message")
		} else if g := field(wsFirst, "name"); g != "PATH" {
			c.SpecFail("path-wins-ws", in, "name="+g, "PATH", "C07/path-overridden/ws-bodyless-name", "on a websocket rule without a body the path-bound field does not carry the captured value")
		}
	}
}

func mustDur(s string) proto.Message {
	d := &durationpb.Duration{}
	protojson.Unmarshal([]byte(`"`+s+`"`), d) //nolint
	return d
}
