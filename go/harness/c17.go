package main

import (
	"bytes"
	"errors"
	"fmt"
	"io"
	"net/http/httptest"
	"strconv"
	"strings"
	"time"

	"google.golang.org/protobuf/encoding/protodelim"
	"google.golang.org/protobuf/encoding/protowire"
	"larking.io/larking"
)

func init() { props["C17"] = runC17 }

// schedReader is the scripted fragmenting reader; it mirrors the model's Env.read.
type schedReader struct {
	data        []byte
	sched       []int
	eofWithData bool
	rooms       []int // len(p) of every Read
	calls       int
}

func (r *schedReader) Read(p []byte) (int, error) {
	r.rooms = append(r.rooms, len(p))
	want := len(r.data)
	if r.calls < len(r.sched) {
		want = r.sched[r.calls]
	}
	r.calls++
	if len(r.data) == 0 {
		return 0, io.EOF
	}
	if want < 1 {
		want = 1
	}
	k := min(len(p), min(want, len(r.data)))
	copy(p, r.data[:k])
	r.data = r.data[k:]
	if r.eofWithData && len(r.data) == 0 && k > 0 {
		return k, io.EOF
	}
	return k, nil
}

func errClass(err error) string {
	var tl *protodelim.SizeTooLargeError
	switch {
	case err == nil:
		return "nil"
	case err == io.EOF:
		return "eof"
	case err == io.ErrUnexpectedEOF:
		return "unexpected-eof"
	case errors.As(err, &tl):
		return "too-large"
	case strings.Contains(err.Error(), "unbalanced"):
		return "unbalanced"
	case strings.Contains(err.Error(), "max receive message size"):
		return "too-large"
	case strings.Contains(err.Error(), "parse") || strings.Contains(err.Error(), "overflow") || strings.Contains(err.Error(), "varint") || strings.Contains(err.Error(), "unexpected EOF"):
		return "parse"
	}
	return "other"
}

func intsCSV(xs []int) string {
	var s []string
	for _, x := range xs {
		s = append(s, strconv.Itoa(x))
	}
	return strings.Join(s, ",")
}

type rnCase struct {
	codec       string
	limit       int
	carry       []byte
	spare       int
	wire        []byte
	sched       []int
	eofWithData bool
}

type rnOut struct {
	dst      []byte
	n        int
	err      error
	rest     []byte
	panicked bool
	line     string // canonical
	rooms    []int
}

func codecByName(name string) larking.StreamCodec {
	switch name {
	case "proto":
		return larking.CodecProto{}
	case "json":
		return larking.CodecJSON{}
	}
	return larking.VerifHTTPBodyCodec()
}

// runReadNext runs one ReadNext (or readAll) on the real code.
func runReadNext(cs rnCase) (out rnOut) {
	rd := &schedReader{data: append([]byte(nil), cs.wire...), sched: cs.sched, eofWithData: cs.eofWithData}
	b := make([]byte, len(cs.carry), len(cs.carry)+cs.spare)
	copy(b, cs.carry)
	func() {
		defer func() {
			if p := recover(); p != nil {
				out.panicked = true
			}
		}()
		if cs.codec == "readall" {
			out.dst, out.err = larking.VerifReadAll(cs.limit, b, rd)
			if out.err == io.EOF {
				out.err = nil
			}
			out.n = len(out.dst)
		} else {
			out.dst, out.n, out.err = codecByName(cs.codec).ReadNext(b, rd, cs.limit)
		}
	}()
	out.rest, out.rooms = rd.data, rd.rooms
	if out.panicked {
		out.line = "panic"
	} else {
		out.line = fmt.Sprintf("ok dst=%x n=%d err=%s rest=%x", out.dst, out.n, errClass(out.err), out.rest)
	}
	return
}

func (cs rnCase) driverLine(rooms []int) string {
	eofd := "0"
	if cs.eofWithData {
		eofd = "1"
	}
	return join("readnext", cs.codec, strconv.Itoa(cs.limit), hexs(cs.carry), strconv.Itoa(cs.spare), hexs(cs.wire), intsCSV(cs.sched), eofd, intsCSV(rooms))
}

// compositions of n into positive parts (all 2^(n-1)).
func compositions(n int) [][]int {
	if n == 0 {
		return [][]int{{}}
	}
	var out [][]int
	for first := 1; first <= n; first++ {
		for _, rest := range compositions(n - first) {
			out = append(out, append([]int{first}, rest...))
		}
	}
	return out
}

func genJSONMsg(c *Ctx, depth int) []byte {
	var sb bytes.Buffer
	sb.WriteByte('{')
	n := c.Rng.Intn(3)
	if depth > 2 {
		n = 0
	}
	for i := 0; i < n; i++ {
		if i > 0 {
			sb.WriteByte(',')
		}
		keys := []string{`"a"`, `"k}"`, `"q\"x"`, `"b\\"`, `"{"`, `"é"`, `"\\\""`}
		sb.WriteString(keys[c.Rng.Intn(len(keys))])
		sb.WriteByte(':')
		switch c.Rng.Intn(5) {
		case 0:
			sb.Write(genJSONMsg(c, depth+1))
		case 1:
			sb.WriteString(`"}{\"}"`)
		case 2:
			sb.WriteString(`[1,{"x":"]"},"}"]`)
		case 3:
			sb.WriteString(strconv.Itoa(c.Rng.Intn(1000)))
		default:
			sb.WriteString(`"str"`)
		}
	}
	if c.Rng.Intn(4) == 0 {
		sb.WriteByte(' ')
	}
	sb.WriteByte('}')
	return sb.Bytes()
}

func genMsg(c *Ctx, codec string) []byte {
	if codec == "json" {
		return genJSONMsg(c, 0)
	}
	sizes := []int{0, 0, 1, 2, 3, 5, 8, 13, 63, 64, 65, 127, 128, 129, 200, 255, 256, 300}
	n := sizes[c.Rng.Intn(len(sizes))]
	if c.Thorough() && c.Rng.Intn(30) == 0 { // rare: the model replays every read of the long wire
		n = []int{1000, 16383, 16384, 16385}[c.Rng.Intn(4)]
	}
	if c.Rng.Intn(3) == 0 {
		n = c.Rng.Intn(20)
	}
	b := make([]byte, n)
	c.Rng.Read(b)
	return b
}

func writeNext(codec string, m []byte) []byte {
	var buf bytes.Buffer
	codecByName(codec).WriteNext(&buf, m) //nolint
	return buf.Bytes()
}

func genSched(c *Ctx, n int) []int {
	// Long wires get proportionally coarser reads (the model replays every read, and a
	// byte-wise replay of a 16 KiB message is quadratic in the driver); every wire up to
	// 400 bytes keeps the byte-wise and 1..7-byte schedules.
	scale := 1 + n/400
	switch c.Rng.Intn(5) {
	case 0:
		return nil // everything at once
	case 1:
		s := make([]int, n/scale+2)
		for i := range s {
			s[i] = scale
		}
		return s
	}
	var s []int
	for left := n + 3; left > 0; {
		k := (1 + c.Rng.Intn(7)) * scale
		if c.Rng.Intn(5) == 0 {
			k = 1 + c.Rng.Intn(300*scale)
		}
		s = append(s, k)
		left -= k
	}
	return s
}

// seqRun reads a whole stream with repeated ReadNext calls, corresponding every call with
// the model, and returns the messages and the final error class.
func seqRun(c *Ctx, kind, codec string, limit int, wire []byte, carry0 int, spare int, sched []int, eofd bool) (msgs [][]byte, final string, panicked bool, badN bool) {
	carry := append([]byte(nil), wire[:carry0]...)
	remaining := wire[carry0:]
	calls := 0
	for step := 0; step < 1<<20; step++ {
		var sch []int
		if calls < len(sched) {
			sch = sched[calls:]
		}
		cs := rnCase{codec: codec, limit: limit, carry: carry, spare: spare, wire: remaining, sched: sch, eofWithData: eofd}
		out := runReadNext(cs)
		c.Correspond(kind, cs.driverLine(out.rooms), out.line, len(wire) > 0)
		calls += len(out.rooms)
		if out.panicked {
			return msgs, "panic", true, false
		}
		if out.n < 0 || out.n > len(out.dst) {
			return msgs, "bad-n", false, true
		}
		if out.err != nil && !(codec == "body" && out.err == io.EOF && out.n > 0) {
			return msgs, errClass(out.err), false, false
		}
		msgs = append(msgs, append([]byte(nil), out.dst[:out.n]...))
		if out.err == io.EOF {
			return msgs, "eof", false, false
		}
		carry = append([]byte(nil), out.dst[out.n:]...)
		remaining = out.rest
		spare = 0
		if codec == "body" && limit <= 0 {
			break
		}
	}
	return msgs, "no-end", false, false
}

// c17Mux: the codecs behind the stream that drives them (streamHTTP.readMsg's look-ahead
// buffer) with receive limits far below the read buffer: what the handler receives is what
// was sent, and the stream ends.
func c17Mux(c *Ctx, prop string) {
	for _, limit := range []int{4, 8, 16, 100} {
		sfx, err := newStreamFx(larking.MaxReceiveMessageSizeOption(limit))
		if err != nil {
			c.Note("c17 mux fixture: " + err.Error())
			return
		}
		for _, size := range []int{0, 1, limit - 1, limit, limit + 1, 2 * limit, 2*limit + 3, 5 * limit, 64, 65, 200} {
			body := make([]byte, size)
			c.Rng.Read(body)
			for _, sched := range [][]int{nil, {1, 1, 1, 1, 1, 1, 1, 1, 1, 1, 1, 1, 1, 1, 1, 1, 1, 1, 1, 1}, genSched(c, size)} {
				sfx.reset(nil)
				done := make(chan struct{})
				var rec *httptest.ResponseRecorder
				var pn interface{}
				go func() {
					rec, pn = sfx.serveStream("POST", "/c06/upload/f", map[string]string{"Content-Type": "application/octet-stream"}, body, sched, c.Rng.Intn(2) == 0, false)
					close(done)
				}()
				in := fmt.Sprintf("HttpBody upload through the mux: limit=%d body=%d sched=%v", limit, size, trunc2(sched, 8))
				c.Eval("mux-body", in, size > 0)
				select {
				case <-done:
				case <-time.After(3 * time.Second):
					c.SpecFail("mux-body", in, "the handler is still receiving after 3 s", "the stream ends", prop+"/mux-body/endless", "the chunk stream never reports its end")
					return
				}
				var all []byte
				sfx.mu.Lock()
				n := len(sfx.got)
				for _, g := range sfx.got {
					all = append(all, g...)
				}
				sfx.mu.Unlock()
				if pn != nil || rec.Code != 200 || !bytes.Equal(all, body) {
					c.SpecFail("mux-body", in, fmt.Sprintf("%d, %d chunks, %d bytes %x panic=%v", rec.Code, n, len(all), trunc(all, 40), pn), fmt.Sprintf("%d bytes %x", len(body), trunc(body, 40)), prop+"/mux-body/sequence", "the chunks handed to the handler are not the bytes that were sent")
				}
			}
		}
	}
}

// c17MuxLookahead: the look-ahead a ReadNext call leaves behind must survive whatever the caller
// does with its scratch buffer between two calls — through the mux: several messages arrive in one
// read, the handler answers each message (with a longer reply) before receiving the next.
func c17MuxLookahead(c *Ctx) {
	sfx, err := newStreamFx(larking.MaxReceiveMessageSizeOption(1 << 16))
	if err != nil {
		c.Note("c17 mux fixture: " + err.Error())
		return
	}
	fx := sfx.fx
	for i := 0; i < c.N(120, 1500); i++ {
		codec := []string{"proto", "json"}[i%2]
		var msgs [][]byte
		var wire []byte
		for j, k := 0, 2+c.Rng.Intn(4); j < k; j++ {
			d := make([]byte, []int{0, 1, 2, 3, 5, 8, 20, 40}[c.Rng.Intn(8)])
			c.Rng.Read(d)
			msgs = append(msgs, d)
			enc := encodeMsg(fx, codec, d)
			if codec == "proto" {
				wire = protowire.AppendVarint(wire, uint64(len(enc)))
			}
			wire = append(wire, enc...)
		}
		var sched []int // nil: everything in one read — the largest look-ahead
		if i%3 == 2 {
			sched = genSched(c, len(wire))
		}
		ct := map[string]string{"proto": "application/protobuf", "json": "application/json"}[codec]
		sfx.reset(nil)
		eofd := c.Rng.Intn(2) == 0
		in := fmt.Sprintf("mux-lookahead-%s msgs=%d wire=%x sched=%v (the handler replies between receives)", codec, len(msgs), trunc(wire, 80), trunc2(sched, 12))
		c.Eval("mux-lookahead", in, true)
		var rec *httptest.ResponseRecorder
		var pn interface{}
		done := make(chan struct{})
		go func() {
			rec, pn = sfx.serveStream("POST", "/c06/bidi", map[string]string{"Content-Type": ct, "Accept": ct}, wire, sched, eofd, false)
			close(done)
		}()
		select {
		case <-done:
		case <-time.After(3 * time.Second): // the stream never reports its end: say so and stop (the goroutine is left behind)
			c.SpecFail("mux-lookahead", in, "the handler is still receiving after 3 s", "the stream ends", "C17/mux-lookahead/endless", "a message stream through the mux's look-ahead buffer never reports its end")
			return
		}
		ok := pn == nil && rec.Code == 200 && len(sfx.got) == len(msgs) && sfx.final == "eof"
		for k := 0; ok && k < len(msgs); k++ {
			ok = bytes.Equal(sfx.got[k], msgs[k])
		}
		if !ok {
			c.SpecFail("mux-lookahead", in, fmt.Sprintf("code=%d handler got %d messages final=%s panic=%v", rec.Code, len(sfx.got), sfx.final, pn), fmt.Sprintf("%d messages then eof", len(msgs)), "C17/mux-lookahead/sequence", "the bytes carried from one ReadNext call to the next do not survive the caller's use of its buffer")
		}
	}
}

func runC17(c *Ctx) {
	c17Mux(c, "C17")
	c17MuxLookahead(c)
	c.Rule("per codec (proto, json, body chunker, readAll): message sequences of 0..4 messages over boundary sizes, every composition of short wires (<= 9 bytes quick, <= 12 thorough) into reads and sampled schedules of long ones, EOF with the last data or separately, initial carry 0..3 bytes and spare capacity {0,1,2,5,64,512}, limits around each message size, all 1..10-byte length prefixes incl. 2^63 and 2^64-1, every truncation offset. Each ReadNext call is corresponded with the model on the recorded schedule; the sequence-level oracle compares what was read with what was written. Non-trivial: non-empty wire; distinct by kind+input.")
	c.Assume("readers obey io.Reader (never (0,nil) forever); limit > 0 as the mux passes it")

	for _, codec := range []string{"proto", "json", "body"} {
		// ---- exhaustive partitions of short wires
		maxLen := c.N(9, 12)
		for trial := 0; trial < c.N(12, 40); trial++ {
			var ms [][]byte
			var wire []byte
			for len(wire) < maxLen-2 && len(ms) < 3 {
				var m []byte
				if codec == "json" {
					m = [][]byte{[]byte(`{}`), []byte(`{"a":1}`), []byte(`{"}":"{"}`), []byte(`{"\"":{}}`)}[c.Rng.Intn(4)]
				} else {
					m = make([]byte, c.Rng.Intn(4))
					c.Rng.Read(m)
				}
				w := writeNext(codec, m)
				if len(wire)+len(w) > maxLen {
					break
				}
				ms = append(ms, m)
				wire = append(wire, w...)
			}
			limit := 64
			if codec == "body" {
				limit = 1 + c.Rng.Intn(4)
			}
			for _, comp := range compositions(len(wire)) {
				for _, eofd := range []bool{false, true} {
					for _, carry0 := range []int{0, min(2, len(wire))} {
						spare := []int{0, 1, 5, 64}[c.Rng.Intn(4)]
						c17CheckSeq(c, codec, ms, wire, limit, carry0, spare, comp, eofd, "exhaustive")
					}
				}
			}
		}
		// ---- sampled long streams
		for i := 0; i < c.N(700, 20000); i++ {
			var ms [][]byte
			var wire []byte
			for j, k := 0, c.Rng.Intn(5); j < k; j++ {
				m := genMsg(c, codec)
				ms = append(ms, m)
				wire = append(wire, writeNext(codec, m)...)
			}
			limit := 1 << 20
			if codec == "body" {
				limit = []int{1, 2, 3, 7, 16, 64, 100, 1000}[c.Rng.Intn(8)]
				if q := len(wire)*len(wire)/2000000 + 1; limit < q { // every call is replayed with the remaining wire: bound calls x wire
					limit = q
				}
			} else if len(ms) > 0 && c.Rng.Intn(3) == 0 {
				// a limit around one of the message sizes
				limit = max(1, len(ms[c.Rng.Intn(len(ms))])+c.Rng.Intn(3)-1)
			}
			carry0 := 0
			if len(wire) > 0 {
				carry0 = c.Rng.Intn(min(4, len(wire)) + 1)
				if c.Rng.Intn(6) == 0 {
					carry0 = c.Rng.Intn(len(wire) + 1)
				}
			}
			spare := []int{0, 1, 2, 5, 64, 512}[c.Rng.Intn(6)]
			c17CheckSeq(c, codec, ms, wire, limit, carry0, spare, genSched(c, len(wire)), c.Rng.Intn(2) == 0, "sampled")
		}
		// ---- truncation at every offset of a short valid stream
		if codec != "body" {
			for i := 0; i < c.N(20, 200); i++ {
				var ms [][]byte
				var wire []byte
				var ends []int
				for j, k := 0, 1+c.Rng.Intn(3); j < k; j++ {
					m := genMsg(c, codec)
					if len(m) > 40 {
						m = m[:40]
						if codec == "json" {
							m = []byte(`{"a":"b"}`)
						}
					}
					ms = append(ms, m)
					wire = append(wire, writeNext(codec, m)...)
					ends = append(ends, len(wire))
				}
				for cut := 0; cut < len(wire); cut++ {
					complete := 0
					for _, e := range ends {
						if e <= cut {
							complete++
						}
					}
					atBoundary := cut == 0 || (complete > 0 && ends[complete-1] == cut)
					got, final, panicked, badN := seqRun(c, "truncated-"+codec, codec, 1<<20, wire[:cut], 0, []int{0, 64}[c.Rng.Intn(2)], genSched(c, cut), c.Rng.Intn(2) == 0)
					in := fmt.Sprintf("%s wire=%x cut=%d", codec, wire, cut)
					ok := !panicked && !badN && len(got) == complete
					for k := 0; ok && k < complete; k++ {
						ok = bytes.Equal(got[k], ms[k])
					}
					if ok && atBoundary {
						ok = final == "eof"
					} else if ok {
						ok = final != "nil" && final != "no-end"
					}
					if !ok {
						c.SpecFail("truncated-"+codec, in, fmt.Sprintf("%d messages then %s", len(got), final), fmt.Sprintf("%d messages then an error", complete), "C17/"+codec+"/truncation", "truncated stream yields a fabricated/partial message or no error")
					}
				}
			}
		}
	}

	// ---- all 1..10-byte prefixes: boundary values through CodecProto
	vals := []uint64{0, 1, 127, 128, 255, 16383, 16384, 1<<21 - 1, 1 << 21, 1<<28 - 1, 1 << 28, 1 << 31, 1<<32 - 1, 1 << 32, 1<<35 - 1, 1 << 35, 1 << 42, 1 << 49, 1 << 56, 1<<63 - 1, 1 << 63, 1<<63 + 1, 1<<64 - 1}
	for _, v := range vals {
		prefix := protowire.AppendVarint(nil, v)
		for _, limit := range []int{1, 100, 4 << 20, 1<<31 - 1, 1<<63 - 1} {
			if v <= uint64(limit) && v > 1<<22 {
				continue // would really allocate v bytes
			}
			for _, eofd := range []bool{false, true} {
				wire := append(append([]byte{}, prefix...), []byte("abc")...)
				cs := rnCase{codec: "proto", limit: limit, spare: []int{0, 16}[c.Rng.Intn(2)], wire: wire, sched: genSched(c, len(wire)), eofWithData: eofd}
				out := runReadNext(cs)
				c.Correspond("prefix", cs.driverLine(out.rooms), out.line, true)
				in := fmt.Sprintf("size=%d limit=%d", v, limit)
				c.Class("prefix:" + errClass(out.err))
				switch {
				case out.panicked:
					c.SpecFail("prefix", in, "panic", "an error", "C17/proto/prefix-panic", "length prefix crashes the caller")
				case out.n < 0 || out.n > len(out.dst):
					c.SpecFail("prefix", in, fmt.Sprintf("n=%d len(dst)=%d err=%v", out.n, len(out.dst), out.err), "an error", "C17/proto/prefix-overflow", "length prefix too large for int is not reported as an error")
				case v > uint64(limit) && out.err == nil:
					c.SpecFail("prefix", in, fmt.Sprintf("n=%d err=nil", out.n), "too-large error", "C17/proto/over-limit-accepted", "message longer than the limit is returned")
				case v <= 3 && v <= uint64(limit) && (out.err != nil || out.n != int(v)):
					c.SpecFail("prefix", in, fmt.Sprintf("n=%d err=%v", out.n, out.err), fmt.Sprintf("n=%d", v), "C17/proto/within-limit-refused", "message within the limit is refused")
				}
			}
		}
	}
	// "no limit" (limit <= 0, what MaxReceiveMessageSizeOption(0) and the stream codecs' contract allow):
	// a prefix that does not fit the platform integer must still be an error, small ones are read
	for _, v := range vals {
		if v > 1<<22 && v <= 1<<63-1 {
			continue // would really allocate v bytes
		}
		prefix := protowire.AppendVarint(nil, v)
		for _, limit := range []int{0, -1} {
			for _, eofd := range []bool{false, true} {
				wire := append(append([]byte{}, prefix...), []byte("abc")...)
				cs := rnCase{codec: "proto", limit: limit, spare: []int{0, 16}[c.Rng.Intn(2)], wire: wire, sched: genSched(c, len(wire)), eofWithData: eofd}
				out := runReadNext(cs)
				in := fmt.Sprintf("size=%d limit=%d (no limit)", v, limit)
				c.Eval("prefix-nolimit", in, true)
				c.Class("prefix-nolimit:" + errClass(out.err))
				switch {
				case out.panicked:
					c.SpecFail("prefix", in, "panic", "an error", "C17/proto/prefix-panic", "length prefix crashes the caller")
				case out.n < 0 || out.n > len(out.dst):
					c.SpecFail("prefix", in, fmt.Sprintf("n=%d len(dst)=%d err=%v", out.n, len(out.dst), out.err), "an error", "C17/proto/prefix-overflow", "length prefix too large for int is not reported as an error")
				case v > 1<<63-1 && out.err == nil:
					c.SpecFail("prefix", in, fmt.Sprintf("n=%d err=nil", out.n), "too-large error", "C17/proto/over-limit-accepted", "a length that does not fit the platform integer is returned as read")
				case v <= 3 && (out.err != nil || out.n != int(v)):
					c.SpecFail("prefix", in, fmt.Sprintf("n=%d err=%v", out.n, out.err), fmt.Sprintf("n=%d", v), "C17/proto/within-limit-refused", "a short message is refused although no limit is configured")
				}
			}
		}
	}
	// zero-padded (non-minimal) length prefixes: the message begins after the bytes the prefix
	// really occupies, and what follows it stays in the look-ahead
	for _, pad := range []int{1, 2, 4, 8} {
		for _, payload := range [][]byte{[]byte("abc"), {}, bytes.Repeat([]byte{'q'}, 130)} {
			prefix := protowire.AppendVarint(nil, uint64(len(payload)))
			prefix[len(prefix)-1] |= 0x80
			for k := 1; k < pad; k++ {
				prefix = append(prefix, 0x80)
			}
			prefix = append(prefix, 0x00)
			if len(prefix) > 10 {
				continue
			}
			next := []byte{0x01, 'z'}
			wire := append(append(append([]byte{}, prefix...), payload...), next...)
			cs := rnCase{codec: "proto", limit: 1 << 20, spare: 0, wire: wire, sched: []int{len(wire)}, eofWithData: false}
			out := runReadNext(cs)
			in := fmt.Sprintf("prefix=%x (length %d in %d bytes) then a 1-byte message", prefix, len(payload), len(prefix))
			c.Eval("padded-prefix", in, true)
			c.Class("padded-prefix:" + errClass(out.err))
			switch {
			case out.panicked:
				c.SpecFail("padded-prefix", in, "panic", "the message", "C17/proto/prefix-panic", "a padded length prefix crashes the caller")
			case out.err != nil:
				// refusing a non-minimal prefix outright would be acceptable; mis-framing is not
			case out.n != len(payload) || out.n > len(out.dst) || !bytes.Equal(out.dst[:out.n], payload) || !bytes.HasPrefix(next, out.dst[out.n:]) && !bytes.HasPrefix(out.dst[out.n:], next):
				c.SpecFail("padded-prefix", in, fmt.Sprintf("n=%d dst=%x", out.n, trunc(out.dst, 24)), fmt.Sprintf("n=%d, the payload, then %x in the look-ahead", len(payload), next), "C17/proto/padded-prefix-misframed", "a zero-padded length prefix makes the message start inside the prefix")
			}
		}
	}
	// malformed prefixes: 10 continuation bytes, 10th byte > 1
	for _, p := range [][]byte{bytes.Repeat([]byte{0x80}, 10), bytes.Repeat([]byte{0xff}, 11), append(bytes.Repeat([]byte{0x80}, 9), 0x02), append(bytes.Repeat([]byte{0xff}, 9), 0x7f), append(bytes.Repeat([]byte{0x80}, 9), 0x01), {0x80}, {0xff, 0xff}} {
		for _, eofd := range []bool{false, true} {
			cs := rnCase{codec: "proto", limit: 1 << 20, spare: 0, wire: p, sched: genSched(c, len(p)), eofWithData: eofd}
			out := runReadNext(cs)
			c.Correspond("bad-prefix", cs.driverLine(out.rooms), out.line, true)
			if out.panicked || (out.err == nil && (out.n < 0 || out.n > len(out.dst))) {
				c.SpecFail("bad-prefix", hexs(p), out.line, "an error", "C17/proto/bad-prefix", "malformed prefix crashes or yields garbage")
			}
		}
	}

	// a 10-byte prefix whose last byte is above 1 spells a length of 2^64 or more: an error, whatever
	// its low bits spell and whatever follows it
	for _, last := range []byte{0x02, 0x03, 0x10, 0x40, 0x7e, 0x7f} {
		for _, low := range []byte{0x80, 0x85, 0x83} {
			p := append(append([]byte{low}, bytes.Repeat([]byte{0x80}, 8)...), last)
			wire := append(append([]byte{}, p...), []byte("hello")...)
			for _, limit := range []int{1 << 20, 0} {
				cs := rnCase{codec: "proto", limit: limit, spare: 0, wire: wire, sched: genSched(c, len(wire)), eofWithData: c.Rng.Intn(2) == 0}
				out := runReadNext(cs)
				in := fmt.Sprintf("prefix=%x then %q limit=%d", p, "hello", limit)
				c.Eval("overlong-prefix", in, true)
				c.Class("overlong-prefix:" + errClass(out.err))
				if out.panicked || out.err == nil {
					c.SpecFail("overlong-prefix", in, out.line, "an error", "C17/proto/prefix-overflow-accepted", "a length prefix of 2^64 or more is read as the number its low bits spell")
				}
			}
		}
	}

	// ---- readAll and growcap (function level)
	for i := 0; i < c.N(300, 5000); i++ {
		n := c.Rng.Intn(40)
		wire := make([]byte, n)
		c.Rng.Read(wire)
		limit := max(1, n+c.Rng.Intn(5)-2)
		cs := rnCase{codec: "readall", limit: limit, spare: []int{0, 1, 8, 64}[c.Rng.Intn(4)], wire: wire, sched: genSched(c, n), eofWithData: c.Rng.Intn(2) == 0}
		out := runReadNext(cs)
		c.Correspond("readall", cs.driverLine(out.rooms), out.line, n > 0)
		if n <= limit && (out.err != nil || !bytes.Equal(out.dst, wire)) {
			c.SpecFail("readall", cs.driverLine(nil), out.line, "the whole body", "C17/readall/within-limit", "readAll refuses or alters a body within the limit")
		}
		if n > limit && out.err == nil {
			c.SpecFail("readall", cs.driverLine(nil), out.line, "an error", "C17/readall/over-limit", "readAll returns a body over the limit")
		}
	}
	for i := 0; i < c.N(300, 3000); i++ {
		a, b := c.Rng.Intn(5000), c.Rng.Intn(10000)
		if i%3 == 0 { // the band in which the growth loop needs more than one step
			a = 1024 + c.Rng.Intn(4000)
			b = a + a/4 + c.Rng.Intn(a-a/4+1)
		}
		g := larking.VerifGrowcap(a, b)
		c.Correspond("growcap", join("growcap", strconv.Itoa(a), strconv.Itoa(b)), strconv.Itoa(g), true)
		if g < b && b > a { // what ReadNext relies on: the grown capacity holds the wanted length
			c.SpecFail("growcap", fmt.Sprintf("growcap(%d, %d)", a, b), strconv.Itoa(g), "at least the wanted capacity", "C17/growcap/too-small", "the grown capacity is smaller than what was asked for: ReadNext slices past it")
		}
	}
	// a message larger than a big carried buffer: between 1.25 and 2 times its capacity
	for _, capc := range []int{1024, 1500, 4096} {
		for _, size := range []int{capc*5/4 + 1, capc * 3 / 2, capc*2 - 1, capc * 2, capc*2 + 1} {
			m := make([]byte, size)
			c.Rng.Read(m)
			wire := append(protowire.AppendVarint(nil, uint64(size)), m...)
			cs := rnCase{codec: "proto", limit: 1 << 20, spare: capc, wire: wire, sched: []int{3, capc / 2, 7}, eofWithData: c.Rng.Intn(2) == 0}
			out := runReadNext(cs)
			in := fmt.Sprintf("proto message of %d bytes into an empty buffer of capacity %d", size, capc)
			c.Eval("proto-grow", in, true)
			if out.panicked || out.err != nil || out.n != size || !bytes.Equal(out.dst[:min(out.n, len(out.dst))], m) {
				c.SpecFail("proto-grow", in, truncS(out.line, 120), "the message", "C17/proto/grow", "a message that needs the buffer to grow is not returned (panic or wrong bytes)")
			}
		}
	}
}

func c17CheckSeq(c *Ctx, codec string, ms [][]byte, wire []byte, limit, carry0, spare int, sched []int, eofd bool, mode string) {
	got, final, panicked, badN := seqRun(c, mode+"-"+codec, codec, limit, wire, carry0, spare, sched, eofd)
	in := fmt.Sprintf("%s limit=%d carry=%d spare=%d eofWithData=%v sched=%s wire=%x", codec, limit, carry0, spare, eofd, intsCSV(sched), wire)
	if len(in) > 400 {
		in = in[:400] + "..."
	}
	kind := mode + "-" + codec
	c.Class(kind + ":" + final)
	if panicked {
		c.SpecFail(kind, in, "panic", "no panic", "C17/"+codec+"/panic", "ReadNext crashes the caller")
		return
	}
	if badN {
		c.SpecFail(kind, in, "n out of range", "0 <= n <= len(dst)", "C17/"+codec+"/bad-n", "reported message length outside the returned buffer")
		return
	}
	if codec == "body" {
		all := bytes.Join(got, nil)
		ok := bytes.Equal(all, wire) && final == "eof"
		for i, ch := range got {
			if len(ch) > limit || (i < len(got)-1 && len(ch) != limit) || (len(ch) == 0 && !(len(wire) == 0 || i == len(got)-1)) {
				ok = false
			}
		}
		if !ok {
			var sizes []int
			for _, ch := range got {
				sizes = append(sizes, len(ch))
			}
			key := "C17/body/bytes-lost"
			if bytes.Equal(all, wire) {
				key = "C17/body/chunking"
			}
			c.SpecFail(kind, in, fmt.Sprintf("chunks=%v total=%d final=%s", sizes, len(all), final), fmt.Sprintf("%d bytes in chunks of %d", len(wire), limit), key, "HttpBody chunker loses bytes or mis-sizes chunks")
		}
		return
	}
	// proto / json: messages up to the first over-limit one, then too-large; else all then eof
	want := 0
	wantFinal := "eof"
	for _, m := range ms {
		if len(m) > limit {
			wantFinal = "too-large"
			break
		}
		want++
	}
	ok := len(got) == want && final == wantFinal
	for k := 0; ok && k < want; k++ {
		ok = bytes.Equal(got[k], ms[k])
	}
	if !ok {
		key := "C17/" + codec + "/sequence"
		if eofd && final != wantFinal {
			key = "C17/" + codec + "/data-with-eof"
		}
		if wantFinal == "too-large" {
			key = "C17/" + codec + "/limit"
		}
		c.SpecFail(kind, in, fmt.Sprintf("%d messages then %s", len(got), final), fmt.Sprintf("%d messages then %s", want, wantFinal), key, "reading back what WriteNext wrote gives a different sequence")
	}
}
