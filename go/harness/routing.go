package main

// Shared machinery for the routing properties (C01, C02, C16, part of C09): rune
// classification, template ASTs with an independent matcher (the google.api.http reading
// used as oracle), rule-set generation, and the trie-level differential driver protocol.

import (
	"fmt"
	"sort"
	"strconv"
	"strings"
	"unicode"
	"unicode/utf8"

	"google.golang.org/genproto/googleapis/api/annotations"
	"google.golang.org/protobuf/reflect/protoreflect"
	"larking.io/larking"
)

// runesOf renders a string as classified runes for the driver.
func runesOf(s string) string {
	if s == "" {
		return "-"
	}
	var out []string
	for i := 0; i < len(s); {
		r, w := utf8.DecodeRuneInString(s[i:])
		fl := 0
		if unicode.IsLetter(r) {
			fl |= 1
		}
		if larking.VerifIsIdent(r) {
			fl |= 2
		}
		if larking.VerifIsLiteral(r) {
			fl |= 4
		}
		if larking.VerifIsPath(r) {
			fl |= 8
		}
		out = append(out, fmt.Sprintf("%x.%d.%d", s[i:i+w], r, fl))
		i += w
	}
	return strings.Join(out, "_")
}

var tokNames = func() map[uint16]string {
	m := map[uint16]string{}
	for k, v := range larking.VerifTokenNames() {
		m[v] = k
	}
	return m
}()

func lexErrKind(err error) string {
	switch msg := err.Error(); {
	case strings.Contains(msg, "too many tokens"):
		return "token-limit"
	case strings.Contains(msg, "unexpected rune"):
		return "unexpected"
	case strings.Contains(msg, "short read"):
		return "short"
	}
	return "other"
}

func implLex(f func(string) ([]larking.VerifToken, error), s string) (out string) {
	defer func() {
		if r := recover(); r != nil {
			out = "panic"
		}
	}()
	toks, err := f(s)
	if err != nil {
		return "err " + lexErrKind(err)
	}
	var parts []string
	for _, t := range toks {
		parts = append(parts, tokNames[t.Typ]+":"+hexS(t.Val))
	}
	return "ok " + strings.Join(parts, " ")
}

// ---------- template AST and the independent matcher ----------

const (
	sLit = iota
	sStar
	sStarStar
	sVar
)

type tseg struct {
	kind  int
	lit   string
	field string // dotted field path
	sub   []tseg // nil = implicit "*"
}

type ttmpl struct {
	segs []tseg
	verb string
}

func renderSegs(segs []tseg) string {
	var parts []string
	for _, s := range segs {
		switch s.kind {
		case sLit:
			parts = append(parts, s.lit)
		case sStar:
			parts = append(parts, "*")
		case sStarStar:
			parts = append(parts, "**")
		case sVar:
			if s.sub == nil {
				parts = append(parts, "{"+s.field+"}")
			} else {
				parts = append(parts, "{"+s.field+"="+renderSegs(s.sub)+"}")
			}
		}
	}
	return strings.Join(parts, "/")
}

// shapeOf renders the trie edges a template walks: literals as they are, every variable
// (named or bare wildcard) as its pattern in braces. Two templates with equal shapes and
// kinds end at the same trie node slot.
func shapeOf(t ttmpl) (shape string, fields []string) {
	var parts []string
	for _, s := range t.segs {
		switch s.kind {
		case sLit:
			parts = append(parts, s.lit)
		case sStar:
			parts = append(parts, "{*}")
			fields = append(fields, "_")
		case sStarStar:
			parts = append(parts, "{**}")
			fields = append(fields, "_")
		case sVar:
			pat := "*"
			if s.sub != nil {
				pat = renderSegs(s.sub)
			}
			parts = append(parts, "{"+pat+"}")
			fields = append(fields, s.field)
		}
	}
	return "/" + strings.Join(parts, "/") + ":" + t.verb, fields
}

// ambiguousSameMethod: two bindings of ONE method on the same kind whose templates walk the
// same trie edges but bind other fields, another body or another response body. larking
// keeps whichever was registered first and silently ignores the other (recorded finding).
func ambiguousSameMethod(rules []rrule) map[int]bool {
	type key struct {
		m           int
		kind, shape string
	}
	seen := map[key]string{}
	amb := map[int]bool{}
	for _, r := range rules {
		for _, b := range append([]rbind{r.primary}, r.additional...) {
			if b.raw != "" {
				continue
			}
			shape, fields := shapeOf(b.t)
			k := key{r.method, strings.ToUpper(b.kind), shape}
			bind := strings.Join(fields, ",") + "|" + b.body + "|" + b.resp
			if old, ok := seen[k]; ok && old != bind {
				amb[r.method] = true
			}
			seen[k] = bind
		}
	}
	return amb
}

func (t ttmpl) String() string {
	s := "/" + renderSegs(t.segs)
	if t.verb != "" {
		s += ":" + t.verb
	}
	return s
}

type binding map[string]string

// matchSegs returns every way segs can consume all of raw. strict narrows the reading.
func matchSegs(segs []tseg, raw []string, strict bool) []binding {
	if len(segs) == 0 {
		if len(raw) == 0 {
			return []binding{{}}
		}
		return nil
	}
	s := segs[0]
	var out []binding
	switch s.kind {
	case sLit:
		if len(raw) > 0 && raw[0] == s.lit {
			out = matchSegs(segs[1:], raw[1:], strict)
		}
	case sStar:
		if len(raw) > 0 && (!strict || okStrictSeg(raw[0])) {
			out = matchSegs(segs[1:], raw[1:], strict)
		}
	case sStarStar:
		minN := 0
		if strict {
			minN = 1
			if len(segs) > 1 {
				return nil // "**" only in last position under the strict reading
			}
		}
		for n := minN; n <= len(raw); n++ {
			ok := true
			for _, x := range raw[:n] {
				ok = ok && (!strict || okStrictSeg(x))
			}
			if ok {
				out = append(out, matchSegs(segs[1:], raw[n:], strict)...)
			}
		}
	case sVar:
		sub := s.sub
		if sub == nil {
			sub = []tseg{{kind: sStar}}
		}
		for n := 0; n <= len(raw); n++ {
			if strict && len(sub) > 0 && sub[len(sub)-1].kind == sStarStar && len(segs) > 1 {
				break
			}
			for range matchSegs(sub, raw[:n], strict) {
				for _, rest := range matchSegs(segs[1:], raw[n:], strict) {
					b := binding{s.field: strings.Join(raw[:n], "/")}
					conflict := false
					for k, v := range rest {
						if old, ok := b[k]; ok && old != v {
							conflict = true
						}
						b[k] = v
					}
					if !conflict {
						out = append(out, b)
					}
				}
				break
			}
		}
	}
	return out
}

const strictChars = "abcdefghijklmnopqrstuvwxyzABCDEFGHIJKLMNOPQRSTUVWXYZ0123456789-_.~!$&'()*+,;=@"

func okStrictSeg(s string) bool {
	if s == "" {
		return false
	}
	for _, r := range s {
		if !strings.ContainsRune(strictChars, r) && !unicode.IsLetter(r) && !unicode.IsNumber(r) {
			return false
		}
	}
	return true
}

// matchTemplate applies the template to a normalised request path.
func matchTemplate(t ttmpl, path string, strict bool) []binding {
	if !strings.HasPrefix(path, "/") {
		return nil
	}
	raw := strings.Split(path[1:], "/")
	if t.verb != "" {
		last := raw[len(raw)-1]
		i := strings.LastIndex(last, ":")
		if i < 0 || last[i+1:] != t.verb {
			return nil
		}
		raw = append(append([]string{}, raw[:len(raw)-1]...), last[:i])
	} else if strict && strings.Contains(path, ":") {
		return nil
	}
	return matchSegs(t.segs, raw, strict)
}

// ---------- rule sets ----------

type rbind struct {
	kind string // GET, POST, ..., custom kind, "*"
	t    ttmpl
	body string
	resp string
	raw  string // when non-empty: a raw (possibly malformed) template string instead of t
}

func (b rbind) tmplString() string {
	if b.raw != "" {
		return b.raw
	}
	return b.t.String()
}

type rrule struct {
	method     int // index of the method (M0, M1, ...)
	primary    rbind
	additional []rbind
	nested     bool // give the first additional binding a nested additional binding
}

func (b rbind) httpRule() *annotations.HttpRule {
	r := &annotations.HttpRule{Body: b.body, ResponseBody: b.resp}
	p := b.tmplString()
	switch b.kind {
	case "GET":
		r.Pattern = &annotations.HttpRule_Get{Get: p}
	case "PUT":
		r.Pattern = &annotations.HttpRule_Put{Put: p}
	case "POST":
		r.Pattern = &annotations.HttpRule_Post{Post: p}
	case "DELETE":
		r.Pattern = &annotations.HttpRule_Delete{Delete: p}
	case "PATCH":
		r.Pattern = &annotations.HttpRule_Patch{Patch: p}
	default:
		r.Pattern = &annotations.HttpRule_Custom{Custom: &annotations.CustomHttpPattern{Kind: b.kind, Path: p}}
	}
	return r
}

func (r rrule) httpRule() *annotations.HttpRule {
	hr := r.primary.httpRule()
	for i, a := range r.additional {
		ar := a.httpRule()
		if r.nested && i == 0 {
			ar.AdditionalBindings = []*annotations.HttpRule{getRule("/nested/x")}
		}
		hr.AdditionalBindings = append(hr.AdditionalBindings, ar)
	}
	return hr
}

// field paths usable in templates: dotted path -> (id, conversion kind)
type fieldInfo struct {
	id   int
	kind string // S: any text converts, I: int32 text, U: uint32 text, L: int64 text, X: nothing converts
}

var routeFields = map[string]fieldInfo{
	"name": {1, "S"}, "other_name": {2, "S"}, "otherName": {2, "S"}, "nested.s": {3, "S"}, "nested.child.s": {4, "S"},
	"i32": {5, "I"}, "nested": {6, "X"}, "rs": {7, "S"}, "nested.child.child.s": {8, "S"}, "nested.n": {9, "I"},
	"oa": {10, "S"}, "nested.tags": {11, "S"}, "u32": {12, "U"}, "f32": {13, "U"}, "i64": {14, "L"}, "s64": {15, "L"},
}

func fieldTable() string {
	var keys []string
	for k := range routeFields {
		keys = append(keys, k)
	}
	sort.Strings(keys)
	var out []string
	for _, k := range keys {
		var hs []string
		for _, p := range strings.Split(k, ".") {
			hs = append(hs, hexS(p))
		}
		out = append(out, fmt.Sprintf("%s:%d:%s", strings.Join(hs, "."), routeFields[k].id, routeFields[k].kind))
	}
	return strings.Join(out, "|")
}

func fieldID(fds []protoreflect.FieldDescriptor) string {
	if len(fds) == 0 {
		return "_"
	}
	var names []string
	for _, fd := range fds {
		names = append(names, string(fd.Name()))
	}
	if fi, ok := routeFields[strings.Join(names, ".")]; ok {
		return strconv.Itoa(fi.id)
	}
	return "?" + strings.Join(names, ".")
}

// bindingLine renders one binding for the driver.
func bindingLine(method, ruleID int, role string, b rbind) string {
	bodyOk, respOk := "1", "1"
	if b.body != "" && b.body != "*" {
		if _, ok := routeFields[b.body]; !ok || b.body == "rs" {
			if b.body != "nested" && b.body != "nested.child" {
				bodyOk = "0"
			}
		}
	}
	if b.resp != "" && b.resp != "nested" && b.resp != "text" {
		respOk = "0"
	}
	return strings.Join([]string{strconv.Itoa(method), strconv.Itoa(ruleID), role, hexS(strings.ToUpper(b.kind)), runesOf(b.tmplString()), bodyOk, respOk, fieldTable()}, ",")
}

func rulesLine(rules []rrule) string {
	var out []string
	id := 0
	for _, r := range rules {
		out = append(out, bindingLine(r.method, id, "P", r.primary))
		id++
		for i, a := range r.additional {
			role := "A"
			if r.nested && i == 0 {
				role = "N"
			}
			out = append(out, bindingLine(r.method, id, role, a))
			id++
		}
	}
	if len(out) == 0 {
		return "-"
	}
	return strings.Join(out, ";")
}

func addRuleErrKind(err error) string {
	switch msg := err.Error(); {
	case strings.Contains(msg, "field not found"):
		return "field-not-found"
	case strings.Contains(msg, "duplicate rule"):
		return "duplicate-rule"
	case strings.Contains(msg, "response body field error"):
		return "response-body-field"
	case strings.Contains(msg, "body field error"):
		return "body-field"
	case strings.Contains(msg, "nested rules"):
		return "nested-rules"
	case strings.Contains(msg, "nested variables"):
		return "nested-variable"
	case strings.Contains(msg, "path:"):
		return lexErrKind(err)
	}
	return "other:" + err.Error()
}

// routeFixture: methods M0..Mn-1 over Req/Reply without annotations (descriptors only).
type routeEnv struct {
	fx      *Fixture
	methods []protoreflect.MethodDescriptor
	n       int
}

func (env *routeEnv) methodName(i int) string {
	if i < env.n {
		return "/verif.v1.Svc/M" + strconv.Itoa(i)
	}
	return "/verif.v1.Svc2/M" + strconv.Itoa(i-env.n)
}

var routeEnvN = 3

func methodIndex(name string) int {
	if strings.HasPrefix(name, "/verif.v1.Svc2/M") {
		i, _ := strconv.Atoi(strings.TrimPrefix(name, "/verif.v1.Svc2/M"))
		return i + routeEnvN
	}
	i, _ := strconv.Atoi(strings.TrimPrefix(name, "/verif.v1.Svc/M"))
	return i
}

// method index i < n is Svc.Mi, i >= n is Svc2.M(i-n): same short names in another service.
func newRouteEnv(n int) (*routeEnv, error) {
	var ms []*MethodSpec
	for i := 0; i < n; i++ {
		ms = append(ms, &MethodSpec{Name: "M" + strconv.Itoa(i), In: "Req", Out: "Reply"})
	}
	for i := 0; i < n; i++ {
		ms = append(ms, &MethodSpec{Service: "Svc2", Name: "M" + strconv.Itoa(i), In: "Req", Out: "Reply"})
	}
	fdp := buildFile(ms)
	files, fd, err := newFiles(fdp)
	if err != nil {
		return nil, err
	}
	env := &routeEnv{fx: &Fixture{Files: files, File: fd, Methods: ms}}
	for si := 0; si < 2; si++ {
		sd := fd.Services().Get(si)
		for i := 0; i < n; i++ {
			env.methods = append(env.methods, sd.Methods().ByName(protoreflect.Name("M"+strconv.Itoa(i))))
		}
	}
	env.n = n
	return env, nil
}

// buildImplTrie adds the rules one transaction each (clone, add, keep or revert), returning
// the per-rule outcomes in the driver's format.
func (env *routeEnv) buildImplTrie(rules []rrule) (*larking.VerifTrie, []string) {
	t := larking.NewVerifTrie()
	var outs []string
	for _, r := range rules {
		next := t.Clone()
		res := func() (res string) {
			defer func() {
				if p := recover(); p != nil {
					res = "panic"
				}
			}()
			if err := next.AddRule(r.httpRule(), env.methods[r.method], env.methodName(r.method)); err != nil {
				return "err:" + addRuleErrKind(err)
			}
			return "ok"
		}()
		if res == "ok" {
			t = next
		}
		outs = append(outs, res)
	}
	return t, outs
}

type routeResult struct {
	line   string // canonical, comparable with the driver
	method int    // -1 if none
	caps   binding
	class  string
}

func implRoute(t *larking.VerifTrie, verb, path string) (rr routeResult) {
	rr.method = -1
	defer func() {
		if p := recover(); p != nil {
			rr.line, rr.class = "panic", "panic"
		}
	}()
	m, ps, err := t.Match(path, verb)
	if err != nil {
		msg := err.Error()
		switch {
		case strings.Contains(msg, "not found"):
			rr.class = "not-found"
		case strings.Contains(msg, "method not allowed"):
			rr.class = "method-not-allowed"
		default:
			rr.class = "bad-capture"
		}
		rr.line = "fail " + rr.class
		return
	}
	mi := methodIndex(m.Name)
	rr.method, rr.class = mi, "found"
	rr.caps = binding{}
	var caps []string
	for _, p := range ps {
		id := fieldID(p.Fields)
		text := ""
		if len(p.Fields) > 0 {
			switch v := p.Val.Interface().(type) {
			case string:
				text = v
			case int32:
				text = strconv.Itoa(int(v))
			case int64:
				text = strconv.FormatInt(v, 10)
			case uint32:
				text = strconv.FormatUint(uint64(v), 10)
			default:
				text = fmt.Sprint(v)
			}
			var names []string
			for _, fd := range p.Fields {
				names = append(names, string(fd.Name()))
			}
			rr.caps[strings.Join(names, ".")] = text
		}
		caps = append(caps, id+"="+hexS(text))
	}
	rr.line = fmt.Sprintf("found %d %s", mi, strings.Join(caps, ";"))
	return
}

func larkingLexTemplate(s string) ([]larking.VerifToken, error) { return larking.VerifLexTemplate(s) }
func larkingLexPath(s string) ([]larking.VerifToken, error)     { return larking.VerifLexPath(s) }
