package main

import (
	"net/http"

	"context"
	"fmt"
	"google.golang.org/protobuf/reflect/protoreflect"
	"io"
	"net/http/httptest"
	"strconv"
	"strings"
	"time"

	gws "github.com/gobwas/ws"
	"github.com/gobwas/ws/wsutil"
	"google.golang.org/genproto/googleapis/api/annotations"
	"google.golang.org/genproto/googleapis/api/serviceconfig"
	"google.golang.org/grpc/health"
	healthpb "google.golang.org/grpc/health/grpc_health_v1"
	"google.golang.org/protobuf/encoding/protojson"
	"google.golang.org/protobuf/proto"
	"google.golang.org/protobuf/types/dynamicpb"
	larkinghealth "larking.io/health"
	"larking.io/larking"
)

func init() { props["C19"] = runC19 }

// specSelects is the documented selector semantics, written independently.
func specSelects(sel, name string) bool {
	if sel == name || sel == "*" {
		return true
	}
	if strings.HasSuffix(sel, ".*") {
		p := sel[:len(sel)-1] // "pkg."
		return strings.HasPrefix(name, p) && len(name) > len(p)
	}
	return false
}

func implSelect(sels []string, name string) (out string) {
	defer func() {
		if r := recover(); r != nil {
			out = "panic"
		}
	}()
	rules := make([]*annotations.HttpRule, len(sels))
	idx := map[*annotations.HttpRule]int{}
	for i, s := range sels {
		rules[i] = &annotations.HttpRule{Selector: s}
		idx[rules[i]] = i
	}
	var vs larking.VerifSelector
	vs.SetRules(rules)
	var got []string
	for _, r := range vs.GetRules(name) {
		got = append(got, strconv.Itoa(idx[r]))
	}
	return strings.Join(got, ",")
}

func runC19(c *Ctx) {
	c.Rule("function level: generated selector sets (exact names, wildcards at every depth, siblings sharing a prefix, unrelated packages, '*') x method names of depth 1..4 over a small component alphabet, plus a malformed stream (trailing dots, '*.x', empty, 'a..b'); API level: the same rule given as annotation and through ServiceConfigOption must route the same requests; health.AddHealthz against the real health server. Non-trivial: at least one selector; distinct by input.")
	comps := []string{"a", "b", "ab", "pkg", "Svc", "Svc2", "S", "Get", "v1", "x"}
	genName := func(depth int) string {
		var p []string
		for i := 0; i < depth; i++ {
			p = append(p, comps[c.Rng.Intn(len(comps))])
		}
		return strings.Join(p, ".")
	}
	for i := 0; i < c.N(4000, 80000); i++ {
		name := genName(1 + c.Rng.Intn(4))
		parts := strings.Split(name, ".")
		var sels []string
		for j, k := 0, c.Rng.Intn(6); j < k; j++ {
			switch c.Rng.Intn(9) {
			case 0:
				sels = append(sels, name)
			case 1:
				sels = append(sels, "*")
			case 2: // wildcard covering the name at some depth
				d := c.Rng.Intn(len(parts))
				sels = append(sels, strings.Join(append(append([]string{}, parts[:d]...), "*"), "."))
			case 3: // proper prefix as an exact selector
				d := 1 + c.Rng.Intn(len(parts))
				sels = append(sels, strings.Join(parts[:d], "."))
			case 4: // deeper than the name
				sels = append(sels, name+"."+comps[c.Rng.Intn(len(comps))])
			case 5: // wildcard below the name
				sels = append(sels, name+".*")
			case 6: // sibling sharing a textual prefix
				sels = append(sels, name+"2", strings.Join(parts[:len(parts)-1], ".")+"."+parts[len(parts)-1][:1])
			default:
				sels = append(sels, genName(1+c.Rng.Intn(4)))
				if c.Rng.Intn(3) == 0 {
					sels[len(sels)-1] += ".*"
				}
			}
		}
		var clean []string
		for _, s := range sels {
			if s != "" && !strings.HasPrefix(s, ".") {
				clean = append(clean, s)
			}
		}
		sels = clean
		impl := implSelect(sels, name)
		c.Correspond("selector", join("selector", strings.Join(sels, "|"), name), impl, len(sels) > 0)
		got := map[int]bool{}
		if impl != "" && impl != "panic" {
			for _, s := range strings.Split(impl, ",") {
				n, _ := strconv.Atoi(s)
				got[n] = true
			}
		}
		for k, s := range sels {
			want := specSelects(s, name)
			if want {
				c.Class("selects")
			} else {
				c.Class("does-not-select")
			}
			if impl == "panic" || got[k] != want {
				key := "C19/selector/missed"
				if !want {
					key = "C19/selector/overbinds-exact-as-prefix"
					if strings.HasSuffix(s, ".*") {
						key = "C19/selector/overbinds-wildcard-on-own-name"
					}
				}
				c.SpecFail("selector", fmt.Sprintf("selectors=%v name=%s", sels, name), fmt.Sprintf("rule %d (%s) bound=%v", k, s, got[k]), fmt.Sprintf("bound=%v", want), key, "rule bound although its selector does not cover the method (or not bound although it does)")
			}
		}
	}
	// malformed selectors: correspondence (incl. panics) only
	bad := []string{"", ".", "a.", "a..b", "*.x", "*.", "a.*.b", ".a", "a.*.", "**", "a.**", "a.*x"}
	for i := 0; i < c.N(300, 3000); i++ {
		var sels []string
		for j, k := 0, 1+c.Rng.Intn(3); j < k; j++ {
			if c.Rng.Intn(2) == 0 {
				sels = append(sels, bad[c.Rng.Intn(len(bad))])
			} else {
				sels = append(sels, genName(1+c.Rng.Intn(3)))
			}
		}
		name := genName(1 + c.Rng.Intn(3))
		if c.Rng.Intn(5) == 0 {
			name = bad[c.Rng.Intn(len(bad))]
		}
		ok := true
		for _, s := range sels {
			ok = ok && !strings.ContainsAny(s, "|\t")
		}
		if !ok {
			continue
		}
		impl := implSelect(sels, name)
		c.Correspond("selector-malformed", join("selector", selEnc(sels), selEnc([]string{name})), impl, true)
		c.Class("malformed:" + map[bool]string{true: "panic", false: "ok"}[impl == "panic"])
	}
	c19API(c)
}

// selEnc writes selectors for the driver line; the empty string is spelled "<>" so that a
// trailing empty field survives the line protocol.
func selEnc(sels []string) string {
	out := make([]string, len(sels))
	for i, s := range sels {
		if s == "" {
			s = "<>"
		}
		out[i] = s
	}
	return strings.Join(out, "|")
}

func c19API(c *Ctx) {
	// the reply tells what the handler received (name, nested.s, i32) and has a populated sub-message,
	// so that body / response_body mappings show in the response
	echo := func(ctx context.Context, in *dynamicpb.Message) (proto.Message, error) {
		out := dynamicpb.NewMessage(in.Descriptor().ParentFile().Messages().ByName("Reply"))
		fs, ofs := in.Descriptor().Fields(), out.Descriptor().Fields()
		ns := ""
		if nfd := fs.ByName("nested"); nfd != nil && in.Has(nfd) {
			nm := in.Get(nfd).Message()
			ns = nm.Get(nm.Descriptor().Fields().ByName("s")).String()
		}
		out.Set(ofs.ByName("text"), protoreflect.ValueOfString(fmt.Sprintf("name=%s nested.s=%s i32=%d", in.Get(fs.ByName("name")).String(), ns, in.Get(fs.ByName("i32")).Int())))
		on := out.Mutable(ofs.ByName("nested")).Message()
		on.Set(on.Descriptor().Fields().ByName("s"), protoreflect.ValueOfString("reply-nested"))
		return out, nil
	}
	// the same rule as annotation and as service-config rule
	rulesets := []func() *annotations.HttpRule{
		func() *annotations.HttpRule { return getRule("/c19/{name}/x") },
		func() *annotations.HttpRule { return postRule("/c19/things/{nested.s}:act", "*") },
		func() *annotations.HttpRule {
			r := getRule("/c19/a/{name=b/*}")
			r.AdditionalBindings = []*annotations.HttpRule{getRule("/c19/alt/{i32}")}
			return r
		},
		func() *annotations.HttpRule { return customRule("PUT", "/c19/put/{name=**}", "nested") },
		func() *annotations.HttpRule { r := getRule("/c19/rb/{name}"); r.ResponseBody = "nested"; return r },
		func() *annotations.HttpRule {
			r := postRule("/c19/rb2/{name}", "nested")
			r.ResponseBody = "nested"
			r.AdditionalBindings = []*annotations.HttpRule{{Pattern: &annotations.HttpRule_Get{Get: "/c19/rb3/{name}"}, ResponseBody: "nested"}}
			return r
		},
	}
	paths := []struct{ verb, path string }{{"GET", "/c19/v/x"}, {"GET", "/c19/v/y"}, {"POST", "/c19/things/t1:act"}, {"GET", "/c19/things/t1:act"}, {"GET", "/c19/a/b/c"}, {"GET", "/c19/alt/5"}, {"GET", "/c19/alt/notanumber"}, {"PUT", "/c19/put/a/b/c"}, {"PUT", "/c19/put"}, {"POST", "/verif.v1.Svc/M"}, {"GET", "/nothing"}, {"GET", "/c19/rb/n1"}, {"POST", "/c19/rb2/n2"}, {"GET", "/c19/rb3/n3"}}
	for ri, mk := range rulesets {
		annot, err1 := NewFixture([]*MethodSpec{{Name: "M", In: "Req", Out: "Reply", Unary: echo, Rule: mk()}, {Name: "Other", In: "Req", Out: "Reply", Unary: echo}}, nil)
		cfgRule := mk()
		cfgRule.Selector = "verif.v1.Svc.M"
		sc := &serviceconfig.Service{Http: &annotations.Http{Rules: []*annotations.HttpRule{cfgRule}}}
		fixtureConfigFirst = ri%2 == 1
		conf, err2 := NewFixture([]*MethodSpec{{Name: "M", In: "Req", Out: "Reply", Unary: echo}, {Name: "Other", In: "Req", Out: "Reply", Unary: echo}}, sc)
		fixtureConfigFirst = false
		if err1 != nil || err2 != nil || annot.RegErr != nil || conf.RegErr != nil || annot.RegPanic != nil || conf.RegPanic != nil {
			c.SpecFail("api-config", fmt.Sprint("rule ", ri), fmt.Sprint(err1, err2, annot.RegErr, conf.RegErr, annot.RegPanic, conf.RegPanic), "both register", "C19/api/registration-differs", "annotation and config registration differ")
			continue
		}
		for _, p := range paths {
			body := func() *strings.Reader { return strings.NewReader(`{"s":"from-body"}`) }
			if ri != 3 && ri != 5 { // rules with body "*": the body is the whole request message
				body = func() *strings.Reader { return strings.NewReader(`{"nested":{"s":"from-body"}}`) }
			}
			r1 := httptest.NewRequest(p.verb, p.path, body())
			r2 := httptest.NewRequest(p.verb, p.path, body())
			if p.verb == "GET" {
				r1 = httptest.NewRequest(p.verb, p.path, nil)
				r2 = httptest.NewRequest(p.verb, p.path, nil)
			}
			rec1, pn1 := annot.Serve(r1)
			rec2, pn2 := conf.Serve(r2)
			c.Eval("api-config", fmt.Sprintf("rule%d %s %s", ri, p.verb, p.path), true)
			if pn1 != nil || pn2 != nil || rec1.Code != rec2.Code || rec1.Body.String() != rec2.Body.String() {
				c.SpecFail("api-config", fmt.Sprintf("rule%d %s %s", ri, p.verb, p.path), fmt.Sprintf("config: %d %q", rec2.Code, rec2.Body.String()), fmt.Sprintf("annotation: %d %q", rec1.Code, rec1.Body.String()), "C19/api/config-differs-from-annotation", "a service-config rule does not behave like the same annotation")
			}
		}
	}

	// every selector form that covers the method binds the rule exactly like the annotation; every
	// form that does not cover it binds nothing (each selector alone in its configuration)
	{
		mk := func() *annotations.HttpRule { return getRule("/c19/sel/{name}") }
		annot, err1 := NewFixture([]*MethodSpec{{Name: "M", In: "Req", Out: "Reply", Unary: echo, Rule: mk()}}, nil)
		bare, err0 := NewFixture([]*MethodSpec{{Name: "M", In: "Req", Out: "Reply", Unary: echo}}, nil)
		for _, sel := range []struct {
			s      string
			covers bool
		}{{"verif.v1.Svc.M", true}, {"verif.v1.Svc.*", true}, {"verif.v1.*", true}, {"verif.*", true}, {"*", true},
			{"verif.v1.Svc.M.*", false}, {"verif.v1.Sv.*", false}, {"verif.v1.SvcX.*", false}, {"verif.v1.Svc.MX", false}, {"verif.v1.Svc", false}, {"other.*", false}, {"veri.*", false}} {
			for _, cfgFirst := range []bool{false, true} {
				rule := mk()
				rule.Selector = sel.s
				fixtureConfigFirst = cfgFirst
				conf, err2 := NewFixture([]*MethodSpec{{Name: "M", In: "Req", Out: "Reply", Unary: echo}}, &serviceconfig.Service{Http: &annotations.Http{Rules: []*annotations.HttpRule{rule}}})
				fixtureConfigFirst = false
				in := fmt.Sprintf("selector %q alone in the config (config option first: %v), rule GET /c19/sel/{name} for verif.v1.Svc.M", sel.s, cfgFirst)
				c.Eval("api-selector", in, true)
				if err0 != nil || err1 != nil || err2 != nil || conf.RegErr != nil || conf.RegPanic != nil {
					c.SpecFail("api-selector", in, fmt.Sprint(err0, err1, err2, conf.RegErr, conf.RegPanic), "registered", "C19/api/selector-registration", "a configuration with this selector cannot be registered")
					continue
				}
				ref := bare
				if sel.covers {
					ref = annot
				}
				for _, path := range []string{"/c19/sel/x", "/c19/sel/x/y", "/c19/sel"} {
					rec1, _ := ref.Serve(httptest.NewRequest("GET", path, nil))
					rec2, pn := conf.Serve(httptest.NewRequest("GET", path, nil))
					if pn != nil || rec1.Code != rec2.Code || rec1.Body.String() != rec2.Body.String() {
						key := "C19/api/selector-overbinds"
						if sel.covers {
							key = "C19/api/selector-not-bound"
						}
						c.SpecFail("api-selector", in+": GET "+path, fmt.Sprintf("%d %q", rec2.Code, truncS(rec2.Body.String(), 80)), fmt.Sprintf("%d %q", rec1.Code, truncS(rec1.Body.String(), 80)), key, "a service-config rule is not bound to exactly the methods its selector covers")
					}
				}
			}
		}
	}

	// one rule selected for two methods that share their short name in different services: the second
	// registration is a conflict (never silently dropped)
	{
		rule := getRule("/c19/dup/{name}")
		rule.Selector = "verif.v1.*"
		fixtureDeferRegistration = true
		fx, err := NewFixture([]*MethodSpec{{Service: "SvcA", Name: "Check", In: "Req", Out: "Reply", Unary: echo}, {Service: "SvcB", Name: "Check", In: "Req", Out: "Reply", Unary: echo}},
			&serviceconfig.Service{Http: &annotations.Http{Rules: []*annotations.HttpRule{rule}}})
		fixtureDeferRegistration = false
		if err == nil {
			e1, p1 := fx.RegisterOne("SvcA")
			e2, p2 := fx.RegisterOne("SvcB")
			in := "selector verif.v1.* with GET /c19/dup/{name}; services SvcA and SvcB both have a method Check"
			c.Eval("api-selector", in, true)
			if e1 != nil || p1 != nil || p2 != nil {
				c.SpecFail("api-selector", in, fmt.Sprint(e1, p1, p2), "SvcA registers, SvcB is refused", "C19/api/selector-registration", "")
			} else if e2 == nil {
				c.SpecFail("api-selector", in, "the second registration was accepted", "a duplicate-rule error (the rule cannot be bound to both methods)", "C19/api/selected-method-silently-unbound", "a rule whose selector covers a method is neither bound to it nor refused")
			}
		}
	}

	// a config rule on an ANNOTATED method that restates the annotation's kind and pattern with another
	// body mapping: the selected rule behaves exactly as if it were the method's annotation
	{
		ann := customRule("PATCH", "/c19/re/{name}", "nested")
		cfg := customRule("PATCH", "/c19/re/{name}", "*")
		cfg.Selector = "verif.v1.Svc.M"
		both, err1 := NewFixture([]*MethodSpec{{Name: "M", In: "Req", Out: "Reply", Unary: echo, Rule: ann}},
			&serviceconfig.Service{Http: &annotations.Http{Rules: []*annotations.HttpRule{cfg}}})
		only, err2 := NewFixture([]*MethodSpec{{Name: "M", In: "Req", Out: "Reply", Unary: echo, Rule: customRule("PATCH", "/c19/re/{name}", "*")}}, nil)
		in := `annotation PATCH /c19/re/{name} body "nested" + selected config rule PATCH /c19/re/{name} body "*"`
		c.Eval("api-config", in, true)
		if err1 != nil || err2 != nil || both.RegErr != nil || both.RegPanic != nil || only.RegErr != nil {
			c.SpecFail("api-config", in, fmt.Sprint(err1, err2, both.RegErr, both.RegPanic), "registered", "C19/api/restate-registration", "a config rule restating an annotated pattern is refused")
		} else {
			mkReq := func() *http.Request {
				r := httptest.NewRequest("PATCH", "/c19/re/n1", strings.NewReader(`{"nested":{"s":"from-body"},"i32":7}`))
				r.Header.Set("Content-Type", "application/json")
				return r
			}
			rec1, pn1 := only.Serve(mkReq())
			rec2, pn2 := both.Serve(mkReq())
			if pn1 != nil || pn2 != nil || rec1.Code != rec2.Code || rec1.Body.String() != rec2.Body.String() {
				c.SpecFail("api-config", in, fmt.Sprintf("%d %q", rec2.Code, truncS(rec2.Body.String(), 120)), fmt.Sprintf("as the rule written as the annotation: %d %q", rec1.Code, truncS(rec1.Body.String(), 120)), "C19/api/selected-rule-loses-to-annotation", "a selected config rule on an annotated method does not behave like the same rule written as the annotation")
			}
		}
	}

	// a config rule that restates an annotated method's primary pattern and extends it
	{
		ann := getRule("/c19/w")
		ann.AdditionalBindings = []*annotations.HttpRule{getRule("/c19/w2/{name}")}
		cfg := getRule("/c19/w")
		cfg.Selector = "verif.v1.Svc.M"
		cfg.AdditionalBindings = []*annotations.HttpRule{getRule("/c19/w3/{name}"), postRule("/c19/w", "*")}
		fx, err := NewFixture([]*MethodSpec{{Name: "M", In: "Req", Out: "Reply", Unary: echo, Rule: ann}},
			&serviceconfig.Service{Http: &annotations.Http{Rules: []*annotations.HttpRule{cfg}}})
		if err != nil || fx.RegErr != nil || fx.RegPanic != nil {
			c.SpecFail("api-config", "extend annotated method", fmt.Sprint(err, fx.RegErr, fx.RegPanic), "registered", "C19/api/extend-registration", "config rule restating an annotation's pattern is refused")
		} else {
			for _, p := range []struct{ verb, path string }{{"GET", "/c19/w"}, {"GET", "/c19/w2/x"}, {"GET", "/c19/w3/x"}, {"POST", "/c19/w"}} {
				var r = httptest.NewRequest(p.verb, p.path, nil)
				if p.verb == "POST" {
					r = httptest.NewRequest(p.verb, p.path, strings.NewReader("{}"))
				}
				rec, pn := fx.Serve(r)
				c.Eval("api-config", "extend "+p.verb+" "+p.path, true)
				if pn != nil || rec.Code != 200 {
					c.SpecFail("api-config", "extend "+p.verb+" "+p.path, fmt.Sprint(rec.Code, pn), "200", "C19/api/extend-binding-dropped", "a binding of a config rule / annotation sharing the primary pattern is silently dropped")
				}
			}
		}
	}

	// healthz on configurations that already have an http section
	for _, pre := range []struct {
		what string
		sc   *serviceconfig.Service
		own  []string
	}{
		{"an empty http section", &serviceconfig.Service{Http: &annotations.Http{}}, nil},
		{"fully_decode_reserved_expansion only", &serviceconfig.Service{Http: &annotations.Http{FullyDecodeReservedExpansion: true}}, nil},
		{"the operator's own rules for the same method", &serviceconfig.Service{Http: &annotations.Http{Rules: []*annotations.HttpRule{
			func() *annotations.HttpRule {
				r := getRule("/livez")
				r.Selector = "grpc.health.v1.Health.Check"
				return r
			}(),
			func() *annotations.HttpRule {
				r := getRule("/readyz/{service}")
				r.Selector = "grpc.health.v1.Health.Check"
				return r
			}(),
		}}}, []string{"/livez", "/readyz/x"}},
	} {
		before := len(pre.sc.GetHttp().GetRules())
		larkinghealth.AddHealthz(pre.sc)
		m2, err := larking.NewMux(larking.ServiceConfigOption(pre.sc))
		c.Eval("api-healthz", "AddHealthz on "+pre.what, true)
		if err != nil {
			c.SpecFail("api-healthz", "AddHealthz on "+pre.what, err.Error(), "a mux", "C19/healthz/populated-config", "")
			continue
		}
		hs2 := health.NewServer()
		healthpb.RegisterHealthServer(m2, hs2)
		hs2.SetServingStatus("x", healthpb.HealthCheckResponse_SERVING)
		for _, p := range append([]string{"/v1/healthz"}, pre.own...) {
			rec, pn := serveOn(m2, httptest.NewRequest("GET", p, nil))
			if pn != nil || rec.Code != 200 {
				c.SpecFail("api-healthz", "AddHealthz on "+pre.what+": GET "+p, fmt.Sprintf("%d %s (rules before %d, after %d)", rec.Code, truncS(rec.Body.String(), 80), before, len(pre.sc.GetHttp().GetRules())), "200", "C19/healthz/populated-config", "AddHealthz applied to a configuration that already has an http section does not expose /v1/healthz (or loses the existing rules)")
			}
		}
	}

	// two configurations are independent: editing the rules AddHealthz gave to one does not reach the other
	{
		cfgA, cfgB := &serviceconfig.Service{}, &serviceconfig.Service{}
		larkinghealth.AddHealthz(cfgA)
		larkinghealth.AddHealthz(cfgB)
		mB, errB := larking.NewMux(larking.ServiceConfigOption(cfgB))
		for _, r := range cfgA.GetHttp().GetRules() { // A's owner rewrites ITS rules in place
			if g, ok := r.Pattern.(*annotations.HttpRule_Get); ok {
				g.Get = "/livez"
				r.AdditionalBindings = append(r.AdditionalBindings, getRule("/readyz"))
			}
		}
		c.Eval("api-healthz", "AddHealthz on two configurations, the first one's rules edited afterwards", true)
		if errB == nil {
			hsB := health.NewServer()
			healthpb.RegisterHealthServer(mB, hsB)
			recOK, pn1 := serveOn(mB, httptest.NewRequest("GET", "/v1/healthz", nil))
			recNo, pn2 := serveOn(mB, httptest.NewRequest("GET", "/livez", nil))
			if pn1 != nil || pn2 != nil || recOK.Code != 200 || recNo.Code == 200 {
				c.SpecFail("api-healthz", "AddHealthz on two configurations, the first one's rules edited afterwards", fmt.Sprintf("second mux: GET /v1/healthz -> %d, GET /livez -> %d", recOK.Code, recNo.Code), "200 and not found", "C19/healthz/configs-share-rules", "the rules AddHealthz adds to one configuration are the same objects it adds to another")
			}
		}
	}

	// healthz
	sc := &serviceconfig.Service{}
	larkinghealth.AddHealthz(sc)
	mux, err := larking.NewMux(larking.ServiceConfigOption(sc))
	if err != nil {
		c.Note("healthz mux: " + err.Error())
		return
	}
	hs := health.NewServer()
	healthpb.RegisterHealthServer(mux, hs)
	statuses := []healthpb.HealthCheckResponse_ServingStatus{healthpb.HealthCheckResponse_SERVING, healthpb.HealthCheckResponse_NOT_SERVING, healthpb.HealthCheckResponse_UNKNOWN}
	for _, svc := range []string{"", "my.Service", "other"} {
		for _, st := range statuses {
			hs.SetServingStatus(svc, st)
			url := "/v1/healthz"
			if svc != "" {
				url += "?service=" + svc
			}
			rec, pn := serveOn(mux, httptest.NewRequest("GET", url, nil))
			c.Eval("api-healthz", fmt.Sprintf("%s=%v", svc, st), true)
			want := st.String()
			var resp healthpb.HealthCheckResponse
			if pn != nil || rec.Code != 200 || protojson.Unmarshal(rec.Body.Bytes(), &resp) != nil || resp.Status != st {
				c.SpecFail("api-healthz", fmt.Sprintf("%s=%v", svc, st), fmt.Sprintf("%d %s", rec.Code, rec.Body.String()), want, "C19/healthz/status", "healthz does not report the status set on the health server")
			}
		}
	}
	// the WebSocket binding of /v1/healthz streams the status as it changes (Watch)
	{
		hs.SetServingStatus("", healthpb.HealthCheckResponse_SERVING)
		srv := httptest.NewServer(mux)
		ctx, cancel := context.WithTimeout(context.Background(), 3*time.Second)
		conn, br, _, err := gws.Dial(ctx, "ws"+strings.TrimPrefix(srv.URL, "http")+"/v1/healthz")
		cancel()
		in := "websocket /v1/healthz: first status, then SetServingStatus(NOT_SERVING)"
		c.Eval("api-healthz", in, true)
		if err != nil {
			c.SpecFail("api-healthz", in, err.Error(), "a websocket", "C19/healthz/websocket", "the health service is not exposed over WebSocket at /v1/healthz")
		} else {
			conn.SetDeadline(time.Now().Add(3 * time.Second))
			wsutil.WriteClientMessage(conn, gws.OpText, []byte("{}")) //nolint
			var rw io.ReadWriter = conn
			if br != nil { // frames that arrived together with the upgrade response
				rw = struct {
					io.Reader
					io.Writer
				}{br, conn}
			}
			read := func() string {
				b, _, err := wsutil.ReadServerData(rw)
				if err != nil {
					return "error: " + err.Error()
				}
				var resp healthpb.HealthCheckResponse
				if protojson.Unmarshal(b, &resp) != nil {
					return "undecodable: " + string(b)
				}
				return resp.Status.String()
			}
			first := read()
			hs.SetServingStatus("", healthpb.HealthCheckResponse_NOT_SERVING)
			second := read()
			conn.Close()
			if first != "SERVING" || second != "NOT_SERVING" {
				c.SpecFail("api-healthz", in, first+" then "+second, "SERVING then NOT_SERVING", "C19/healthz/websocket-watch", "the WebSocket binding of /v1/healthz does not report the statuses set on the health server as they change")
			}
		}
		srv.Close()
	}
	// … and for the service the URL names
	{
		hs.SetServingStatus("", healthpb.HealthCheckResponse_SERVING)
		hs.SetServingStatus("my.Service", healthpb.HealthCheckResponse_NOT_SERVING)
		srv := httptest.NewServer(mux)
		for _, q := range []struct{ query, want string }{{"?service=my.Service", "NOT_SERVING"}, {"?service=nobody", "SERVICE_UNKNOWN"}, {"", "SERVING"}} {
			ctx, cancel := context.WithTimeout(context.Background(), 3*time.Second)
			conn, br, _, err := gws.Dial(ctx, "ws"+strings.TrimPrefix(srv.URL, "http")+"/v1/healthz"+q.query)
			cancel()
			in := "websocket /v1/healthz" + q.query
			c.Eval("api-healthz", in, true)
			if err != nil {
				c.SpecFail("api-healthz", in, err.Error(), "a websocket", "C19/healthz/websocket", "")
				continue
			}
			conn.SetDeadline(time.Now().Add(3 * time.Second))
			var rw io.ReadWriter = conn
			if br != nil {
				rw = struct {
					io.Reader
					io.Writer
				}{br, conn}
			}
			wsutil.WriteClientMessage(conn, gws.OpText, []byte("{}")) //nolint
			first := "error"
			if b, _, err := wsutil.ReadServerData(rw); err == nil {
				var resp healthpb.HealthCheckResponse
				if protojson.Unmarshal(b, &resp) == nil {
					first = resp.Status.String()
				}
			}
			conn.Close()
			if first != q.want {
				c.SpecFail("api-healthz", in, first, q.want, "C19/healthz/websocket-service", "the WebSocket binding of /v1/healthz does not report the status of the service named in the URL")
			}
		}
		srv.Close()
	}
	rec, _ := serveOn(mux, httptest.NewRequest("GET", "/v1/healthz?service=unknown.service", nil))
	c.Eval("api-healthz", "unknown service", true)
	if rec.Code != 404 {
		c.SpecFail("api-healthz", "unknown service", fmt.Sprint(rec.Code), "404", "C19/healthz/unknown", "unknown service is not reported NotFound")
	}
	for _, p := range []string{"/v1/healthz/x", "/v2/healthz", "/v1/health"} {
		rec, _ := serveOn(mux, httptest.NewRequest("GET", p, nil))
		c.Eval("api-healthz", p, true)
		if rec.Code == 200 {
			c.SpecFail("api-healthz", p, "200", "not served", "C19/healthz/extra-path", "health service exposed on another path")
		}
	}
}
