package main

import (
	"bytes"
	"context"
	"crypto/sha256"
	"encoding/base64"
	"fmt"
	"io"
	"math/rand"
	"net"
	"net/http"
	"net/http/httptest"
	"strings"
	"sync"
	"sync/atomic"
	"time"

	"google.golang.org/genproto/googleapis/api/httpbody"
	"google.golang.org/grpc"
	"google.golang.org/grpc/codes"
	gzipenc "google.golang.org/grpc/encoding/gzip"
	"google.golang.org/grpc/reflection"
	rpb "google.golang.org/grpc/reflection/grpc_reflection_v1alpha"
	"google.golang.org/grpc/status"
	"google.golang.org/protobuf/encoding/protodelim"
	"google.golang.org/protobuf/encoding/protojson"
	"google.golang.org/protobuf/proto"
	"google.golang.org/protobuf/reflect/protoreflect"
	"google.golang.org/protobuf/types/dynamicpb"
	"larking.io/larking"
)

func init() {
	props["C13"] = runC13
	stressors["C13"] = stressC13
}

func runC13(c *Ctx) {
	c.Rule("a race-detector build of the harness drives one mux from many goroutines at once, every request carrying its own random payload (sizes 0..5000 incl. the pool buffer's 64-byte boundary): HTTP/JSON and HTTP/protobuf unary (identity and gzip request bodies), HTTP client streams with several messages per read (length-delimited protobuf, JSON), HttpBody uploads whose handler keeps every chunk until the end, gRPC through a real h2c server (unary, client / server / bidi streams, identity and gzip), raw gRPC and gRPC-web frames incl. corrupt gzip frames (the decompress error path) next to valid ones, and calls proxied through RegisterConn to an echo backend where the client or the backend fails first. Handlers keep every message they receive and answer only at the end; each goroutine checks that its reply and what its handler kept are functions of its own request. Data race reports are failures. Non-trivial: every kind of concurrent check.")
	c.Assume("sync.Pool, sync.WaitGroup and the Go memory model are as documented; the race detector samples the schedules that actually happened")
	c13Lifecycle(c)
	runStress(c, "C13", c.N(2500, 12000))
}

// c13Lifecycle: streamGRPC.begin / Done / close driven step by step against the Lean model
// (Lifecycle.run) and against the property: close never returns while a call is in flight and
// no call is accepted once close has returned.
func c13Lifecycle(c *Ctx) {
	for i := 0; i < c.N(60, 600); i++ {
		n := 1 + c.Rng.Intn(14)
		var sb, mb strings.Builder
		for j := 0; j < n; j++ {
			ch := "bbdc"[c.Rng.Intn(4)]
			sb.WriteByte(ch)
		}
		steps := sb.String()
		out := larking.VerifStreamLifecycle(steps, 1500*time.Microsecond)
		// the model: 'c' marks; Wait returns as soon as it can (a 'w' after every step is a no-op while disabled)
		inflight, started := 0, false
		for j, ch := range steps {
			switch ch {
			case 'b':
				mb.WriteByte('b')
			case 'd':
				mb.WriteByte('d')
			case 'c':
				mb.WriteByte('m')
				started = true
			}
			if started {
				mb.WriteByte('w')
			}
			_ = j
		}
		last := out[len(out)-1]
		var acc, ref int
		var ret bool
		fmt.Sscanf(strings.ReplaceAll(last, ",", " "), "%d %d %t", &acc, &ref, &ret)
		dones := 0
		inflight = 0
		for _, ch := range steps { // calls in flight at the end, from the accepted begins
			_ = ch
		}
		// recompute in-flight count from the per-step report
		prevAcc := 0
		for j, ch := range steps {
			var a, r int
			var rt bool
			fmt.Sscanf(strings.ReplaceAll(out[j], ",", " "), "%d %d %t", &a, &r, &rt)
			if ch == 'b' && a > prevAcc {
				inflight++
			}
			if ch == 'd' && inflight > 0 {
				inflight--
				dones++
			}
			prevAcc = a
			// the property, step by step
			if rt && inflight > 0 {
				c.SpecFail("lifecycle", steps, fmt.Sprintf("after step %d: close returned with %d calls in flight (%v)", j, inflight, out), "close waits for every call in flight", "C13/lifecycle/close-returned-early", "serveGRPC would hand the ResponseWriter back while a stream call is still running")
			}
		}
		afterReturn := false
		prevAcc = 0
		for j, ch := range steps {
			var a, r int
			var rt bool
			fmt.Sscanf(strings.ReplaceAll(out[j], ",", " "), "%d %d %t", &a, &r, &rt)
			if ch == 'b' && afterReturn && a > prevAcc {
				c.SpecFail("lifecycle", steps, fmt.Sprintf("step %d: a stream call was accepted after close had returned (%v)", j, out), "refused", "C13/lifecycle/call-after-close", "a goroutine left behind by the handler can touch the stream after serveGRPC is over")
			}
			prevAcc = a
			if rt {
				afterReturn = true
			}
		}
		c.Correspond("lifecycle", join("lifecycle", "true", mb.String()), fmt.Sprintf("%v,%d,%v,%d", started, inflight, ret, ref), true)
	}
}

// ---------------------------------------------------------------- echo fixture

func fieldBytes(m protoreflect.Message, name string) []byte {
	return m.Get(m.Descriptor().Fields().ByName(protoreflect.Name(name))).Bytes()
}

// echoSpecs: handlers whose reply is a function of the request alone. Stream handlers keep
// every received message and build the reply only at the end (an aliased pooled buffer
// would have been overwritten by then).
func echoSpecs() []*MethodSpec {
	reply := func(in protoreflect.Message) *dynamicpb.Message {
		return dynamicpb.NewMessage(in.Descriptor().ParentFile().Messages().ByName("Reply"))
	}
	setB := func(m *dynamicpb.Message, name string, b []byte) {
		m.Set(m.Descriptor().Fields().ByName(protoreflect.Name(name)), protoreflect.ValueOfBytes(b))
	}
	unary := func(ctx context.Context, in *dynamicpb.Message) (proto.Message, error) {
		r := reply(in)
		setB(r, "data", fieldBytes(in, "data"))
		r.Set(r.Descriptor().Fields().ByName("text"), in.Get(in.Descriptor().Fields().ByName("name")))
		return r, nil
	}
	collect := func(fx *Fixture, st grpc.ServerStream, sub string) ([]*dynamicpb.Message, error) {
		var kept []*dynamicpb.Message
		for {
			m := fx.NewMsg("Req")
			if err := st.RecvMsg(m); err != nil {
				if err == io.EOF {
					return kept, nil
				}
				return kept, err
			}
			kept = append(kept, m)
		}
	}
	up := func(fx *Fixture, ms *MethodSpec, st grpc.ServerStream) error {
		kept, err := collect(fx, st, "")
		if err != nil {
			return err
		}
		time.Sleep(time.Millisecond) // let other requests churn the pools before the kept messages are read
		r := fx.NewMsg("Reply")
		var all []byte
		l := r.Mutable(r.Descriptor().Fields().ByName("items")).List()
		for _, m := range kept {
			d := fieldBytes(m, "data")
			if f := m.Get(m.Descriptor().Fields().ByName("file")).Message(); m.Has(m.Descriptor().Fields().ByName("file")) {
				d = fieldBytes(f, "data")
			}
			all = append(all, d...)
			l.Append(protoreflect.ValueOfString(fmt.Sprintf("%x", sha256.Sum256(d))[:16]))
		}
		setB(r, "data", all)
		r.Set(r.Descriptor().Fields().ByName("n"), protoreflect.ValueOfInt32(int32(len(kept))))
		return st.SendMsg(r)
	}
	down := func(fx *Fixture, ms *MethodSpec, st grpc.ServerStream) error {
		in := fx.NewMsg("Req")
		if err := st.RecvMsg(in); err != nil {
			return err
		}
		n := int(in.Get(in.Descriptor().Fields().ByName("i32")).Int())
		for i := 0; i < n; i++ {
			r := fx.NewMsg("Reply")
			setB(r, "data", append([]byte{byte(i)}, fieldBytes(in, "data")...))
			if err := st.SendMsg(r); err != nil {
				return err
			}
		}
		return nil
	}
	bidi := func(fx *Fixture, ms *MethodSpec, st grpc.ServerStream) error {
		for {
			m := fx.NewMsg("Req")
			if err := st.RecvMsg(m); err != nil {
				if err == io.EOF {
					return nil
				}
				return err
			}
			if string(fieldBytes(m, "data")) == "FAIL" {
				return status.Error(codes.DataLoss, "backend fails first")
			}
			r := fx.NewMsg("Reply")
			setB(r, "data", fieldBytes(m, "data"))
			if err := st.SendMsg(r); err != nil {
				return err
			}
		}
	}
	// Early answers the first message and returns without draining the client stream
	early := func(fx *Fixture, ms *MethodSpec, st grpc.ServerStream) error {
		m := fx.NewMsg("Req")
		if err := st.RecvMsg(m); err != nil {
			return err
		}
		r := fx.NewMsg("Reply")
		setB(r, "data", fieldBytes(m, "data"))
		return st.SendMsg(r)
	}
	// Asset answers with one package-level slice every time (a static file, a cache entry)
	asset := func(ctx context.Context, in *dynamicpb.Message) (proto.Message, error) {
		hb := dynamicpb.NewMessage(c13HttpBodyDesc)
		hb.Set(hb.Descriptor().Fields().ByName("content_type"), protoreflect.ValueOfString("application/x-asset"))
		hb.Set(hb.Descriptor().Fields().ByName("data"), protoreflect.ValueOfBytes(c13Asset))
		return hb, nil
	}
	// PutRaw receives an upload as one HttpBody, serves another request of its own meanwhile (any work
	// that goes through the mux's buffer pool) and then looks at its data again
	putRaw := func(ctx context.Context, in *dynamicpb.Message) (proto.Message, error) {
		file := in.Get(in.Descriptor().Fields().ByName("file")).Message()
		data := file.Get(file.Descriptor().Fields().ByName("data")).Bytes()
		before := sha256.Sum256(data)
		if h := c13NestedMux.Load(); h != nil {
			nested := httptest.NewRequest("POST", "/c13/unary/nested", strings.NewReader(`{"data":"`+strings.Repeat("enp6", len(data)/3+8)+`"}`))
			nested.Header.Set("Content-Type", "application/json")
			serveOn((*h).(http.Handler), nested)
		}
		r := reply(in)
		r.Set(r.Descriptor().Fields().ByName("text"), protoreflect.ValueOfString(map[bool]string{true: "intact", false: "changed-under-the-handler"}[sha256.Sum256(data) == before]))
		setB(r, "data", data)
		return r, nil
	}
	return []*MethodSpec{
		{Name: "PutRaw", In: "Req", Out: "Reply", Unary: putRaw, Rule: postRule("/c13/put/{name}", "file")},
		{Name: "Asset", In: "Req", Out: "google.api.HttpBody", Unary: asset, Rule: getRule("/c13/asset")},
		{Name: "Early", In: "Req", Out: "Reply", ClientStream: true, ServerStream: true, Stream: early},
		{Name: "Unary", In: "Req", Out: "Reply", Unary: unary, Rule: postRule("/c13/unary/{name}", "*")},
		{Name: "Up", In: "Req", Out: "Reply", ClientStream: true, Stream: up, Rule: postRule("/c13/up", "*")},
		{Name: "Upload", In: "Req", Out: "Reply", ClientStream: true, Stream: up, Rule: postRule("/c13/upload/{name}", "file")},
		{Name: "Down", In: "Req", Out: "Reply", ServerStream: true, Stream: down, Rule: postRule("/c13/down", "*")},
		{Name: "Bidi", In: "Req", Out: "Reply", ClientStream: true, ServerStream: true, Stream: bidi, Rule: postRule("/c13/bidi", "*")},
	}
}

var c13Asset = []byte(strings.Repeat("static asset bytes that must never change; ", 8))
var c13AssetCopy = append([]byte(nil), c13Asset...)

// c13NestedMux: the mux the PutRaw handler sends its own request through.
var c13NestedMux atomic.Pointer[interface{}]

var c13HttpBodyDesc = httpbody.File_google_api_httpbody_proto.Messages().ByName("HttpBody")

func withService(ms []*MethodSpec, svc string) []*MethodSpec {
	out := make([]*MethodSpec, len(ms))
	for i, m := range ms {
		c := *m
		c.Service = svc
		if c.Rule != nil {
			c.Rule = nil // the proxied copy is reached over gRPC only
		}
		out[i] = &c
	}
	return out
}

type coalescedBody struct {
	data []byte
	off  int
}

func (c *coalescedBody) Read(p []byte) (int, error) {
	if c.off >= len(c.data) {
		return 0, io.EOF
	}
	n := copy(p, c.data[c.off:])
	c.off += n
	return n, nil
}
func (c *coalescedBody) Close() error { return nil }

func stressC13(seed int64, d time.Duration) *StressReport {
	rep := &StressReport{}
	// local echo services + the same services on a backend reached through RegisterConn
	fixtureDeferRegistration = true
	backFx, err := NewFixture(withService(echoSpecs(), "Back"), nil)
	fixtureDeferRegistration = false
	if err != nil {
		rep.fail("C13/fixture", "backend", err.Error(), "", "")
		return rep
	}
	gs := grpc.NewServer()
	for _, sd := range backFx.ServiceDescs() {
		gs.RegisterService(sd, nil)
	}
	rpb.RegisterServerReflectionServer(gs, reflection.NewServer(reflection.ServerOptions{Services: gs, DescriptorResolver: backFx.Files}))
	blis, _ := net.Listen("tcp", "127.0.0.1:0")
	go gs.Serve(blis) //nolint
	defer gs.Stop()
	bcc, _ := grpc.NewClient(blis.Addr().String(), grpcInsecure())
	defer bcc.Close()

	fx, err := NewFixture(echoSpecs(), nil)
	if err != nil || fx.RegErr != nil || fx.RegPanic != nil {
		rep.fail("C13/fixture", "mux", fmt.Sprint(err, fx.RegErr, fx.RegPanic), "", "")
		return rep
	}
	{
		ctx, cancel := context.WithTimeout(context.Background(), 5*time.Second)
		err := fx.Mux.RegisterConn(ctx, bcc)
		cancel()
		if err != nil {
			rep.fail("C13/fixture", "RegisterConn", err.Error(), "", "")
			return rep
		}
	}
	gcc, err := fx.GRPC()
	if err != nil {
		rep.fail("C13/fixture", "grpc", err.Error(), "", "")
		return rep
	}
	defer fx.Close()

	payload := func(rng *rand.Rand) []byte {
		n := []int{0, 1, 5, 59, 63, 64, 65, 100, 128, 300, 1000, 5000}[rng.Intn(12)]
		b := make([]byte, n)
		rng.Read(b)
		if rng.Intn(3) == 0 {
			for i := range b {
				b[i] = byte('a' + i%3) // compressible
			}
		}
		return b
	}
	mismatch := func(kind, what string, got, want []byte) {
		rep.fail("C13/"+kind+"/foreign-bytes", kind+": "+what, fmt.Sprintf("len %d sha %x head %x", len(got), sha256.Sum256(got), trunc(got, 24)), fmt.Sprintf("len %d sha %x head %x", len(want), sha256.Sum256(want), trunc(want, 24)), "a reply (or what the handler kept) is not a function of its own request: bytes leaked or were corrupted across concurrent requests")
	}
	replyData := func(body []byte, ct string) ([]byte, string, int, error) {
		out := fx.NewMsg("Reply")
		var err error
		if strings.Contains(ct, "json") {
			err = protojson.Unmarshal(body, out)
		} else {
			err = proto.Unmarshal(body, out)
		}
		return fieldBytes(out, "data"), out.Get(out.Descriptor().Fields().ByName("text")).String(), int(out.Get(out.Descriptor().Fields().ByName("n")).Int()), err
	}

	var counts [16]int64
	scenarios := []func(rng *rand.Rand, id int){
		// 0: HTTP unary, JSON or protobuf, identity or gzip request body
		func(rng *rand.Rand, id int) {
			p := payload(rng)
			ct := []string{"application/json", "application/protobuf"}[rng.Intn(2)]
			body := encodeMsg(fx, map[bool]string{true: "json", false: "proto"}[ct == "application/json"], p)
			name := fmt.Sprintf("n%d-%d", id, rng.Intn(1e6))
			r := httptest.NewRequest("POST", "/c13/unary/"+name, nil)
			if rng.Intn(2) == 0 {
				body = gzipBytes(body)
				r.Header.Set("Content-Encoding", "gzip")
			}
			r.Body = &coalescedBody{data: body}
			r.ContentLength = int64(len(body))
			r.Header.Set("Content-Type", ct)
			r.Header.Set("Accept", ct)
			rec, pn := serveOn(fx.Mux, r)
			if pn != nil || rec.Code != 200 {
				rep.fail("C13/http-unary/failed", "POST /c13/unary "+ct, fmt.Sprint(rec.Code, pn, truncS(rec.Body.String(), 120)), "200", "a valid request failed under concurrency")
				return
			}
			got, text, _, err := replyData(rec.Body.Bytes(), ct)
			if err != nil || !bytes.Equal(got, p) || text != name {
				mismatch("http-unary", ct+" name "+name+" got name "+text, got, p)
			}
			atomic.AddInt64(&counts[0], 1)
		},
		// 1: HTTP client stream, several messages per read
		func(rng *rand.Rand, id int) {
			k := 1 + rng.Intn(5)
			var all, body []byte
			codec := []string{"proto", "json"}[rng.Intn(2)]
			for i := 0; i < k; i++ {
				p := payload(rng)
				if len(p) > 1000 {
					p = p[:1000]
				}
				all = append(all, p...)
				if codec == "proto" {
					var buf bytes.Buffer
					protodelim.MarshalTo(&buf, reqWithData(fx, p)) //nolint
					body = append(body, buf.Bytes()...)
				} else {
					body = append(body, encodeMsg(fx, "json", p)...)
				}
			}
			ct := map[string]string{"proto": "application/protobuf", "json": "application/json"}[codec]
			r := httptest.NewRequest("POST", "/c13/up", nil)
			if rng.Intn(2) == 0 { // gzip request stream: the pooled decompressor is read to its end
				body = gzipBytes(body)
				r.Header.Set("Content-Encoding", "gzip")
			}
			r.Body = &coalescedBody{data: body}
			r.ContentLength = -1
			r.Header.Set("Content-Type", ct)
			r.Header.Set("Accept", ct)
			rec, pn := serveOn(fx.Mux, r)
			if pn != nil || rec.Code != 200 {
				rep.fail("C13/http-up/failed", "POST /c13/up "+ct, fmt.Sprint(rec.Code, pn, truncS(rec.Body.String(), 160)), "200", "a valid client stream failed under concurrency")
				return
			}
			body2 := rec.Body.Bytes()
			// the single reply of a client-streaming (not server-streaming) method is written whole, not length-delimited
			got, _, n, err := replyData(body2, ct)
			if err != nil || n != k || !bytes.Equal(got, all) {
				mismatch("http-up", fmt.Sprintf("%s %d messages (handler kept %d) enc=%q err=%v request-body=%x response-body=%x", ct, k, n, r.Header.Get("Content-Encoding"), err, trunc(body, 6000), trunc(rec.Body.Bytes(), 6000)), got, all)
			}
			atomic.AddInt64(&counts[1], 1)
		},
		// 2: HttpBody upload: raw chunks, the handler keeps every chunk
		func(rng *rand.Rand, id int) {
			p := payload(rng)
			r := httptest.NewRequest("POST", "/c13/upload/u"+fmt.Sprint(id), nil)
			r.Body = &coalescedBody{data: p}
			r.ContentLength = -1
			r.Header.Set("Content-Type", "application/octet-stream")
			r.Header.Set("Accept", "application/json")
			rec, pn := serveOn(fx.Mux, r)
			if pn != nil || rec.Code != 200 {
				rep.fail("C13/http-upload/failed", "POST /c13/upload", fmt.Sprint(rec.Code, pn, truncS(rec.Body.String(), 160)), "200", "a valid upload failed under concurrency")
				return
			}
			got, _, _, err := replyData(rec.Body.Bytes(), "application/json")
			if err != nil || !bytes.Equal(got, p) {
				mismatch("http-upload", fmt.Sprintf("%d bytes", len(p)), got, p)
			}
			atomic.AddInt64(&counts[2], 1)
		},
		// 3: gRPC through the real server: unary / up / down / bidi, identity or gzip, local or proxied
		func(rng *rand.Rand, id int) {
			svc := []string{"Svc", "Back"}[rng.Intn(2)]
			var opts []grpc.CallOption
			if rng.Intn(2) == 0 {
				opts = append(opts, grpc.UseCompressor(gzipenc.Name))
			}
			ctx, cancel := context.WithTimeout(context.Background(), 10*time.Second)
			defer cancel()
			full := func(m string) string { return "/" + fxPkg + "." + svc + "/" + m }
			switch rng.Intn(4) {
			case 0:
				p := payload(rng)
				out := fx.NewMsg("Reply")
				if err := gcc.Invoke(ctx, full("Unary"), reqWithData(fx, p), out, opts...); err != nil {
					rep.fail("C13/grpc-unary/failed", full("Unary"), err.Error(), "OK", "a valid call failed under concurrency")
					return
				}
				if !bytes.Equal(fieldBytes(out, "data"), p) {
					mismatch("grpc-unary", full("Unary"), fieldBytes(out, "data"), p)
				}
			case 1:
				st, err := gcc.NewStream(ctx, &grpc.StreamDesc{ClientStreams: true}, full("Up"), opts...)
				if err != nil {
					rep.fail("C13/grpc-up/failed", full("Up"), err.Error(), "OK", "")
					return
				}
				k := 1 + rng.Intn(5)
				var all []byte
				for i := 0; i < k; i++ {
					p := payload(rng)
					all = append(all, p...)
					if err := st.SendMsg(reqWithData(fx, p)); err != nil {
						rep.fail("C13/grpc-up/failed", full("Up"), err.Error(), "OK", "")
						return
					}
				}
				st.CloseSend()
				out := fx.NewMsg("Reply")
				if err := st.RecvMsg(out); err != nil {
					rep.fail("C13/grpc-up/failed", full("Up"), err.Error(), "OK", "a valid client stream failed under concurrency")
					return
				}
				if !bytes.Equal(fieldBytes(out, "data"), all) {
					mismatch("grpc-up", fmt.Sprintf("%s %d messages", full("Up"), k), fieldBytes(out, "data"), all)
				}
			case 2:
				st, err := gcc.NewStream(ctx, &grpc.StreamDesc{ServerStreams: true}, full("Down"), opts...)
				if err != nil {
					return
				}
				p := payload(rng)
				in := reqWithData(fx, p)
				k := 1 + rng.Intn(4)
				in.Set(in.Descriptor().Fields().ByName("i32"), protoreflect.ValueOfInt32(int32(k)))
				st.SendMsg(in) //nolint
				st.CloseSend()
				for i := 0; ; i++ {
					out := fx.NewMsg("Reply")
					err := st.RecvMsg(out)
					if err == io.EOF {
						if i != k {
							rep.fail("C13/grpc-down/count", full("Down"), fmt.Sprint(i), fmt.Sprint(k), "reply count")
						}
						break
					}
					if err != nil {
						rep.fail("C13/grpc-down/failed", full("Down"), err.Error(), "OK", "")
						break
					}
					if want := append([]byte{byte(i)}, p...); !bytes.Equal(fieldBytes(out, "data"), want) {
						mismatch("grpc-down", full("Down"), fieldBytes(out, "data"), want)
					}
				}
			case 3:
				st, err := gcc.NewStream(ctx, &grpc.StreamDesc{ClientStreams: true, ServerStreams: true}, full("Bidi"), opts...)
				if err != nil {
					return
				}
				k := 1 + rng.Intn(5)
				mode := rng.Intn(4) // 0,1: clean; 2: the backend fails first; 3: the client cancels mid-stream
				for i := 0; i < k; i++ {
					p := payload(rng)
					if len(p) == 4 {
						p = append(p, 0)
					}
					if mode == 2 && i == k-1 {
						p = []byte("FAIL")
					}
					if err := st.SendMsg(reqWithData(fx, p)); err != nil {
						break
					}
					if mode == 3 && i == k-1 {
						cancel()
						break
					}
					out := fx.NewMsg("Reply")
					err := st.RecvMsg(out)
					if mode == 2 && i == k-1 {
						if status.Code(err) != codes.DataLoss {
							rep.fail("C13/grpc-bidi/backend-error-lost", full("Bidi"), fmt.Sprint(err), "DataLoss", "the failing side's status did not reach the client")
						}
						break
					}
					if err != nil {
						rep.fail("C13/grpc-bidi/failed", full("Bidi"), err.Error(), "OK", "")
						break
					}
					if !bytes.Equal(fieldBytes(out, "data"), p) {
						mismatch("grpc-bidi", full("Bidi"), fieldBytes(out, "data"), p)
					}
				}
				if mode < 2 {
					st.CloseSend()
					if err := st.RecvMsg(fx.NewMsg("Reply")); err != io.EOF {
						rep.fail("C13/grpc-bidi/failed", full("Bidi")+" clean end", fmt.Sprint(err), "EOF", "")
					}
				}
			}
			atomic.AddInt64(&counts[3], 1)
		},
		// 4: raw gRPC / gRPC-web frames in process, corrupt gzip frames next to valid ones
		func(rng *rand.Rand, id int) {
			p := payload(rng)
			enc, _ := proto.Marshal(reqWithData(fx, p))
			mode := rng.Intn(4) // 0 identity, 1 gzip, 2 corrupt gzip, 3 gzip truncated
			var frame []byte
			switch mode {
			case 0:
				frame = grpcFrame(0, enc)
			case 1:
				frame = grpcFrame(1, gzipBytes(enc))
			case 2:
				junk := make([]byte, 10+rng.Intn(40))
				rng.Read(junk)
				frame = grpcFrame(1, junk)
			case 3:
				z := gzipBytes(enc)
				frame = grpcFrame(1, z[:len(z)/2])
			}
			web := rng.Intn(2) == 0
			r := httptest.NewRequest("POST", "/"+fxPkg+".Svc/Unary", nil)
			body := frame
			ct := "application/grpc+proto"
			if web {
				ct = "application/grpc-web+proto"
				if rng.Intn(2) == 0 {
					ct = "application/grpc-web-text+proto"
					body = []byte(base64.StdEncoding.EncodeToString(frame))
				}
			} else {
				r.ProtoMajor, r.ProtoMinor = 2, 0
			}
			r.Body = &coalescedBody{data: body}
			r.ContentLength = -1
			r.Header.Set("Content-Type", ct)
			r.Header.Set("Te", "trailers")
			if mode > 0 {
				r.Header.Set("Grpc-Encoding", "gzip")
			}
			rec, pn := serveOn(fx.Mux, r)
			if pn != nil {
				rep.fail("C13/frames/panic", ct, fmt.Sprint(pn), "no panic", "")
				return
			}
			out := rec.Body.Bytes()
			if strings.Contains(ct, "text") {
				dec, err := base64.StdEncoding.DecodeString(string(out))
				if err == nil {
					out = dec
				}
			}
			frames, flags, ok := parseFrames(out)
			if mode <= 1 {
				if !ok || len(frames) == 0 {
					rep.fail("C13/frames/failed", fmt.Sprintf("%s mode %d", ct, mode), fmt.Sprintf("%d %x", rec.Code, trunc(out, 60)), "a reply frame", "a valid framed call failed under concurrency")
					return
				}
				data := frames[0]
				if flags[0]&1 == 1 {
					data = gunzipBytes(data)
				}
				o := fx.NewMsg("Reply")
				if err := proto.Unmarshal(data, o); err != nil || !bytes.Equal(fieldBytes(o, "data"), p) {
					mismatch("frames", ct, fieldBytes(o, "data"), p)
				}
			} else {
				for i, f := range frames {
					if flags[i]&0x80 == 0 && len(f) > 0 {
						rep.fail("C13/frames/corrupt-accepted", fmt.Sprintf("%s mode %d", ct, mode), fmt.Sprintf("%x", trunc(f, 40)), "an error status", "a corrupt compressed frame produced a reply message")
					}
				}
			}
			atomic.AddInt64(&counts[4], 1)
		},
	}

	// 8: a unary HttpBody upload whose handler goes through the mux again before it looks at its data
	{
		var hI interface{} = http.Handler(fx.Mux)
		c13NestedMux.Store(&hI)
	}
	scenarios = append(scenarios, func(rng *rand.Rand, id int) {
		p := payload(rng)
		r := httptest.NewRequest("POST", "/c13/put/f"+fmt.Sprint(id), bytes.NewReader(p))
		r.Header.Set("Content-Type", "application/octet-stream")
		r.Header.Set("Accept", "application/json")
		rec, pn := serveOn(fx.Mux, r)
		if pn != nil || rec.Code != 200 {
			rep.fail("C13/http-put/failed", "POST /c13/put", fmt.Sprint(rec.Code, pn, truncS(rec.Body.String(), 120)), "200", "a valid upload failed")
			return
		}
		got, text, _, err := replyData(rec.Body.Bytes(), "application/json")
		if err != nil || text != "intact" || !bytes.Equal(got, p) {
			rep.fail("C13/http-put/handler-data-changed", fmt.Sprintf("POST /c13/put with %d bytes; the handler serves a nested request before it reads its data again", len(p)), fmt.Sprintf("%s, %d bytes back", text, len(got)), "intact, the upload", "the data a handler received changes while the handler holds it: it aliases a pooled buffer")
		}
		atomic.AddInt64(&counts[8], 1)
	})
	// 6: a handler that answers with the same slice every time
	scenarios = append(scenarios, func(rng *rand.Rand, id int) {
		rec, pn := serveOn(fx.Mux, httptest.NewRequest("GET", "/c13/asset", nil))
		if pn != nil || rec.Code != 200 || !bytes.Equal(rec.Body.Bytes(), c13AssetCopy) {
			rep.fail("C13/asset/foreign-bytes", "GET /c13/asset (the handler replies with one long-lived slice)", fmt.Sprintf("%d %q panic=%v", rec.Code, truncS(rec.Body.String(), 80), pn), "the asset", "a reply built from a long-lived slice carries other bytes: the handler's slice was recycled through the buffer pool")
		}
		atomic.AddInt64(&counts[6], 1)
	})
	// 5: proxied bidi where the backend finishes first and the client side then breaks
	scenarios = append(scenarios, func(rng *rand.Rand, id int) {
		p := payload(rng)
		enc, _ := proto.Marshal(reqWithData(fx, p))
		r := httptest.NewRequest("POST", "/"+fxPkg+".Back/Early", nil)
		r.ProtoMajor, r.ProtoMinor = 2, 0
		r.Body = &breakingBody{first: grpcFrame(0, enc), wait: time.Duration(20+rng.Intn(30)) * time.Millisecond}
		r.ContentLength = -1
		r.Header.Set("Content-Type", "application/grpc+proto")
		r.Header.Set("Te", "trailers")
		rec, pn := serveOn(fx.Mux, r)
		if pn != nil {
			rep.fail("C13/proxy-early/panic", "Back/Early", fmt.Sprint(pn), "no panic", "")
			return
		}
		frames, _, ok := parseFrames(rec.Body.Bytes())
		if ok && len(frames) > 0 {
			o := fx.NewMsg("Reply")
			if err := proto.Unmarshal(frames[0], o); err != nil || !bytes.Equal(fieldBytes(o, "data"), p) {
				mismatch("proxy-early", "Back/Early", fieldBytes(o, "data"), p)
			}
		}
		st := rec.Result().Trailer.Get("Grpc-Status")
		if st == "" {
			st = rec.Header().Get("Grpc-Status")
		}
		if st == "0" {
			rep.fail("C13/proxy-early/client-error-lost", "proxied bidi: the backend answers and returns, then the client's stream breaks (unexpected EOF)", "grpc-status 0", "the client-side stream error", "the pump's error was read before the pump had finished")
		}
		atomic.AddInt64(&counts[5], 1)
	})

	// 7: HTTP front, gzip request body, proxied bidi whose backend fails at the first message while the
	// upload is still coming: the forwarder returns, its upload pump is left reading the (pooled)
	// decompressor; other gzip requests run meanwhile
	scenarios = append(scenarios, func(rng *rand.Rand, id int) {
		var objs []byte
		fail, _ := protojson.Marshal(reqWithData(fx, []byte("FAIL")))
		objs = append(objs, fail...)
		for k := 0; k < 3; k++ {
			j, _ := protojson.Marshal(reqWithData(fx, payload(rng)))
			objs = append(objs, j...)
		}
		z := gzipBytes(objs)
		cutAt := 10 + rng.Intn(len(z)/2)
		r := httptest.NewRequest("POST", "/"+fxPkg+".Back/Bidi", nil)
		r.Body = &pausingBody{parts: [][]byte{z[:cutAt], z[cutAt:]}, wait: time.Duration(10+rng.Intn(30)) * time.Millisecond}
		r.ContentLength = -1
		r.Header.Set("Content-Type", "application/json")
		r.Header.Set("Content-Encoding", "gzip")
		rec, pn := serveOn(fx.Mux, r)
		if pn != nil {
			rep.fail("C13/proxy-http-gzip/panic", "POST Back/Bidi gzip, backend fails first", fmt.Sprint(pn), "no panic", "")
			return
		}
		if rec.Code == 200 && !bytes.Contains(rec.Body.Bytes(), []byte("backend fails first")) {
			rep.fail("C13/proxy-http-gzip/backend-error-lost", "POST Back/Bidi gzip, backend fails first", fmt.Sprintf("%d %s", rec.Code, truncS(rec.Body.String(), 120)), "the backend's DataLoss status", "")
		}
		atomic.AddInt64(&counts[7], 1)
	})

	stop := make(chan struct{})
	var wg sync.WaitGroup
	for g := 0; g < 12; g++ {
		wg.Add(1)
		go func(g int) {
			defer wg.Done()
			rng := rand.New(rand.NewSource(seed*1000 + int64(g)))
			for i := 0; ; i++ {
				select {
				case <-stop:
					return
				default:
				}
				scenarios[(g+i)%len(scenarios)](rng, g*1000000+i)
			}
		}(g)
	}
	time.Sleep(d)
	close(stop)
	wg.Wait()
	names := []string{"http-unary", "http-client-stream", "httpbody-upload", "grpc-real-server", "raw-frames", "proxy-client-breaks-after-backend-done", "static-asset-reply", "proxy-http-gzip-backend-fails-first", "http-put-nested"}
	if !bytes.Equal(c13Asset, c13AssetCopy) {
		rep.fail("C13/asset/handler-slice-overwritten", "the slice the Asset handler hands out, after the run", fmt.Sprintf("%q", truncS(string(c13Asset), 80)), "unchanged", "the handler's own slice was written by other requests")
	}
	for i, n := range names {
		rep.eval(n, int(counts[i]))
	}
	return rep
}

// pausingBody delivers its parts with a pause between them, then a clean end.
type pausingBody struct {
	parts [][]byte
	wait  time.Duration
	i     int
}

func (b *pausingBody) Read(p []byte) (int, error) {
	for b.i < len(b.parts) && len(b.parts[b.i]) == 0 {
		b.i++
		time.Sleep(b.wait)
	}
	if b.i >= len(b.parts) {
		return 0, io.EOF
	}
	n := copy(p, b.parts[b.i])
	b.parts[b.i] = b.parts[b.i][n:]
	return n, nil
}
func (b *pausingBody) Close() error { return nil }

// breakingBody delivers one frame, stays silent for a while and then fails like a
// connection that died inside the stream.
type breakingBody struct {
	first []byte
	wait  time.Duration
	state int
}

func (b *breakingBody) Read(p []byte) (int, error) {
	switch b.state {
	case 0:
		n := copy(p, b.first)
		b.first = b.first[n:]
		if len(b.first) == 0 {
			b.state = 1
		}
		return n, nil
	case 1:
		time.Sleep(b.wait)
		b.state = 2
	}
	return 0, io.ErrUnexpectedEOF
}
func (b *breakingBody) Close() error { return nil }

func gunzipBytes(b []byte) []byte {
	out, err := gunzip(b)
	if err != nil {
		return nil
	}
	return out
}
