package main

import (
	"context"
	"fmt"
	"google.golang.org/genproto/googleapis/api/serviceconfig"
	"google.golang.org/grpc"
	"google.golang.org/protobuf/reflect/protoreflect"
	"net/http/httptest"
	"strings"

	"google.golang.org/genproto/googleapis/api/annotations"
	"google.golang.org/protobuf/proto"
	"google.golang.org/protobuf/types/dynamicpb"
)

func init() { props["C16"] = runC16 }

// genMustAccept builds a template inside the strict reading of the documented grammar:
// literals = a letter followed by literal characters (one letter suffices), identifiers
// non-empty, variables not nested, "**" only in last position, resolvable field paths.
func genMustAccept(c *Ctx) ttmpl {
	lits := []string{"v", "x", "a", "v1", "a-b", "a.b", "a_b", "é", "é日", "books", "Z9", "x.y-z_0", "name"}
	var t ttmpl
	n := 1 + c.Rng.Intn(5)
	used := map[int]bool{}
	field := func() string {
		for {
			f := fieldNames[c.Rng.Intn(len(fieldNames))]
			if !used[routeFields[f].id] {
				used[routeFields[f].id] = true
				return f
			}
		}
	}
	for i := 0; i < n; i++ {
		last := i == n-1
		switch r := c.Rng.Intn(10); {
		case r < 4:
			t.segs = append(t.segs, tseg{kind: sLit, lit: lits[c.Rng.Intn(len(lits))]})
		case r < 5:
			t.segs = append(t.segs, tseg{kind: sStar})
		case r < 6 && last:
			t.segs = append(t.segs, tseg{kind: sStarStar})
		default:
			v := tseg{kind: sVar, field: field()}
			switch c.Rng.Intn(5) {
			case 0:
				v.sub = []tseg{{kind: sStar}}
			case 1:
				v.sub = []tseg{{kind: sLit, lit: lits[c.Rng.Intn(len(lits))]}, {kind: sStar}}
			case 2:
				if last {
					v.sub = []tseg{{kind: sLit, lit: lits[c.Rng.Intn(len(lits))]}, {kind: sStarStar}}
				}
			case 3:
				v.sub = []tseg{{kind: sLit, lit: lits[c.Rng.Intn(len(lits))]}}
			}
			if k := routeFields[v.field].kind; k == "I" || k == "U" || k == "L" {
				v.sub = nil // a literal inside the pattern could never convert to a number
			}
			t.segs = append(t.segs, v)
		}
	}
	if c.Rng.Intn(3) == 0 {
		t.verb = []string{"read", "x", "a.b", "v1"}[c.Rng.Intn(4)]
	}
	return t
}

func instantiateStrict(c *Ctx, segs []tseg) []string {
	pool := []string{"x", "y1", "a", "é", "books", "v1", "Z", "a.b", "x~y", "a=b", "é日", "q"}
	var out []string
	for _, s := range segs {
		switch s.kind {
		case sLit:
			out = append(out, s.lit)
		case sStar:
			out = append(out, pool[c.Rng.Intn(len(pool))])
		case sStarStar:
			for i, n := 0, 1+c.Rng.Intn(3); i < n; i++ {
				out = append(out, pool[c.Rng.Intn(len(pool))])
			}
		case sVar:
			sub := s.sub
			if sub == nil {
				sub = []tseg{{kind: sStar}}
			}
			segs := instantiateStrict(c, sub)
			if fi := routeFields[s.field]; fi.kind == "I" || fi.kind == "U" || fi.kind == "L" {
				for i := range segs {
					if sub[min(i, len(sub)-1)].kind != sLit {
						segs[i] = []string{"0", "7", "42", "12345"}[c.Rng.Intn(4)]
					}
				}
			}
			out = append(out, segs...)
		}
	}
	return out
}

func runC16(c *Ctx) {
	c.Rule("templates derived from the documented grammar (one-letter / dotted / hyphenated / unicode literals, *, **, {field}, {field=sub/pattern}, nested field paths, :verb) registered on empty and non-empty tries and then exercised with paths instantiated from them; every single-edit mutation class of valid templates, unknown field paths, unresolvable body / response_body selectors, nested additional bindings, conflicting bindings (same and other service, same short method name), re-declared implicit paths; API level: failing registrations (error in the k-th rule of a service) after successful ones, with the published state fingerprinted and probed before and after. Every registration is corresponded with the Lean model of lexTemplate + addRule. Non-trivial: non-empty template; distinct by kind+input.")
	env, err := newRouteEnv(3)
	if err != nil {
		c.SpecFail("fixture", "C16", err.Error(), "descriptors", "C16/fixture", "cannot build descriptors")
		return
	}
	// ---- well-formed templates are accepted and then route
	for i := 0; i < c.N(600, 12000); i++ {
		t := genMustAccept(c)
		if tokenCountTmpl(t.String()) > 60 {
			continue
		}
		kind := []string{"GET", "POST", "*", "LOCK"}[c.Rng.Intn(4)]
		rule := rrule{method: c.Rng.Intn(6), primary: rbind{kind: kind, t: t}}
		var prior []rrule
		if c.Rng.Intn(2) == 0 { // non-empty trie: unrelated prefix so that no conflict is possible
			prior = genRuleSet(c, 3)
			for j := range prior {
				prior[j].primary.t.segs = append([]tseg{{kind: sLit, lit: "prior"}}, prior[j].primary.t.segs...)
				prior[j].additional = nil
			}
		}
		rules := append(append([]rrule{}, prior...), rule)
		trie, outs := env.buildImplTrie(rules)
		line := rulesLine(rules)
		c.Correspond("accept", join("addrules", line), strings.Join(outs, " "), true)
		got := outs[len(outs)-1]
		c.Class("must-accept:" + got)
		in := fmt.Sprintf("%s %s on %d prior rules", kind, t.String(), len(prior))
		if got != "ok" {
			key := "C16/accept/refused"
			if got == "panic" {
				key = "C16/accept/panic"
			}
			c.SpecFail("accept", in, got, "ok", key, "a template that is well-formed under the documented grammar, with resolvable field paths, is not accepted")
			continue
		}
		// every instantiated path routes to its method (fields whose type no URL text converts to are skipped)
		hasX := false
		for _, sg := range t.segs {
			hasX = hasX || (sg.kind == sVar && routeFields[sg.field].kind == "X")
		}
		for k := 0; k < 3 && !hasX; k++ {
			segs := instantiateStrict(c, t.segs)
			path := "/" + strings.Join(segs, "/")
			if t.verb != "" {
				path += ":" + t.verb
			}
			verb := strings.ToUpper(kind)
			if verb == "*" {
				verb = []string{"GET", "DELETE", "WEBSOCKET"}[c.Rng.Intn(3)]
			}
			res := implRoute(trie, verb, path)
			model := normModelRoute(c.Drv.Ask(join("route", line, hexS(verb), runesOf(path))))
			c.count("instantiated", line+" "+verb+" "+path, true)
			c.res.Corresponded++
			if model != res.line {
				c.res.NDisagree++
				if len(c.res.Disagree) < 25 {
					c.res.Disagree = append(c.res.Disagree, Case{Kind: "instantiated", Input: in + " " + verb + " " + path, Impl: res.line, Model: model})
				}
			}
			if res.class != "found" || res.method != rule.method {
				c.SpecFail("instantiated", in+" request "+verb+" "+path, res.line, fmt.Sprintf("method %d", rule.method), "C16/accept/instantiation-does-not-route", "a path instantiated from an accepted template does not route to its method")
			}
		}
	}

	// ---- invalid rules are rejected with an error, never a panic, and change nothing
	type badCase struct {
		what string
		mk   func(base ttmpl) rrule
		must bool // must be rejected
	}
	bads := []badCase{
		{"unknown-field", func(t ttmpl) rrule {
			t.segs = append(t.segs, tseg{kind: sVar, field: "no_such_field"})
			return rrule{primary: rbind{kind: "GET", t: t}}
		}, true},
		{"unknown-nested-field", func(t ttmpl) rrule {
			t.segs = append(t.segs, tseg{kind: sVar, field: "nested.nope"})
			return rrule{primary: rbind{kind: "GET", t: t}}
		}, true},
		{"field-through-scalar", func(t ttmpl) rrule {
			t.segs = append(t.segs, tseg{kind: sVar, field: "name.s"})
			return rrule{primary: rbind{kind: "GET", t: t}}
		}, true},
		{"field-through-map", func(t ttmpl) rrule {
			t.segs = append(t.segs, tseg{kind: sVar, field: []string{"m.value", "m.key", "nm.value.s", "nm.value"}[c.Rng.Intn(4)]})
			return rrule{primary: rbind{kind: "GET", t: t}}
		}, true},
		{"field-through-list", func(t ttmpl) rrule {
			t.segs = append(t.segs, tseg{kind: sVar, field: []string{"rn.s", "rn.child.s", "nested.tags.x"}[c.Rng.Intn(3)]})
			return rrule{primary: rbind{kind: "GET", t: t}}
		}, true},
		{"body-through-map", func(t ttmpl) rrule { return rrule{primary: rbind{kind: "POST", t: t, body: "nm.value"}} }, true},
		{"bad-body", func(t ttmpl) rrule { return rrule{primary: rbind{kind: "POST", t: t, body: "no_such_field"}} }, true},
		{"bad-response-body", func(t ttmpl) rrule { return rrule{primary: rbind{kind: "GET", t: t, resp: "no_such_field"}} }, true},
		{"nested-additional", func(t ttmpl) rrule {
			return rrule{primary: rbind{kind: "GET", t: t}, additional: []rbind{{kind: "GET", t: ttmpl{segs: []tseg{{kind: sLit, lit: "addl"}}}}}, nested: true}
		}, true},
		{"bad-additional", func(t ttmpl) rrule {
			return rrule{primary: rbind{kind: "GET", t: t}, additional: []rbind{{kind: "GET", raw: "/a/{"}}}
		}, true},
		{"nested-variable", func(t ttmpl) rrule {
			return rrule{primary: rbind{kind: "GET", raw: t.String() + "/{name={other_name}}"}}
		}, false},
		{"no-leading-slash", func(t ttmpl) rrule {
			return rrule{primary: rbind{kind: "GET", raw: strings.TrimPrefix(t.String(), "/")}}
		}, true},
		{"empty", func(t ttmpl) rrule { return rrule{primary: rbind{kind: "GET", raw: ""}} }, true},
		{"space", func(t ttmpl) rrule { return rrule{primary: rbind{kind: "GET", raw: t.String() + "/a b"}} }, true},
		{"unclosed", func(t ttmpl) rrule { return rrule{primary: rbind{kind: "GET", raw: t.String() + "/{name"}} }, true},
		{"trailing-slash", func(t ttmpl) rrule { return rrule{primary: rbind{kind: "GET", raw: t.String() + "/"}} }, true},
		{"double-slash", func(t ttmpl) rrule { return rrule{primary: rbind{kind: "GET", raw: "/a//b"}} }, true},
		{"empty-verb", func(t ttmpl) rrule { return rrule{primary: rbind{kind: "GET", raw: "/a:"}} }, true},
		{"percent", func(t ttmpl) rrule { return rrule{primary: rbind{kind: "GET", raw: "/a%2Fb"}} }, true},
		{"too-many-tokens", func(t ttmpl) rrule {
			return rrule{primary: rbind{kind: "GET", raw: "/" + strings.Repeat("a/", 33) + "a"}}
		}, true},
	}
	for i := 0; i < c.N(400, 6000); i++ {
		bc := bads[c.Rng.Intn(len(bads))]
		base := genMustAccept(c)
		base.verb = ""
		if len(base.segs) > 0 && base.segs[len(base.segs)-1].kind == sStarStar {
			base.segs[len(base.segs)-1] = tseg{kind: sLit, lit: "z"}
		}
		for j := range base.segs {
			if base.segs[j].kind == sVar && len(base.segs[j].sub) > 0 && base.segs[j].sub[len(base.segs[j].sub)-1].kind == sStarStar {
				base.segs[j].sub = nil
			}
			if base.segs[j].kind == sVar && (base.segs[j].field == "name" || base.segs[j].field == "other_name" || base.segs[j].field == "otherName") {
				base.segs[j] = tseg{kind: sLit, lit: "n"}
			}
		}
		bad := bc.mk(base)
		bad.method = c.Rng.Intn(3)
		prior := genRuleSet(c, 3)
		if i%4 == 0 && bad.primary.raw == "" && (bad.primary.body != "" || bad.primary.resp != "") {
			// the very pattern is already bound to the same method by a VALID rule: the invalid
			// selector must still be reported (the rule would otherwise be a silent no-op)
			prior = append(prior, rrule{method: bad.method, primary: rbind{kind: bad.primary.kind, t: bad.primary.t}})
		}
		rules := append(append([]rrule{}, prior...), bad)
		trie, outs := env.buildImplTrie(rules)
		before, _ := env.buildImplTrie(prior)
		line := rulesLine(rules)
		c.Correspond("reject", join("addrules", line), strings.Join(outs, " "), true)
		got := outs[len(outs)-1]
		c.Class("bad:" + bc.what + ":" + strings.SplitN(got, ":", 2)[0])
		in := fmt.Sprintf("%s: %s", bc.what, describeRules([]rrule{bad}, nil))
		if got == "panic" {
			c.SpecFail("reject", in, "panic", "an error", "C16/reject/panic/"+bc.what, "an invalid rule panics instead of being rejected")
		} else if bc.must && got == "ok" {
			c.SpecFail("reject", in, "accepted", "an error", "C16/reject/accepted/"+bc.what, "an invalid rule is accepted")
		}
		if got != "ok" && trie.Fingerprint() != before.Fingerprint() {
			c.SpecFail("reject", in, "routes changed", "previous routes intact", "C16/reject/routes-changed", "a rejected rule changed the routing table")
		}
	}
	// conflicts: the same kind+template for another method (same or other service) is rejected
	for i := 0; i < c.N(300, 4000); i++ {
		t := genMustAccept(c)
		kind := []string{"GET", "POST", "*"}[c.Rng.Intn(3)]
		m1 := c.Rng.Intn(6)
		m2 := (m1 + 1 + c.Rng.Intn(5)) % 6
		if c.Rng.Intn(2) == 0 {
			m2 = (m1 + 3) % 6 // the method with the same short name in the other service
		}
		second := rrule{method: m2, primary: rbind{kind: kind, t: t}}
		if c.Rng.Intn(3) == 0 { // conflict through an additional binding
			second = rrule{method: m2, primary: rbind{kind: kind, t: ttmpl{segs: []tseg{{kind: sLit, lit: "other"}}}}, additional: []rbind{{kind: kind, t: t}}}
		}
		if c.Rng.Intn(3) == 0 { // the same template in its other spelling: {field} <-> {field=*}
			t2 := t
			t2.segs = append([]tseg(nil), t.segs...)
			for j := range t2.segs {
				if t2.segs[j].kind == sVar && t2.segs[j].sub == nil {
					t2.segs[j].sub = []tseg{{kind: sStar}}
				} else if t2.segs[j].kind == sVar && len(t2.segs[j].sub) == 1 && t2.segs[j].sub[0].kind == sStar {
					t2.segs[j].sub = nil
				}
			}
			second = rrule{method: m2, primary: rbind{kind: kind, t: t2}}
		}
		rules := []rrule{{method: m1, primary: rbind{kind: kind, t: t}}, second}
		_, outs := env.buildImplTrie(rules)
		line := rulesLine(rules)
		c.Correspond("conflict", join("addrules", line), strings.Join(outs, " "), true)
		c.Class("conflict:" + outs[1])
		if outs[0] == "ok" && outs[1] != "err:duplicate-rule" {
			c.SpecFail("conflict", fmt.Sprintf("%s %s for method %d and %s", kind, t.String(), m1, describeRules([]rrule{second}, nil)), outs[1], "err:duplicate-rule", "C16/reject/conflict-accepted", "a binding that conflicts with another method's is not rejected")
		}
		// the same method again is fine
		rules = []rrule{{method: m1, primary: rbind{kind: kind, t: t}}, {method: m1, primary: rbind{kind: kind, t: t}}}
		_, outs = env.buildImplTrie(rules)
		c.Correspond("redeclare", join("addrules", rulesLine(rules)), strings.Join(outs, " "), true)
		if outs[0] == "ok" && outs[1] != "ok" {
			c.SpecFail("redeclare", fmt.Sprintf("%s %s twice for method %d", kind, t.String(), m1), outs[1], "ok", "C16/accept/redeclare-refused", "re-declaring a method's own binding is refused")
		}
	}
	runLexerCases(c, "C16")
	c16API(c)
}

func tokenCountTmpl(s string) int {
	n := 1
	for _, ch := range s {
		switch ch {
		case '/', ':', '{', '}', '=', '.':
			n += 2
		}
	}
	return n
}

// c16API: failing registrations on empty and non-empty muxes leave the published state alone.
// c16Fields: body and response_body are resolved against the request and the response type
// respectively; a rule restating an already bound pattern still contributes its additional bindings.
func c16Fields(c *Ctx) {
	echo := func(ctx context.Context, in *dynamicpb.Message) (proto.Message, error) {
		r := dynamicpb.NewMessage(in.Descriptor().ParentFile().Messages().ByName("Reply"))
		r.Set(r.Descriptor().Fields().ByName("text"), protoreflect.ValueOfString("t"))
		return r, nil
	}
	one := func(name string, rule *annotations.HttpRule, sc *serviceconfig.Service) (*Fixture, error, interface{}) {
		fixtureDeferRegistration = true
		fx, err := NewFixture([]*MethodSpec{{Service: "F", Name: name, In: "Req", Out: "Reply", Unary: echo, Rule: rule}}, sc)
		fixtureDeferRegistration = false
		if err != nil {
			return nil, err, nil
		}
		e, pn := fx.RegisterOne("F")
		return fx, e, pn
	}
	withResp := func(path, resp string) *annotations.HttpRule { r := getRule(path); r.ResponseBody = resp; return r }
	for _, tc := range []struct {
		what   string
		rule   *annotations.HttpRule
		accept bool
	}{
		{"response_body names a field only the response type has (text)", withResp("/c16f/a", "text"), true},
		{"response_body names a message field of the response (nested)", withResp("/c16f/b", "nested"), true},
		{"response_body through the response (echo.name)", withResp("/c16f/c", "echo.name"), true},
		{"response_body names a field only the request type has (name)", withResp("/c16f/d", "name"), false},
		{"response_body names a field only the request type has (other_name)", withResp("/c16f/e", "other_name"), false},
		{"body names a field only the request type has (file)", postRule("/c16f/f", "file"), true},
		{"body names a field only the response type has (echo)", postRule("/c16f/g", "echo"), false},
	} {
		_, err, pn := one("R", tc.rule, nil)
		c.Eval("api-fields", tc.what, true)
		switch {
		case pn != nil:
			c.SpecFail("api-fields", tc.what, fmt.Sprint("panic: ", pn), "accept or error", "C16/api/panic/fields", "registration panics")
		case tc.accept && err != nil:
			c.SpecFail("api-fields", tc.what, err.Error(), "accepted", "C16/api/valid-field-refused", "a rule naming an existing field of the right message is refused")
		case !tc.accept && err == nil:
			c.SpecFail("api-fields", tc.what, "accepted", "an error", "C16/api/accepted/field-of-the-other-message", "a rule naming a field of the wrong message is accepted")
		}
	}
	// a rule restating an already bound primary pattern still contributes its additional bindings —
	// whichever of the two (service-config rule, annotation) carries them
	for _, extrasOn := range []string{"config", "annotation"} {
		ann := getRule("/c16f/p/{name}")
		cfgRule := getRule("/c16f/p/{name}")
		cfgRule.Selector = fxPkg + ".F.R"
		extras := []*annotations.HttpRule{getRule("/c16f/extra/{name}"), getRule("/c16f/extra2")}
		if extrasOn == "config" {
			cfgRule.AdditionalBindings = extras
		} else {
			ann.AdditionalBindings = extras
		}
		what := "primary pattern stated by a config rule and by the annotation, additional bindings on the " + extrasOn
		fx, err, pn := one("R", ann, &serviceconfig.Service{Http: &annotations.Http{Rules: []*annotations.HttpRule{cfgRule}}})
		c.Eval("api-fields", what, true)
		if err != nil || pn != nil || fx == nil {
			c.SpecFail("api-fields", what, fmt.Sprint(err, pn), "accepted", "C16/api/restated-primary-refused", "a rule restating an already bound pattern of the same method is refused")
			continue
		}
		for _, p := range []string{"/c16f/p/x", "/c16f/extra/x", "/c16f/extra2"} {
			rec, pn := fx.Serve(httptest.NewRequest("GET", p, nil))
			if pn != nil || rec.Code != 200 {
				c.SpecFail("api-fields", what+": GET "+p, fmt.Sprint(rec.Code, pn), "200", "C16/api/additional-binding-lost", "an accepted rule's additional binding does not route")
			}
		}
	}
}

// c16Implicit: a method that claims, with kind "*", the implicit /Service/Method path of another
// method of its service. Whichever is declared first, the conflict is an error, not a panic, and
// nothing of the service stays registered.
func c16Implicit(c *Ctx) {
	echo := func(ctx context.Context, in *dynamicpb.Message) (proto.Message, error) {
		return dynamicpb.NewMessage(in.Descriptor().ParentFile().Messages().ByName("Reply")), nil
	}
	for _, claimFirst := range []bool{true, false} {
		for _, kind := range []string{"*", "POST"} {
			a := &MethodSpec{Service: "Imp", Name: "A", In: "Req", Out: "Reply", Unary: echo, Rule: customRule(kind, "/verif.v1.Imp/B", "*")}
			b := &MethodSpec{Service: "Imp", Name: "B", In: "Req", Out: "Reply", Unary: echo}
			ms := []*MethodSpec{a, b}
			if !claimFirst {
				ms = []*MethodSpec{b, a}
			}
			fixtureDeferRegistration = true
			fx, err := NewFixture(ms, nil)
			fixtureDeferRegistration = false
			if err != nil {
				c.Note("c16 implicit fixture: " + err.Error())
				continue
			}
			fpBefore := fx.Mux.VerifSnapshot().Fingerprint()
			err2, pn := fx.RegisterOne("Imp")
			in := fmt.Sprintf("method A binds custom kind %q on /verif.v1.Imp/B, the implicit path of method B; A declared first=%v", kind, claimFirst)
			c.Eval("api-implicit", in, true)
			switch {
			case pn != nil:
				c.SpecFail("api-implicit", in, fmt.Sprint("panic: ", pn), "an error or an accepted registration", "C16/api/panic/implicit-path-claimed", "a binding that conflicts with another method's implicit binding panics instead of being rejected")
			case err2 != nil && fx.Mux.VerifSnapshot().Fingerprint() != fpBefore:
				c.SpecFail("api-implicit", in, "routes changed", "previous state intact", "C16/api/routes-changed", "a rejected registration changed the published state")
			case err2 == nil && kind == "*":
				c.SpecFail("api-implicit", in, "accepted", "an error (two methods on one kind and path)", "C16/api/accepted/implicit-path-claimed", "a binding that conflicts with another method's implicit binding is accepted")
			}
		}
	}
}

// c16Routes: accepted rules, then paths instantiated from their templates — also where a variable's
// value spells a sibling literal, and where a kind-"*" binding shares a path with a verb binding.
func c16Routes(c *Ctx) {
	var got string
	mk := func(name string) func(ctx context.Context, in *dynamicpb.Message) (proto.Message, error) {
		return func(ctx context.Context, in *dynamicpb.Message) (proto.Message, error) {
			got = name
			return dynamicpb.NewMessage(in.Descriptor().ParentFile().Messages().ByName("Reply")), nil
		}
	}
	specs := []*MethodSpec{
		{Name: "One", In: "Req", Out: "Reply", Unary: mk("One"), Rule: getRule("/c16i/{name}/one")},
		{Name: "Deep", In: "Req", Out: "Reply", Unary: mk("Deep"), Rule: getRule("/c16i/a/b/{i32}")},
		{Name: "Any", In: "Req", Out: "Reply", Unary: mk("Any"), Rule: customRule("*", "/c16i/any/thing", "*")},
		{Name: "Get", In: "Req", Out: "Reply", Unary: mk("Get"), Rule: getRule("/c16i/any/thing")},
		{Name: "Lit", In: "Req", Out: "Reply", Unary: mk("Lit"), Rule: postRule("/c16i/files/large", "*")},
		{Name: "Var", In: "Req", Out: "Reply", Unary: mk("Var"), Rule: getRule("/c16i/files/{name}")},
		// ":cancel" (a verb) and "/cancel" (a segment) spell two different templates
		{Name: "Verb", In: "Req", Out: "Reply", Unary: mk("Verb"), Rule: getRule("/c16i/things:cancel")},
		{Name: "Seg", In: "Req", Out: "Reply", Unary: mk("Seg"), Rule: getRule("/c16i/things/cancel")},
		{Name: "VVerb", In: "Req", Out: "Reply", Unary: mk("VVerb"), Rule: getRule("/c16i/jobs/{name}:cancel")},
		{Name: "VSeg", In: "Req", Out: "Reply", Unary: mk("VSeg"), Rule: getRule("/c16i/jobs/{name}/cancel")},
	}
	for _, order := range [][]int{{0, 1, 2, 3, 4, 5, 6, 7, 8, 9}, {9, 8, 7, 6, 5, 4, 3, 2, 1, 0}, {1, 0, 3, 2, 5, 4, 7, 6, 9, 8}} {
		var ms []*MethodSpec
		for _, i := range order {
			ms = append(ms, specs[i])
		}
		fx, err := NewFixture(ms, nil)
		if err != nil || fx.RegErr != nil || fx.RegPanic != nil {
			c.SpecFail("api-routes", fmt.Sprint("order ", order), fmt.Sprint(err, fx.RegErr, fx.RegPanic), "registered", "C16/api/valid-rules-refused", "valid rules are refused")
			continue
		}
		for _, p := range []struct{ verb, path, want string }{
			{"GET", "/c16i/x/one", "One"}, {"GET", "/c16i/a/one", "One"}, {"GET", "/c16i/any/one", "One"}, {"GET", "/c16i/files/one", "Var"},
			{"GET", "/c16i/a/b/7", "Deep"}, {"GET", "/c16i/any/thing", "Get"}, {"POST", "/c16i/any/thing", "Any"}, {"DELETE", "/c16i/any/thing", "Any"},
			{"POST", "/c16i/files/large", "Lit"}, {"GET", "/c16i/files/large", "Var"}, {"GET", "/c16i/files/a", "Var"},
			{"GET", "/c16i/things:cancel", "Verb"}, {"GET", "/c16i/things/cancel", "Seg"}, {"GET", "/c16i/jobs/j1:cancel", "VVerb"}, {"GET", "/c16i/jobs/j1/cancel", "VSeg"},
		} {
			got = ""
			var r = httptest.NewRequest(p.verb, p.path, nil)
			if p.verb != "GET" {
				r = httptest.NewRequest(p.verb, p.path, strings.NewReader("{}"))
			}
			rec, pn := fx.Serve(r)
			in := fmt.Sprintf("%s %s (registration order %v)", p.verb, p.path, order)
			c.Eval("api-routes", in, true)
			if pn != nil || rec.Code != 200 || got != p.want {
				c.SpecFail("api-routes", in, fmt.Sprintf("%d handler=%q panic=%v %s", rec.Code, got, pn, truncS(rec.Body.String(), 80)), "method "+p.want, "C16/api/instantiated-path-does-not-route", "a path instantiated from an accepted template does not route to its method")
			}
		}
		fx.Close()
	}
}

func c16API(c *Ctx) {
	c16Fields(c)
	c16Implicit(c)
	c16Routes(c)
	echo := func(ctx context.Context, in *dynamicpb.Message) (proto.Message, error) {
		return dynamicpb.NewMessage(in.Descriptor().ParentFile().Messages().ByName("Reply")), nil
	}
	probes := []struct{ verb, path string }{{"GET", "/c16/x/one"}, {"GET", "/c16/x/two"}, {"GET", "/c16/u1/messages/special"}, {"GET", "/c16/u1/messages/other"}, {"POST", "/verif.v1.Good/A"}, {"POST", "/verif.v1.Bad/B1"}, {"POST", "/verif.v1.Bad/B0"}, {"GET", "/c16/late/q"}, {"GET", "/c16/u1/late"}}
	badRules := []struct {
		what string
		rule *annotations.HttpRule
	}{
		{"unknown-field", getRule("/c16/late/{nope}")},
		{"bad-template", getRule("/c16/late/{name")},
		{"bad-body", postRule("/c16/late/b", "nope")},
		{"bad-response-body", func() *annotations.HttpRule { r := getRule("/c16/late/r"); r.ResponseBody = "nope"; return r }()},
		{"bad-additional", func() *annotations.HttpRule {
			r := getRule("/c16/{name}/late") // passes through the existing variable segment
			r.AdditionalBindings = []*annotations.HttpRule{getRule("/c16/{name}/late2/{nope}")}
			return r
		}()},
		{"conflict", getRule("/c16/{name}/one")},
		{"nil-custom-pattern", &annotations.HttpRule{Pattern: &annotations.HttpRule_Custom{}}},
		{"no-pattern", &annotations.HttpRule{Body: "*"}},
		{"nested-additional", func() *annotations.HttpRule {
			r := getRule("/c16/{name}/late3")
			r.AdditionalBindings = []*annotations.HttpRule{{Pattern: &annotations.HttpRule_Get{Get: "/c16/n"}, AdditionalBindings: []*annotations.HttpRule{getRule("/c16/nn")}}}
			return r
		}()},
	}
	for _, onEmpty := range []bool{false, true} {
		for _, bad := range badRules {
			for bi := 0; bi < 4; bi++ {
				// the method that carries the bad rule is unary, or a server stream (registerService
				// registers a service's streaming methods after ALL its unary ones)
				badFirst, badStream := bi%2 == 1, bi >= 2
				if onEmpty && bad.what == "conflict" {
					continue // nothing to conflict with
				}
				fixtureDeferRegistration = true
				goodVar := getRule("/c16/{name}/one")
				goodVar.AdditionalBindings = []*annotations.HttpRule{getRule("/c16/{name}/messages/{other_name}")}
				b0 := &MethodSpec{Service: "Bad", Name: "B0", In: "Req", Out: "Reply", Unary: echo, Rule: getRule("/c16/{name}/messages/special")}
				b1 := &MethodSpec{Service: "Bad", Name: "B1", In: "Req", Out: "Reply", Unary: echo, Rule: bad.rule}
				if badFirst {
					b0, b1 = &MethodSpec{Service: "Bad", Name: "B0", In: "Req", Out: "Reply", Unary: echo, Rule: bad.rule}, &MethodSpec{Service: "Bad", Name: "B1", In: "Req", Out: "Reply", Unary: echo, Rule: getRule("/c16/{name}/messages/special")}
				}
				if badStream {
					for _, b := range []*MethodSpec{b0, b1} {
						if b.Rule == bad.rule {
							b.Unary, b.ServerStream = nil, true
							b.Stream = func(fx *Fixture, ms *MethodSpec, st grpc.ServerStream) error {
								if err := st.RecvMsg(fx.NewMsg("Req")); err != nil {
									return err
								}
								return st.SendMsg(fx.NewMsg("Reply"))
							}
						}
					}
				}
				fx, err := NewFixture([]*MethodSpec{
					{Service: "Good", Name: "A", In: "Req", Out: "Reply", Unary: echo, Rule: goodVar},
					{Service: "Good", Name: "A2", In: "Req", Out: "Reply", Unary: echo, Rule: getRule("/c16/{name}/two")},
					b0, b1,
				}, nil)
				fixtureDeferRegistration = false
				if err != nil {
					c.Note("c16 fixture: " + err.Error())
					continue
				}
				in := fmt.Sprintf("bad=%s badFirst=%v badMethodIsAStream=%v onEmptyMux=%v", bad.what, badFirst, badStream, onEmpty)
				if !onEmpty {
					if err, pn := fx.RegisterOne("Good"); err != nil || pn != nil {
						c.SpecFail("api-atomic", in, fmt.Sprint(err, pn), "Good registers", "C16/api/good-refused", "valid service refused")
						continue
					}
				}
				snap := fx.Mux.VerifSnapshot()
				fpBefore := snap.Fingerprint()
				probe := func() string {
					var out []string
					for _, p := range probes {
						var r = httptest.NewRequest(p.verb, p.path, nil)
						if p.verb == "POST" {
							r = httptest.NewRequest(p.verb, p.path, strings.NewReader("{}"))
						}
						rec, pn := fx.Serve(r)
						out = append(out, fmt.Sprintf("%s %s -> %d %v", p.verb, p.path, rec.Code, pn != nil))
					}
					return strings.Join(out, "; ")
				}
				before := probe()
				err2, pn := fx.RegisterOne("Bad")
				c.Eval("api-atomic", in, true)
				if pn != nil {
					c.SpecFail("api-atomic", in, fmt.Sprint("panic: ", pn), "an error", "C16/api/panic/"+bad.what, "an invalid registration panics")
					continue
				}
				if err2 == nil {
					c.SpecFail("api-atomic", in, "accepted", "an error", "C16/api/accepted/"+bad.what, "an invalid registration is accepted")
					continue
				}
				after := probe()
				if after != before || snap.Fingerprint() != fpBefore || fx.Mux.VerifSnapshot().Fingerprint() != fpBefore {
					c.SpecFail("api-atomic", in, after, before, "C16/api/routes-changed", "a rejected registration changed previously registered routes (or the published state)")
				}
			}
		}
	}
	// nested additional bindings are refused ALSO below a pattern the method already holds (its own
	// implicit /Service/Method path restated, or its own rule given twice): that path of addRule
	// goes straight to the additional bindings
	for _, redeclare := range []string{"implicit", "twice"} {
		nestedAdd := func() []*annotations.HttpRule {
			return []*annotations.HttpRule{{Pattern: &annotations.HttpRule_Get{Get: "/c16r/n"}, AdditionalBindings: []*annotations.HttpRule{getRule("/c16r/nn")}}}
		}
		var specs []*MethodSpec
		var sc *serviceconfig.Service
		if redeclare == "implicit" {
			r := customRule("*", "/"+fxPkg+".Re/N", "*")
			r.AdditionalBindings = nestedAdd()
			specs = []*MethodSpec{{Service: "Re", Name: "N", In: "Req", Out: "Reply", Unary: echo, Rule: r}}
		} else {
			r := getRule("/c16r/own/{name}")
			r.Selector = fxPkg + ".Re.N"
			r.AdditionalBindings = nestedAdd()
			specs = []*MethodSpec{{Service: "Re", Name: "N", In: "Req", Out: "Reply", Unary: echo, Rule: getRule("/c16r/own/{name}")}}
			sc = &serviceconfig.Service{Http: &annotations.Http{Rules: []*annotations.HttpRule{r}}}
		}
		fixtureDeferRegistration = true
		fx, err := NewFixture(specs, sc)
		fixtureDeferRegistration = false
		if err != nil {
			c.Note("c16 redeclare fixture: " + err.Error())
			continue
		}
		err2, pn := fx.RegisterOne("Re")
		in := "nested additional bindings below a pattern the method already holds (" + redeclare + ")"
		c.Eval("api-atomic", in, true)
		var served []string
		for _, p := range []string{"/c16r/n", "/c16r/nn"} {
			if rec, _ := fx.Serve(httptest.NewRequest("GET", p, nil)); rec.Code == 200 {
				served = append(served, p)
			}
		}
		switch {
		case pn != nil:
			c.SpecFail("api-atomic", in, fmt.Sprint("panic: ", pn), "an error", "C16/api/panic/nested-redeclared", "an invalid registration panics")
		case err2 == nil || len(served) > 0:
			c.SpecFail("api-atomic", in, fmt.Sprintf("err=%v, routes served: %v", err2, served), "an error, no route of the rule", "C16/api/accepted/nested-redeclared", "nested additional bindings are accepted (and routed) when the rule's own pattern is already bound by the method")
		}
	}
}
