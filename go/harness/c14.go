package main

import (
	"bytes"
	"context"
	"encoding/base64"
	"fmt"
	"net/http"
	"net/http/httptest"
	"net/textproto"
	"sort"
	"strings"
	"time"

	"google.golang.org/grpc"
	"google.golang.org/grpc/codes"
	"google.golang.org/grpc/metadata"
	"google.golang.org/grpc/stats"
	"google.golang.org/grpc/status"
	"google.golang.org/protobuf/proto"
	"google.golang.org/protobuf/reflect/protoreflect"
	"google.golang.org/protobuf/types/dynamicpb"
	"larking.io/larking"
)

func init() { props["C14"] = runC14 }

// protocol-reserved keys, from the gRPC HTTP/2 protocol document (independent of the source).
var protocolKeys = []string{"content-type", "grpc-status", "grpc-message", "grpc-status-details-bin", "grpc-encoding", "grpc-timeout", "te", "user-agent", "grpc-message-type"}

func isProtocolKey(k string) bool {
	for _, p := range protocolKeys {
		if p == k {
			return true
		}
	}
	return false
}

func mdLine(md map[string][]string) string {
	var es []string
	for k, vs := range md {
		var xs []string
		for _, v := range vs {
			xs = append(xs, "x"+hexS(v))
		}
		es = append(es, hexS(k)+":"+strings.Join(xs, ","))
	}
	sort.Strings(es)
	return strings.Join(es, ";")
}

func c14Key(c *Ctx, bin bool) string {
	words := []string{"x", "custom", "trace", "id", "a", "b3", "req", "auth", "zz", "bin", "binary", "grpc", "grpc"} // "-bin" may also sit INSIDE a name; only the listed grpc-* names are reserved, not the prefix
	n := 1 + c.Rng.Intn(3)
	var parts []string
	for i := 0; i < n; i++ {
		w := words[c.Rng.Intn(len(words))]
		if c.Rng.Intn(3) == 0 {
			w = strings.ToUpper(w[:1]) + w[1:]
		}
		if c.Rng.Intn(6) == 0 {
			w = strings.ToUpper(w)
		}
		parts = append(parts, w)
	}
	k := strings.Join(parts, "-")
	if bin {
		k += []string{"-bin", "-Bin", "-BIN"}[c.Rng.Intn(3)]
	}
	return k
}

func c14Bytes(c *Ctx) []byte {
	n := c.Rng.Intn(9)
	if c.Rng.Intn(8) == 0 {
		n = 20 + c.Rng.Intn(40)
	}
	b := make([]byte, n)
	c.Rng.Read(b)
	return b
}

func runC14(c *Ctx) {
	c.Rule("function level: generated header maps (mixed-case token keys, multi-valued, reserved and whitelisted names, '-bin' values of every length 0..8 and longer in padded and raw std base64 plus junk) through newIncomingContext, generated metadata (lower-case keys incl. every protocol key) through setOutgoingHeader; API level: grpc-go client metadata/headers/trailers on succeeding and failing unary and streaming calls, gRPC-web trailer frame, HTTP transcoding headers; forging attempts for every protocol key. Non-trivial: at least one entry; distinct by kind+input.")
	c.Assume("header names are ASCII tokens, metadata keys lower-case (as net/http and grpc's metadata package produce them)")

	// ---- decodeBinHeader on all short byte strings in both encodings
	for n := 0; n <= c.N(2, 2); n++ {
		_ = n
	}
	for i := 0; i < c.N(600, 20000); i++ {
		b := c14Bytes(c)
		if i < 9 {
			b = bytes.Repeat([]byte{0xfb}, i)
		}
		for _, enc := range []*base64.Encoding{base64.StdEncoding, base64.RawStdEncoding} {
			v := enc.EncodeToString(b)
			got, err := larking.VerifDecodeBinHeader(v)
			impl := "err"
			if err == nil {
				impl = "ok " + hexS(got)
			}
			c.Correspond("bindec", join("bindec", hexS(v)), impl, len(b) > 0)
			if err != nil || got != string(b) {
				key := "C14/bin/raw-rejected"
				if enc == base64.StdEncoding && len(b)%3 != 0 {
					key = "C14/bin/padded-rejected"
				}
				c.SpecFail("bindec", v, impl, "ok "+hexs(b), key, "a valid '-bin' value is not decoded to its bytes")
			}
		}
		enc := larking.VerifEncodeBinHeader(b)
		c.Correspond("binenc", join("binenc", hexs(b)), hexS(enc), len(b) > 0)
		if d, err := base64.RawStdEncoding.DecodeString(enc); err != nil || !bytes.Equal(d, b) {
			c.SpecFail("binenc", hexs(b), enc, "raw std base64", "C14/bin/encode", "encodeBinHeader output does not decode to the bytes")
		}
	}
	// junk through the decoder: correspondence only
	junkAlpha := "AQz+/=-_ \n9"
	for i := 0; i < c.N(400, 8000); i++ {
		var sb strings.Builder
		for j, k := 0, c.Rng.Intn(10); j < k; j++ {
			sb.WriteByte(junkAlpha[c.Rng.Intn(len(junkAlpha))])
		}
		v := sb.String()
		got, err := larking.VerifDecodeBinHeader(v)
		impl := "err"
		if err == nil {
			impl = "ok " + hexS(got)
		}
		c.Correspond("bindec-junk", join("bindec", hexS(v)), impl, v != "")
		c.Class("bindec-junk:" + impl[:2])
	}

	// ---- incoming: header -> metadata
	for i := 0; i < c.N(800, 20000); i++ {
		h := http.Header{}
		lowerSeen := map[string]bool{}
		want := map[string][]string{}
		for j, k := 0, c.Rng.Intn(5); j < k; j++ {
			var key string
			bin := false
			switch r := c.Rng.Intn(10); {
			case r < 2:
				key = protocolKeys[c.Rng.Intn(len(protocolKeys))]
				if c.Rng.Intn(2) == 0 {
					key = textproto.CanonicalMIMEHeaderKey(key)
				}
			case r < 5:
				key, bin = c14Key(c, true), true
			default:
				key = c14Key(c, false)
			}
			lk := strings.ToLower(key)
			if lowerSeen[lk] {
				continue
			}
			lowerSeen[lk] = true
			var vals, wantVals []string
			for n, m := 0, 1+c.Rng.Intn(3); n < m; n++ {
				if strings.HasSuffix(lk, "-bin") {
					b := c14Bytes(c)
					if c.Rng.Intn(2) == 0 {
						vals = append(vals, base64.StdEncoding.EncodeToString(b))
					} else {
						vals = append(vals, base64.RawStdEncoding.EncodeToString(b))
					}
					wantVals = append(wantVals, string(b))
				} else {
					v := fmt.Sprintf("v%d-%d", i, n)
					vals = append(vals, v)
					wantVals = append(wantVals, v)
				}
			}
			_ = bin
			h[key] = vals
			if !isProtocolKey(lk) || lk == "user-agent" {
				want[lk] = wantVals
			}
		}
		md := larking.VerifNewIncomingMD(h)
		c.Correspond("mdin", join("mdin", mdLine(h)), mdLine(md), len(h) > 0)
		for k, wv := range want {
			if got := md[k]; strings.Join(got, "\x00") != strings.Join(wv, "\x00") {
				key := "C14/incoming/custom-header-lost"
				if strings.HasSuffix(k, "-bin") {
					key = "C14/incoming/bin-value-wrong"
				}
				c.SpecFail("mdin", mdLine(h), mdLine(map[string][]string{k: got}), mdLine(map[string][]string{k: wv}), key, "custom header does not reach the handler's metadata intact")
			}
		}
	}

	// ---- outgoing: metadata -> header
	for i := 0; i < c.N(800, 20000); i++ {
		md := metadata.MD{}
		for j, k := 0, c.Rng.Intn(5); j < k; j++ {
			var key string
			switch r := c.Rng.Intn(10); {
			case r < 3:
				key = protocolKeys[c.Rng.Intn(len(protocolKeys))]
			case r < 6:
				key = strings.ToLower(c14Key(c, true))
			default:
				key = strings.ToLower(c14Key(c, false))
			}
			var vals []string
			for n, m := 0, 1+c.Rng.Intn(3); n < m; n++ {
				if strings.HasSuffix(key, "-bin") {
					vals = append(vals, string(c14Bytes(c)))
				} else {
					vals = append(vals, fmt.Sprintf("v%d-%d", i, n))
				}
			}
			md[key] = vals
		}
		h := http.Header{}
		larking.VerifSetOutgoingHeader(h, md)
		c.Correspond("mdout", join("mdout", mdLine(md)), mdLine(h), len(md) > 0)
		for k, vs := range md {
			ck := textproto.CanonicalMIMEHeaderKey(k)
			if isProtocolKey(k) {
				if _, ok := h[ck]; ok {
					c.SpecFail("mdout", mdLine(md), ck, "not written", "C14/outgoing/reserved-forged/"+k, "handler metadata can set a protocol-reserved response key")
				}
				continue
			}
			got := h[ck]
			okv := len(got) == len(vs)
			for n := 0; okv && n < len(vs); n++ {
				if strings.HasSuffix(k, "-bin") {
					d, err := base64.RawStdEncoding.DecodeString(strings.TrimRight(got[n], "="))
					okv = err == nil && string(d) == vs[n]
				} else {
					okv = got[n] == vs[n]
				}
			}
			if !okv {
				c.SpecFail("mdout", mdLine(md), fmt.Sprint(got), fmt.Sprint(vs), "C14/outgoing/value-wrong", "handler metadata does not reach the response header intact")
			}
		}
	}

	c14API(c)
}

type c14Script struct {
	header  metadata.MD
	trailer metadata.MD
	fail    bool
	replies int
	split   bool // set header and trailer metadata one value per call
	// the header metadata reaches the stream in two steps: all keys but the last through
	// SetHeader, the last one through SendHeader — what was queued first must not be lost
	sendLast bool
}

// c14SplitLast: md without its (alphabetically) last key, and that key alone.
func c14SplitLast(md metadata.MD) (rest, last metadata.MD) {
	keys := make([]string, 0, len(md))
	for k := range md {
		keys = append(keys, k)
	}
	sort.Strings(keys)
	rest, last = metadata.MD{}, metadata.MD{}
	for i, k := range keys {
		if i == len(keys)-1 {
			last[k] = md[k]
		} else {
			rest[k] = md[k]
		}
	}
	return
}

// c14Extra: a trailer key that is also a header key over gRPC-web, and header metadata in
// front of an AsHTTPBodyWriter download.
func c14Extra(c *Ctx) {
	dl := func(fx *Fixture, ms *MethodSpec, st grpc.ServerStream) error {
		if err := st.RecvMsg(fx.NewMsg("Req")); err != nil {
			return err
		}
		st.SetHeader(metadata.Pairs("x-c14-dl", "hv", "x-c14-dl", "hv2", "x-c14-dl-bin", "\x00\xff")) //nolint
		hb := fx.NewMsg("google.api.HttpBody")
		hb.Set(hb.Descriptor().Fields().ByName("content_type"), protoreflect.ValueOfString("text/x-c14"))
		w, err := larking.AsHTTPBodyWriter(st, hb)
		if err != nil {
			return err
		}
		_, err = w.Write([]byte("download-bytes"))
		return err
	}
	same := func(fx *Fixture, ms *MethodSpec, st grpc.ServerStream) error {
		if err := st.RecvMsg(fx.NewMsg("Req")); err != nil {
			return err
		}
		st.SetHeader(metadata.Pairs("x-c14-same", "header-value", "x-c14-same-bin", "hb")) //nolint
		if err := st.SendMsg(fx.NewMsg("Reply")); err != nil {
			return err
		}
		st.SetTrailer(metadata.Pairs("x-c14-same", "trailer-value", "x-c14-same-bin", "tb1", "x-c14-same-bin", "tb2", "x-c14-only-t", "t"))
		return nil
	}
	// header and trailer metadata under one key, and the handler returns WITHOUT having written anything
	// (a failing unary call, a server stream that ends empty): the header value is still the header's
	sameFail := func(ctx context.Context, in *dynamicpb.Message) (proto.Message, error) {
		grpc.SetHeader(ctx, metadata.Pairs("x-c14-same", "header-value", "x-c14-same-bin", "hb", "x-c14-only-h", "h"))    //nolint
		grpc.SetTrailer(ctx, metadata.Pairs("x-c14-same", "trailer-value", "x-c14-same-bin", "tb1", "x-c14-only-t", "t")) //nolint
		return nil, status.Error(codes.FailedPrecondition, "c14 same-key failure")
	}
	sameEmpty := func(fx *Fixture, ms *MethodSpec, st grpc.ServerStream) error {
		if err := st.RecvMsg(fx.NewMsg("Req")); err != nil {
			return err
		}
		st.SetHeader(metadata.Pairs("x-c14-same", "header-value", "x-c14-same-bin", "hb", "x-c14-only-h", "h")) //nolint
		st.SetTrailer(metadata.Pairs("x-c14-same", "trailer-value", "x-c14-same-bin", "tb1", "x-c14-only-t", "t"))
		return nil
	}
	fx, err := NewFixture([]*MethodSpec{
		{Name: "Dl", In: "Req", Out: "google.api.HttpBody", ServerStream: true, Stream: dl, Rule: getRule("/c14x/dl")},
		{Name: "Same", In: "Req", Out: "Reply", ServerStream: true, Stream: same, Rule: getRule("/c14x/same")},
		{Name: "SameFail", In: "Req", Out: "Reply", Unary: sameFail, Rule: getRule("/c14x/samefail")},
		{Name: "SameEmpty", In: "Req", Out: "Reply", ServerStream: true, Stream: sameEmpty, Rule: getRule("/c14x/sameempty")},
	}, nil)
	if err != nil || fx.RegErr != nil || fx.RegPanic != nil {
		c.SpecFail("fixture", "c14 extra", fmt.Sprint(err, fx.RegErr, fx.RegPanic), "", "C14/fixture", "fixture")
		return
	}
	defer fx.Close()
	// AsHTTPBodyWriter download: committed headers
	{
		rec, pn := fx.Serve(httptest.NewRequest("GET", "/c14x/dl", nil))
		in := "GET /c14x/dl: SetHeader, then AsHTTPBodyWriter"
		c.Eval("api-http-bodywriter-md", in, true)
		h := http.Header{}
		if pn == nil {
			h = rec.Result().Header
		}
		bin, _ := base64.RawStdEncoding.DecodeString(strings.TrimRight(h.Get("X-C14-Dl-Bin"), "="))
		if pn != nil || rec.Code != 200 || rec.Body.String() != "download-bytes" || strings.Join(h.Values("X-C14-Dl"), ",") != "hv,hv2" || string(bin) != "\x00\xff" {
			c.SpecFail("api-http-bodywriter-md", in, fmt.Sprintf("%d body=%q x-c14-dl=%q x-c14-dl-bin=%q panic=%v", rec.Code, truncS(rec.Body.String(), 40), h.Values("X-C14-Dl"), h.Get("X-C14-Dl-Bin"), pn), "200, the bytes, x-c14-dl=[hv hv2] and the -bin value", "C14/http/header-lost-before-bodywriter", "header metadata set before AsHTTPBodyWriter does not reach the HTTP client")
		}
	}
	// HTTP transcoding: nothing written when the handler returns, one key in header and trailer metadata
	for _, path := range []string{"/c14x/samefail", "/c14x/sameempty"} {
		rec, pn := fx.Serve(httptest.NewRequest("GET", path, nil))
		in := "GET " + path + ": x-c14-same set as header and as trailer, nothing written before the handler returns"
		c.Eval("api-http-same-key", in, true)
		if pn != nil {
			c.SpecFail("api-http-same-key", in, fmt.Sprint("panic ", pn), "a response", "C14/http/panic", "panic")
			continue
		}
		h := rec.Result().Header
		bin, _ := base64.RawStdEncoding.DecodeString(strings.TrimRight(h.Get("X-C14-Same-Bin"), "="))
		if h.Get("X-C14-Same") != "header-value" || string(bin) != "hb" || h.Get("X-C14-Only-H") != "h" {
			c.SpecFail("api-http-same-key", in, fmt.Sprintf("%d x-c14-same=%q x-c14-same-bin=%q x-c14-only-h=%q", rec.Code, h.Values("X-C14-Same"), h.Values("X-C14-Same-Bin"), h.Values("X-C14-Only-H")), "x-c14-same=header-value, x-c14-same-bin=hb, x-c14-only-h=h", "C14/http/header-lost-same-key-as-trailer", "header metadata whose key the handler also used for a trailer does not reach the HTTP client")
		}
	}
	// gRPC-web: the same key as header and as trailer
	for _, ct := range []string{"application/grpc-web+proto", "application/grpc-web-text+proto"} {
		r := httptest.NewRequest("POST", "/verif.v1.Svc/Same", bytes.NewReader(grpcFrame(0, nil)))
		if strings.Contains(ct, "text") {
			r = httptest.NewRequest("POST", "/verif.v1.Svc/Same", strings.NewReader(base64.StdEncoding.EncodeToString(grpcFrame(0, nil))))
		}
		r.Header.Set("Content-Type", ct)
		rec, pn := fx.Serve(r)
		in := ct + ": x-c14-same set as header and as trailer"
		c.Eval("api-web-same-key", in, true)
		if pn != nil {
			c.SpecFail("api-web-same-key", in, fmt.Sprint("panic ", pn), "a response", "C14/web/panic", "panic")
			continue
		}
		body := rec.Body.Bytes()
		if strings.Contains(ct, "text") {
			if d, err := base64.StdEncoding.DecodeString(string(body)); err == nil {
				body = d
			}
		}
		frames, flags, _ := parseFrames(body)
		tr := http.Header{}
		for i, f := range frames {
			if flags[i]&0x80 != 0 {
				tp := textproto.NewReader(bufioReader(append(append([]byte{}, f...), '\r', '\n')))
				mh, _ := tp.ReadMIMEHeader()
				for k, v := range mh {
					tr[strings.ToLower(k)] = v
				}
			}
		}
		var tb []string
		for _, v := range tr["x-c14-same-bin"] {
			d, _ := base64.RawStdEncoding.DecodeString(strings.TrimRight(v, "="))
			tb = append(tb, string(d))
		}
		if rec.Header().Get("X-C14-Same") != "header-value" || strings.Join(tr["x-c14-same"], ",") != "trailer-value" || strings.Join(tb, ",") != "tb1,tb2" || strings.Join(tr["x-c14-only-t"], ",") != "t" {
			c.SpecFail("api-web-same-key", in, fmt.Sprintf("header x-c14-same=%q; trailer frame x-c14-same=%q x-c14-same-bin=%q x-c14-only-t=%q", rec.Header().Get("X-C14-Same"), tr["x-c14-same"], tb, tr["x-c14-only-t"]), "header-value / trailer-value / [tb1 tb2] / t", "C14/web/trailer-lost-same-key-as-header", "a handler trailer whose key was also sent as a header does not reach the gRPC-web client")
		}
	}
}

// c14NoStats is a stats.Handler that records nothing: installing it must not change what
// the handler and the client see.
type c14NoStats struct{}

func (c14NoStats) TagRPC(ctx context.Context, _ *stats.RPCTagInfo) context.Context   { return ctx }
func (c14NoStats) HandleRPC(context.Context, stats.RPCStats)                         {}
func (c14NoStats) TagConn(ctx context.Context, _ *stats.ConnTagInfo) context.Context { return ctx }
func (c14NoStats) HandleConn(context.Context, stats.ConnStats)                       {}

func c14API(c *Ctx) {
	c14Web(c)
	c14Extra(c)
	c14Main(c, false)
	c14Main(c, true)
}

// c14SetSplit hands md to set one value per call, keys in sorted order: the values of a key
// arrive over several calls and must still be delivered in the order they were set.
func c14SetSplit(md metadata.MD, set func(metadata.MD)) {
	keys := make([]string, 0, len(md))
	for k := range md {
		keys = append(keys, k)
	}
	sort.Strings(keys)
	for _, k := range keys {
		for _, v := range md[k] {
			set(metadata.MD{k: []string{v}})
		}
	}
}

func c14Main(c *Ctx, withStats bool) {
	var sc c14Script
	var seen metadata.MD
	run := func(ctx context.Context) error {
		seen, _ = metadata.FromIncomingContext(ctx)
		if sc.sendLast && len(sc.header) > 0 {
			rest, last := c14SplitLast(sc.header)
			grpc.SetHeader(ctx, rest)  //nolint
			grpc.SendHeader(ctx, last) //nolint
			if len(sc.trailer) > 0 {
				grpc.SetTrailer(ctx, sc.trailer) //nolint
			}
		} else if sc.split {
			c14SetSplit(sc.header, func(md metadata.MD) { grpc.SetHeader(ctx, md) })   //nolint
			c14SetSplit(sc.trailer, func(md metadata.MD) { grpc.SetTrailer(ctx, md) }) //nolint
		} else {
			if len(sc.header) > 0 {
				grpc.SetHeader(ctx, sc.header) //nolint
			}
			if len(sc.trailer) > 0 {
				grpc.SetTrailer(ctx, sc.trailer) //nolint
			}
		}
		if sc.fail {
			return status.Error(codes.FailedPrecondition, "scripted failure")
		}
		return nil
	}
	unary := func(ctx context.Context, in *dynamicpb.Message) (proto.Message, error) {
		if err := run(ctx); err != nil {
			return nil, err
		}
		return dynamicpb.NewMessage(in.Descriptor().ParentFile().Messages().ByName("Reply")), nil
	}
	stream := func(fx *Fixture, ms *MethodSpec, st grpc.ServerStream) error {
		if err := st.RecvMsg(fx.NewMsg("Req")); err != nil {
			return err
		}
		seen, _ = metadata.FromIncomingContext(st.Context())
		if sc.sendLast && len(sc.header) > 0 {
			rest, last := c14SplitLast(sc.header)
			st.SetHeader(rest)  //nolint
			st.SendHeader(last) //nolint
		} else if sc.split {
			c14SetSplit(sc.header, func(md metadata.MD) { st.SetHeader(md) }) //nolint
		} else if len(sc.header) > 0 {
			st.SetHeader(sc.header) //nolint
		}
		for i := 0; i < sc.replies; i++ {
			if err := st.SendMsg(fx.NewMsg("Reply")); err != nil {
				return err
			}
		}
		if sc.split {
			c14SetSplit(sc.trailer, st.SetTrailer)
		} else if len(sc.trailer) > 0 {
			st.SetTrailer(sc.trailer)
		}
		if sc.fail {
			return status.Error(codes.FailedPrecondition, "scripted failure")
		}
		return nil
	}
	var muxOpts []larking.MuxOption
	if withStats {
		muxOpts = append(muxOpts, larking.StatsOption(c14NoStats{}))
	}
	fx, err := NewFixture([]*MethodSpec{
		{Name: "U", In: "Req", Out: "Reply", Unary: unary, Rule: getRule("/c14/u")},
		{Name: "S", In: "Req", Out: "Reply", ServerStream: true, Stream: stream, Rule: getRule("/c14/s")},
	}, nil, muxOpts...)
	if err != nil || fx.RegErr != nil || fx.RegPanic != nil {
		c.SpecFail("fixture", "c14", fmt.Sprint(err, fx.RegErr, fx.RegPanic), "registered", "C14/fixture", "fixture registration failed")
		return
	}
	defer fx.Close()
	cc, err := fx.GRPC()
	if err != nil {
		c.Note("grpc client: " + err.Error())
		return
	}

	genMD := func(prefix string, withReserved bool) metadata.MD {
		md := metadata.MD{}
		for j, k := 0, c.Rng.Intn(4); j < k; j++ {
			bin := c.Rng.Intn(3) == 0
			key := prefix + strings.ToLower(c14Key(c, bin))
			var vals []string
			for n, m := 0, 1+c.Rng.Intn(2); n < m; n++ {
				if bin {
					vals = append(vals, string(c14Bytes(c)))
				} else {
					vals = append(vals, fmt.Sprintf("val-%d", c.Rng.Intn(1000)))
				}
			}
			md[key] = vals
		}
		if withReserved {
			k := protocolKeys[c.Rng.Intn(len(protocolKeys))]
			v := "forged"
			if k == "grpc-status" {
				v = "0"
			}
			md[k] = []string{v}
		}
		return md
	}
	sameVals := func(got, want []string) bool { return strings.Join(got, "\x00") == strings.Join(want, "\x00") }

	for i := 0; i < c.N(60, 1500); i++ {
		sc = c14Script{header: genMD("h-", c.Rng.Intn(3) == 0), trailer: genMD("t-", c.Rng.Intn(3) == 0), fail: c.Rng.Intn(2) == 0, replies: c.Rng.Intn(3), split: c.Rng.Intn(2) == 0, sendLast: c.Rng.Intn(4) == 0}
		reqMD := genMD("q-", false)
		in := fmt.Sprintf("req=%s hdr=%s trl=%s fail=%v replies=%d one-value-per-call=%v last-header-key-through-SendHeader=%v stats-handler=%v", mdLine(reqMD), mdLine(sc.header), mdLine(sc.trailer), sc.fail, sc.replies, sc.split, sc.sendLast, withStats)
		streaming := i%2 == 1

		// ---------- gRPC with grpc-go
		{
			ctx, cancel := context.WithTimeout(metadata.NewOutgoingContext(context.Background(), reqMD), 5*time.Second)
			var hdr, trl metadata.MD
			var gerr error
			seen = nil
			if !streaming {
				gerr = cc.Invoke(ctx, "/verif.v1.Svc/U", fx.NewMsg("Req"), fx.NewMsg("Reply"), grpc.Header(&hdr), grpc.Trailer(&trl))
			} else {
				st, err := cc.NewStream(ctx, &grpc.StreamDesc{ServerStreams: true}, "/verif.v1.Svc/S")
				if err == nil {
					err = st.SendMsg(fx.NewMsg("Req"))
				}
				if err == nil {
					err = st.CloseSend()
				}
				for err == nil {
					err = st.RecvMsg(fx.NewMsg("Reply"))
				}
				if st != nil {
					hdr, _ = st.Header()
					trl = st.Trailer()
				}
				gerr = err
				if gerr != nil && gerr.Error() == "EOF" {
					gerr = nil
				}
			}
			cancel()
			c.Eval("api-grpc-md", in, true)
			for k, vs := range reqMD {
				if !sameVals(seen[k], vs) {
					c.SpecFail("api-grpc-md", in, fmt.Sprintf("%s=%q", k, seen[k]), fmt.Sprintf("%q", vs), "C14/grpc/request-metadata", "request metadata does not reach the handler")
				}
			}
			for k, vs := range sc.header {
				if isProtocolKey(k) {
					continue
				}
				if !sameVals(hdr[k], vs) {
					c.SpecFail("api-grpc-md", in, fmt.Sprintf("%s=%q", k, hdr[k]), fmt.Sprintf("%q", vs), "C14/grpc/header-lost", "handler header metadata does not reach the gRPC client")
				}
			}
			for k, vs := range sc.trailer {
				if isProtocolKey(k) {
					continue
				}
				if !sameVals(trl[k], vs) {
					key := "C14/grpc/trailer-lost"
					c.SpecFail("api-grpc-md", in, fmt.Sprintf("%s=%q", k, trl[k]), fmt.Sprintf("%q", vs), key, "handler trailer metadata does not reach the gRPC client")
				}
			}
			gotCode := status.Code(gerr)
			wantCode := codes.OK
			if sc.fail {
				wantCode = codes.FailedPrecondition
			}
			if gotCode != wantCode || (sc.fail && status.Convert(gerr).Message() != "scripted failure") {
				c.SpecFail("api-grpc-md", in, fmt.Sprint(gerr), fmt.Sprint(wantCode), "C14/grpc/status-forged", "handler metadata changed the status the client sees")
			}
		}

		// ---------- gRPC-web (binary) on a recorder: headers + trailer frame
		{
			path := "/verif.v1.Svc/U"
			if streaming {
				path = "/verif.v1.Svc/S"
			}
			r := httptest.NewRequest("POST", path, bytes.NewReader(grpcFrame(0, nil)))
			r.Header.Set("Content-Type", "application/grpc-web+proto")
			for k, vs := range reqMD {
				for _, v := range vs {
					if strings.HasSuffix(k, "-bin") {
						v = base64.StdEncoding.EncodeToString([]byte(v))
					}
					r.Header.Add(k, v)
				}
			}
			seen = nil
			rec, pn := fx.Serve(r)
			c.Eval("api-web-md", in, true)
			if pn != nil {
				c.SpecFail("api-web-md", in, fmt.Sprint("panic ", pn), "response", "C14/web/panic", "panic")
				continue
			}
			for k, vs := range reqMD {
				if !sameVals(seen[k], vs) {
					c.SpecFail("api-web-md", in, fmt.Sprintf("%s=%q", k, seen[k]), fmt.Sprintf("%q", vs), "C14/web/request-metadata", "request headers do not reach the handler (padded -bin)")
				}
			}
			all := http.Header{}
			for k, v := range rec.Header() {
				all[strings.ToLower(strings.TrimPrefix(k, http.TrailerPrefix))] = v
			}
			frames, flags, _ := parseFrames(rec.Body.Bytes())
			for i, f := range frames {
				if flags[i]&0x80 != 0 {
					tp := textproto.NewReader(bufioReader(append(append([]byte{}, f...), '\r', '\n')))
					mh, _ := tp.ReadMIMEHeader()
					for k, v := range mh {
						all[strings.ToLower(k)] = v
					}
				}
			}
			check := func(md metadata.MD, what string) {
				for k, vs := range md {
					if isProtocolKey(k) {
						continue
					}
					got := all[k]
					ok := len(got) == len(vs)
					for n := 0; ok && n < len(vs); n++ {
						if strings.HasSuffix(k, "-bin") {
							d, err := base64.RawStdEncoding.DecodeString(strings.TrimRight(got[n], "="))
							ok = err == nil && string(d) == vs[n]
						} else {
							ok = got[n] == vs[n]
						}
					}
					if !ok {
						c.SpecFail("api-web-md", in, fmt.Sprintf("%s=%q", k, got), fmt.Sprintf("%q", vs), "C14/web/"+what+"-lost", "handler "+what+" metadata does not reach the gRPC-web client")
					}
				}
			}
			check(sc.header, "header")
			check(sc.trailer, "trailer")
			wantStatus := "0"
			if sc.fail {
				wantStatus = "9"
			}
			if got := first(all["grpc-status"]); got != wantStatus {
				c.SpecFail("api-web-md", in, "grpc-status="+got, wantStatus, "C14/web/status-forged", "handler metadata changed grpc-status")
			}
			if ct := rec.Header().Get("Content-Type"); ct == "forged" {
				c.SpecFail("api-web-md", in, ct, "the protocol's content-type", "C14/web/content-type-forged", "handler metadata changed content-type")
			}
			for _, k := range protocolKeys {
				for _, v := range all[k] {
					if v == "forged" {
						c.SpecFail("api-web-md", in, k+"="+v, "the protocol's value", "C14/web/reserved-forged/"+k, "handler metadata set a protocol-reserved key")
					}
				}
			}
		}

		// ---------- HTTP transcoding: headers
		{
			path := "/c14/u"
			if streaming {
				path = "/c14/s"
			}
			r := httptest.NewRequest("GET", path, nil)
			for k, vs := range reqMD {
				for _, v := range vs {
					if strings.HasSuffix(k, "-bin") {
						v = base64.RawStdEncoding.EncodeToString([]byte(v))
					}
					r.Header.Add(k, v)
				}
			}
			seen = nil
			rec, pn := fx.Serve(r)
			c.Eval("api-http-md", in, true)
			if pn != nil {
				c.SpecFail("api-http-md", in, fmt.Sprint("panic ", pn), "response", "C14/http/panic", "panic")
				continue
			}
			for k, vs := range reqMD {
				if !sameVals(seen[k], vs) {
					c.SpecFail("api-http-md", in, fmt.Sprintf("%s=%q", k, seen[k]), fmt.Sprintf("%q", vs), "C14/http/request-metadata", "request headers do not reach the handler")
				}
			}
			{
				for k, vs := range sc.header {
					if isProtocolKey(k) {
						continue
					}
					got := rec.Header()[textproto.CanonicalMIMEHeaderKey(k)]
					ok := len(got) == len(vs)
					for n := 0; ok && n < len(vs); n++ {
						if strings.HasSuffix(k, "-bin") {
							d, err := base64.RawStdEncoding.DecodeString(strings.TrimRight(got[n], "="))
							ok = err == nil && string(d) == vs[n]
						} else {
							ok = got[n] == vs[n]
						}
					}
					if !ok {
						c.SpecFail("api-http-md", in, fmt.Sprintf("%s=%q", k, got), fmt.Sprintf("%q", vs), "C14/http/header-lost", "handler header metadata does not reach the HTTP client")
					}
				}
			}
			if ct := rec.Header().Get("Content-Type"); ct == "forged" {
				c.SpecFail("api-http-md", in, ct, "application/json", "C14/http/content-type-forged", "handler metadata changed content-type")
			}
		}
	}
}

var c14FixedTrailer = metadata.Pairs("x-c14-fixed", "f")

// snapRW records the header map at the moment the header block goes out.
type snapRW struct {
	*httptest.ResponseRecorder
	first http.Header
}

func (s *snapRW) snap() {
	if s.first == nil {
		s.first = s.ResponseRecorder.Header().Clone()
	}
}
func (s *snapRW) Write(b []byte) (int, error) { s.snap(); return s.ResponseRecorder.Write(b) }
func (s *snapRW) WriteHeader(code int)        { s.snap(); s.ResponseRecorder.WriteHeader(code) }

func hdrLine(h http.Header) string {
	if len(h) == 0 {
		return "-"
	}
	var es []string
	for k, vs := range h {
		var xs []string
		for _, v := range vs {
			if v == "" {
				xs = append(xs, "-")
			} else {
				xs = append(xs, hexS(v))
			}
		}
		es = append(es, hexS(k)+"="+strings.Join(xs, ","))
	}
	sort.Strings(es)
	return strings.Join(es, ";")
}

// c14Web: the gRPC-web trailer frame against the webWriter model — the header map when the
// header block went out and when the handler had returned decide, key by key, what the frame
// holds — and against the property (every handler trailer is in the frame).
func c14Web(c *Ctx) {
	type script struct {
		hdr, tr      metadata.MD
		sendHeader   bool
		msgs         int
		trBeforeMsgs bool
		fail         bool
	}
	var cur script
	h := func(fx *Fixture, ms *MethodSpec, st grpc.ServerStream) error {
		if err := st.RecvMsg(fx.NewMsg("Req")); err != nil {
			return err
		}
		if len(cur.hdr) > 0 {
			// through the context API, one call per key (an interceptor and the method both add headers)
			for k, vs := range cur.hdr {
				if err := grpc.SetHeader(st.Context(), metadata.MD{k: vs}); err != nil {
					return status.Errorf(codes.Internal, "SetHeader: %v", err)
				}
			}
		}
		st.SetTrailer(c14FixedTrailer) // a long-lived MD the handler reuses for every RPC
		if cur.trBeforeMsgs {
			st.SetTrailer(cur.tr)
		}
		if cur.sendHeader {
			st.SendHeader(nil) //nolint
		}
		for i := 0; i < cur.msgs; i++ {
			if err := st.SendMsg(fx.NewMsg("Reply")); err != nil {
				return err
			}
		}
		if !cur.trBeforeMsgs {
			st.SetTrailer(cur.tr)
		}
		if cur.fail {
			return status.Error(codes.Aborted, "c14web")
		}
		return nil
	}
	fx, err := NewFixture([]*MethodSpec{{Name: "WebMD", In: "Req", Out: "Reply", ServerStream: true, Stream: h}}, nil)
	if err != nil || fx.RegErr != nil || fx.RegPanic != nil {
		c.SpecFail("fixture", "c14 web", fmt.Sprint(err, fx.RegErr, fx.RegPanic), "", "C14/fixture", "fixture")
		return
	}
	defer fx.Close()
	// names that begin with letters of "Trailer:" (the prefix under which handler trailers wait in the
	// header map), with a digit, a dash-free name, one that contains "-bin" in the middle
	keys := []string{"x-a", "x-b", "x-c-bin", "x-d", "x-long-key-name", "x-e-bin", "trace-id", "tier", "ttl-bin", "traceparent", "rate", "eta", "item-bin", "link-id", "a", "x-bin-version", "3d"}
	genMD := func() metadata.MD {
		md := metadata.MD{}
		for n := c.Rng.Intn(4); n > 0; n-- {
			k := keys[c.Rng.Intn(len(keys))]
			for m := 1 + c.Rng.Intn(2); m > 0; m-- {
				v := fmt.Sprintf("v%d", c.Rng.Intn(1000))
				if strings.HasSuffix(k, "-bin") {
					v = string([]byte{byte(c.Rng.Intn(256)), 0, byte(c.Rng.Intn(256))})
				}
				md.Append(k, v)
			}
		}
		return md
	}
	for i := 0; i < c.N(160, 3000); i++ {
		cur = script{hdr: genMD(), tr: genMD(), sendHeader: c.Rng.Intn(3) == 0, msgs: c.Rng.Intn(3), trBeforeMsgs: c.Rng.Intn(3) == 0, fail: c.Rng.Intn(3) == 0}
		ct := []string{"application/grpc-web+proto", "application/grpc-web-text+proto", "application/grpc-web"}[c.Rng.Intn(3)]
		var r *http.Request
		if strings.Contains(ct, "text") {
			r = httptest.NewRequest("POST", "/verif.v1.Svc/WebMD", strings.NewReader(base64.StdEncoding.EncodeToString(grpcFrame(0, nil))))
		} else {
			r = httptest.NewRequest("POST", "/verif.v1.Svc/WebMD", bytes.NewReader(grpcFrame(0, nil)))
		}
		r.Header.Set("Content-Type", ct)
		rw := &snapRW{ResponseRecorder: httptest.NewRecorder()}
		_, pn := serveOn(fx.Mux, r, rw)
		in := fmt.Sprintf("%s hdr=%v tr=%v sendHeader=%v msgs=%d trailerFirst=%v fail=%v", ct, cur.hdr, cur.tr, cur.sendHeader, cur.msgs, cur.trBeforeMsgs, cur.fail)
		if pn != nil {
			c.Eval("api-web-trailer", in, true)
			c.SpecFail("api-web-trailer", in, fmt.Sprint("panic ", pn), "a response", "C14/web/panic", "panic")
			continue
		}
		body := rw.Body.Bytes()
		if strings.Contains(ct, "text") {
			d, err := base64.StdEncoding.DecodeString(string(body))
			if err != nil {
				c.SpecFail("api-web-trailer", in, "body is not base64: "+truncS(string(body), 80), "base64", "C14/web/body-not-base64", "")
				continue
			}
			body = d
		}
		frames, flags, _ := parseFrames(body)
		got := map[string][]string{}
		nTrailerFrames := 0
		for j, f := range frames {
			if flags[j]&0x80 == 0 {
				continue
			}
			nTrailerFrames++
			for _, ln := range strings.Split(string(f), "\r\n") {
				if ln == "" {
					continue
				}
				k, v, _ := strings.Cut(ln, ": ")
				got[k] = append(got[k], v)
			}
		}
		var es []string
		for k, vs := range got {
			var xs []string
			for _, v := range vs {
				xs = append(xs, hexS(v))
			}
			es = append(es, hexS(k)+"="+strings.Join(xs, ","))
		}
		sort.Strings(es)
		respCT := rw.Header().Get("Content-Type")
		firstLine, implLine := "!", "no-frame"
		if rw.first != nil {
			firstLine = hdrLine(rw.first)
		}
		if nTrailerFrames > 0 {
			implLine = strings.Join(es, ";")
		}
		c.Correspond("web-trailer-frame", join("webtrailer", hexS(respCT), firstLine, hdrLine(rw.Header())), implLine, true)
		// the property: every handler trailer (not protocol-reserved) reaches the client, -bin values
		// byte-exact: in the trailer frame, or — a response without any body is a headers-only
		// response — in the HTTP header block / HTTP trailers
		if nTrailerFrames > 1 || (nTrailerFrames == 0 && len(frames) > 0) {
			c.SpecFail("api-web-trailer", in, fmt.Sprintf("%d trailer frames after %d frames", nTrailerFrames, len(frames)), "exactly one", "C14/web/trailer-frame-count", "")
			continue
		}
		if nTrailerFrames == 0 {
			res := rw.Result()
			for k, vs := range res.Header {
				got[strings.ToLower(k)] = vs
			}
			for k, vs := range res.Trailer {
				got[strings.ToLower(k)] = vs
			}
		}
		for k, vs := range cur.tr {
			want := append([]string{}, vs...)
			gotv := append([]string{}, got[k]...)
			if strings.HasSuffix(k, "-bin") {
				for j := range gotv {
					d, _ := base64.RawStdEncoding.DecodeString(strings.TrimRight(gotv[j], "="))
					gotv[j] = string(d)
				}
			}
			if strings.Join(gotv, "\x00") != strings.Join(want, "\x00") {
				c.SpecFail("api-web-trailer", in, fmt.Sprintf("trailer frame %s=%q", k, gotv), fmt.Sprintf("%q", want), "C14/web/handler-trailer-lost", "a handler trailer does not reach the gRPC-web client in the trailer frame")
			}
		}
		if strings.Join(got["x-c14-fixed"], ",") != "f" || len(c14FixedTrailer) != 1 || strings.Join(c14FixedTrailer["x-c14-fixed"], ",") != "f" {
			c.SpecFail("api-web-trailer", in, fmt.Sprintf("trailer frame x-c14-fixed=%q; the handler's own MD is now %v", got["x-c14-fixed"], c14FixedTrailer), "x-c14-fixed=[f], the handler's MD untouched", "C14/web/trailer-md-shared", "trailer metadata of one RPC leaks into the handler's own metadata object (and from there into later RPCs)")
		}
		if len(got["grpc-status"]) != 1 || (cur.fail && got["grpc-status"][0] != "10") || (!cur.fail && got["grpc-status"][0] != "0") {
			c.SpecFail("api-web-trailer", in, fmt.Sprintf("grpc-status=%q", got["grpc-status"]), "the handler's status", "C14/web/status-not-in-trailer-frame", "")
		}
		// handler headers reach the client as HTTP headers
		for k, vs := range cur.hdr {
			gotv := append([]string{}, rw.Result().Header.Values(k)...)
			if strings.HasSuffix(k, "-bin") {
				for j := range gotv {
					d, _ := base64.RawStdEncoding.DecodeString(strings.TrimRight(gotv[j], "="))
					gotv[j] = string(d)
				}
			}
			if strings.Join(gotv, "\x00") != strings.Join(vs, "\x00") {
				c.SpecFail("api-web-trailer", in, fmt.Sprintf("header %s=%q", k, gotv), fmt.Sprintf("%q", vs), "C14/web/handler-header-lost", "handler header metadata does not reach the gRPC-web client")
			}
		}
	}
}
