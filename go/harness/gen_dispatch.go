package main

import (
	"fmt"
	"go/ast"
	"path/filepath"
	"regexp"
	"strings"
)

func init() { genSteps = append(genSteps, genDispatch) }

var dispatchPrefixRe = regexp.MustCompile(`strings\.HasPrefix\(\s*r\.Header\.Get\("Content-Type"\),\s*"([^"]+)",?\s*\)`)

// genDispatch: the protocol tests at the top of Mux.ServeHTTP, in source order: the Content-Type
// prefix each one looks for, whether it also demands HTTP/2, and which serving function it enters.
func genDispatch(g *genCtx, lean string, facts map[string]interface{}) error {
	type test struct {
		prefix, target string
		h2             bool
	}
	var tests []test
	if fd := g.funcs["Mux.ServeHTTP"]; fd != nil {
		for _, st := range fd.Body.List {
			is, ok := st.(*ast.IfStmt)
			if !ok || len(is.Body.List) == 0 {
				continue
			}
			es, ok := is.Body.List[0].(*ast.ExprStmt)
			if !ok {
				continue
			}
			call := nodeSrc(g, es.X)
			target := ""
			switch {
			case strings.HasPrefix(call, "m.serveGRPCWeb("):
				target = "web"
			case strings.HasPrefix(call, "m.serveGRPC("):
				target = "grpc"
			default:
				continue
			}
			cond := nodeSrc(g, is.Cond)
			m := dispatchPrefixRe.FindStringSubmatch(cond)
			rest := dispatchPrefixRe.ReplaceAllString(cond, "PREFIX")
			rest = strings.Join(strings.Fields(rest), " ")
			switch {
			case m == nil:
				g.miss("Content-Type prefix test in front of " + call)
			case rest == "PREFIX":
				tests = append(tests, test{m[1], target, false})
			case rest == "r.ProtoMajor == 2 && PREFIX":
				tests = append(tests, test{m[1], target, true})
			default:
				g.miss("protocol test of Mux.ServeHTTP in a known shape: " + rest)
			}
		}
	}
	if len(tests) == 0 {
		g.miss("protocol tests of Mux.ServeHTTP")
	}
	var items []string
	for _, t := range tests {
		var bs []string
		for _, b := range []byte(t.prefix) {
			bs = append(bs, fmt.Sprint(b))
		}
		items = append(items, fmt.Sprintf("(/- %q -/ [%s], %v, %q)", t.prefix, strings.Join(bs, ", "), t.h2, t.target))
	}
	facts["dispatchTests"] = items
	var sb strings.Builder
	sb.WriteString(genHeader)
	sb.WriteString("namespace Larking.Gen.Dispatch\n\n")
	fmt.Fprintf(&sb, "/-- Mux.ServeHTTP's protocol tests in source order: Content-Type prefix, also demands HTTP/2, serving function. -/\ndef tests : List (List Nat × Bool × String) := [%s]\n\n", strings.Join(items, ", "))
	sb.WriteString("end Larking.Gen.Dispatch\n")
	return writeIfChanged(filepath.Join(lean, "Larking/Gen/Dispatch.lean"), sb.String())
}
