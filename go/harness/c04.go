package main

import (
	"bytes"
	"compress/gzip"
	"context"
	"fmt"
	"io"
	"math/big"
	"net/http"
	"net/http/httptest"
	"strconv"
	"strings"

	"google.golang.org/genproto/googleapis/api/annotations"
	"google.golang.org/grpc"
	"google.golang.org/grpc/codes"
	"google.golang.org/grpc/metadata"
	"google.golang.org/grpc/status"
	"google.golang.org/protobuf/encoding/protojson"
	"google.golang.org/protobuf/proto"
	"google.golang.org/protobuf/reflect/protoreflect"
	"google.golang.org/protobuf/types/dynamicpb"
	"larking.io/larking"
)

func init() { props["C04"] = runC04 }

func hexLines(lines []string) string {
	var hs []string
	for _, l := range lines {
		if l == "" {
			hs = append(hs, "-")
		} else {
			hs = append(hs, hexS(l))
		}
	}
	return strings.Join(hs, ";")
}

type aRange struct {
	value string
	q     string // textual q ("" = none)
}

func (r aRange) qVal() float64 {
	if r.q == "" {
		return 1
	}
	f, _ := strconv.ParseFloat(r.q, 64)
	return f
}

// independent reading of "does this range admit the media type"
func specRangeMatches(rng, typ string) bool {
	if rng == "*/*" || rng == typ {
		return true
	}
	if strings.HasSuffix(rng, "/*") {
		return strings.HasPrefix(typ, strings.TrimSuffix(rng, "*"))
	}
	return false
}

var c04Offers = []string{"application/json", "application/octet-stream", "application/protobuf"}

func genRanges(c *Ctx) []aRange {
	types := []string{"application/json", "application/protobuf", "application/octet-stream", "text/html", "text/plain", "image/png", "application/xml", "*/*", "application/*", "text/*", "image/*", "application/grpc"}
	qs := []string{"", "", "1", "0", "0.5", "0.9", "0.1", "0.001", "1.0", "0.0", "0.75", "0.333"}
	var rs []aRange
	for i, n := 0, c.Rng.Intn(5); i < n; i++ {
		rs = append(rs, aRange{types[c.Rng.Intn(len(types))], qs[c.Rng.Intn(len(qs))]})
	}
	return rs
}

// renderAccept lays ranges out over one or more header lines with varied whitespace.
func renderAccept(c *Ctx, rs []aRange) []string {
	if len(rs) == 0 {
		return nil
	}
	var lines []string
	var cur strings.Builder
	for i, r := range rs {
		if i > 0 {
			if c.Rng.Intn(4) == 0 {
				lines = append(lines, cur.String())
				cur.Reset()
			} else {
				cur.WriteString([]string{",", ", ", " , ", ",\t"}[c.Rng.Intn(4)])
			}
		}
		cur.WriteString(r.value)
		if r.q != "" {
			cur.WriteString([]string{";q=", "; q=", " ;q=", " ; q="}[c.Rng.Intn(4)] + r.q)
		}
	}
	lines = append(lines, cur.String())
	return lines
}

func runC04(c *Ctx) {
	c.Rule("function level: Accept / Accept-Encoding headers rendered from generated range lists (registered and foreign types, wildcards, q-values incl. 0, several header lines, varied whitespace) plus a junk stream, through parseAccept and both negotiators; API level: generated replies x Accept x request content type with independent decoders (protojson / proto / gzip), HttpBody replies with arbitrary content types and bytes, response_body rules, request and response compression, handlers that send headers first, failing handlers. Non-trivial: non-empty header or reply; distinct by kind+input.")
	c.Assume("q-values with more than 15 fractional digits are junk on both sides (Go int overflow) and only corresponded up to ordering")

	fmtSpecs := func(specs []larking.VerifAcceptSpec) string {
		var out []string
		for _, s := range specs {
			out = append(out, fmt.Sprintf("%x:%s", s.Value, strconv.FormatFloat(s.Q, 'g', -1, 64)))
		}
		return strings.Join(out, ",")
	}
	modelSpecs := func(ans string) string {
		if ans == "" {
			return ""
		}
		var out []string
		for _, it := range strings.Split(ans, ",") {
			v, q, _ := strings.Cut(it, ":")
			ns, ds, _ := strings.Cut(q, "/")
			n, _ := new(big.Float).SetString(ns)
			d, _ := new(big.Float).SetString(ds)
			if n == nil || d == nil {
				out = append(out, it)
				continue
			}
			nf, _ := n.Float64()
			df, _ := d.Float64()
			out = append(out, fmt.Sprintf("%s:%s", v, strconv.FormatFloat(nf/df, 'g', -1, 64)))
		}
		return strings.Join(out, ",")
	}

	for i := 0; i < c.N(3000, 60000); i++ {
		rs := genRanges(c)
		lines := renderAccept(c, rs)
		junk := false
		if c.Rng.Intn(6) == 0 { // junk stream
			junk = true
			alpha := []string{"a", "/", "*", ";", "q", "=", "0", "1", ".", ",", " ", "5", "x/y", "\t", "q=0.5", ";q=", "\"", "é", "(", "application/json"}
			var sb strings.Builder
			for j, k := 0, c.Rng.Intn(12); j < k; j++ {
				sb.WriteString(alpha[c.Rng.Intn(len(alpha))])
			}
			lines = []string{sb.String()}
			if c.Rng.Intn(3) == 0 {
				lines = append(lines, "")
			}
		}
		ok := true
		for _, l := range lines {
			ok = ok && !strings.ContainsAny(l, "\n\r")
		}
		if !ok {
			continue
		}
		// parseAccept
		got := fmtSpecs(larking.VerifParseAccept(lines))
		model := c.Drv.Ask(join("accept", hexLines(lines)))
		c.count("accept", hexLines(lines), len(lines) > 0)
		c.res.Corresponded++
		if ms := modelSpecs(model); ms != got {
			c.res.NDisagree++
			if len(c.res.Disagree) < 25 {
				c.res.Disagree = append(c.res.Disagree, Case{Kind: "accept", Input: strings.Join(lines, " | "), Impl: got, Model: ms})
			}
		}
		// negotiateContentType
		offers := c04Offers
		if c.Rng.Intn(5) == 0 {
			offers = []string{"application/json", "application/protobuf", "text/plain", "application/vnd.x+json"}
		}
		dflt := []string{"application/json", "application/protobuf", "text/csv", ""}[c.Rng.Intn(4)]
		h := http.Header{}
		if lines != nil {
			h["Accept"] = lines
		}
		res := larking.VerifNegotiateContentType(h, offers, dflt)
		var oh []string
		for _, o := range offers {
			oh = append(oh, hexS(o))
		}
		dh := hexS(dflt)
		c.Correspond("negtype", join("negtype", hexLines(lines), strings.Join(oh, ";"), dh), hexS(res), len(lines) > 0)
		if !junk {
			admittedExists := false
			for _, o := range offers {
				for _, r := range rs {
					if r.qVal() > 0 && specRangeMatches(r.value, o) {
						admittedExists = true
					}
				}
			}
			resAdmitted, resOffered := false, false
			for _, o := range offers {
				resOffered = resOffered || o == res
			}
			for _, r := range rs {
				if r.qVal() > 0 && specRangeMatches(r.value, res) {
					resAdmitted = true
				}
			}
			in := fmt.Sprintf("Accept=%q offers=%v default=%q", lines, offers, dflt)
			if admittedExists {
				c.Class("negtype:satisfiable")
				if !resOffered || !resAdmitted {
					c.SpecFail("negtype", in, res, "an offered type admitted by Accept", "C04/negotiate/not-admitted", "a registered type satisfies Accept but the result is not admitted by it")
				}
			} else {
				c.Class("negtype:unsatisfiable")
				if res != dflt {
					c.SpecFail("negtype", in, res, dflt, "C04/negotiate/not-default", "no registered type satisfies Accept but the result is not the default")
				}
			}
		}
		// negotiateContentEncoding (correspondence)
		he := http.Header{}
		encLines := lines
		if !junk {
			encs := []string{"gzip", "identity", "*", "br", "deflate"}
			var parts []string
			for j, k := 0, c.Rng.Intn(4); j < k; j++ {
				p := encs[c.Rng.Intn(len(encs))]
				if c.Rng.Intn(2) == 0 {
					p += ";q=" + []string{"0", "0.5", "1", "0.2"}[c.Rng.Intn(4)]
				}
				parts = append(parts, p)
			}
			encLines = nil
			if len(parts) > 0 {
				encLines = []string{strings.Join(parts, ", ")}
			}
		}
		if encLines != nil {
			he["Accept-Encoding"] = encLines
		}
		eoffers := []string{"gzip", "identity"}
		eres := larking.VerifNegotiateContentEncoding(he, eoffers)
		c.Correspond("negenc", join("negenc", hexLines(encLines), hexS("gzip")+";"+hexS("identity")), hexS(eres), len(encLines) > 0)
	}
	c04API(c)
}

func gz(b []byte) []byte {
	var buf bytes.Buffer
	w := gzip.NewWriter(&buf)
	w.Write(b)
	w.Close()
	return buf.Bytes()
}

func gunzip(b []byte) ([]byte, error) {
	r, err := gzip.NewReader(bytes.NewReader(b))
	if err != nil {
		return nil, err
	}
	return io.ReadAll(r)
}

// verifCodec: a codec registered through CodecOption ("#!" + protojson).
type verifCodec struct{}

func (verifCodec) Name() string { return "verif" }
func (verifCodec) Marshal(v interface{}) ([]byte, error) {
	b, err := protojson.Marshal(v.(proto.Message))
	return append([]byte("#!"), b...), err
}
func (c verifCodec) MarshalAppend(b []byte, v interface{}) ([]byte, error) {
	x, err := c.Marshal(v)
	return append(b, x...), err
}
func (verifCodec) Unmarshal(b []byte, v interface{}) error {
	if !bytes.HasPrefix(b, []byte("#!")) {
		return fmt.Errorf("verif codec: missing marker")
	}
	return protojson.Unmarshal(b[2:], v.(proto.Message))
}

// c04Custom: codecs registered with CodecOption take part in negotiation like the built-in ones.
func c04Custom(c *Ctx) {
	var gotIn *dynamicpb.Message
	h := func(ctx context.Context, in *dynamicpb.Message) (proto.Message, error) {
		gotIn = in
		r := dynamicpb.NewMessage(in.Descriptor().ParentFile().Messages().ByName("Reply"))
		r.Set(r.Descriptor().Fields().ByName("text"), protoreflect.ValueOfString("custom-reply"))
		return r, nil
	}
	fx, err := NewFixture([]*MethodSpec{{Name: "Cu", In: "Req", Out: "Reply", Unary: h, Rule: postRule("/c04/custom", "*")}}, nil,
		larking.CodecOption("application/x-verif", verifCodec{}))
	if err != nil || fx.RegErr != nil {
		c.SpecFail("fixture", "c04 custom", fmt.Sprint(err), "", "C04/fixture", "fixture")
		return
	}
	for _, tc := range []struct{ ct, accept, wantCT string }{
		{"application/json", "application/x-verif", "application/x-verif"},
		{"application/json", "text/html, application/x-verif;q=0.5", "application/x-verif"},
		{"application/x-verif", "", "application/x-verif"},
		{"application/x-verif", "application/json", "application/json"},
		{"application/json", "application/*;q=0.1, application/x-verif", "application/x-verif"},
	} {
		body := []byte(`{"name":"n"}`)
		if tc.ct == "application/x-verif" {
			body = append([]byte("#!"), body...)
		}
		r := httptest.NewRequest("POST", "/c04/custom", bytes.NewReader(body))
		r.Header.Set("Content-Type", tc.ct)
		if tc.accept != "" {
			r.Header.Set("Accept", tc.accept)
		}
		gotIn = nil
		rec, pn := fx.Serve(r)
		in := fmt.Sprintf("CodecOption(application/x-verif): Content-Type=%s Accept=%q", tc.ct, tc.accept)
		c.Eval("api-custom-codec", in, true)
		gotCT := rec.Header().Get("Content-Type")
		ok := pn == nil && rec.Code == 200 && gotCT == tc.wantCT && gotIn != nil
		if ok {
			out := fx.NewMsg("Reply")
			if tc.wantCT == "application/x-verif" {
				ok = verifCodec{}.Unmarshal(rec.Body.Bytes(), out) == nil
			} else {
				ok = protojson.Unmarshal(rec.Body.Bytes(), out) == nil
			}
			ok = ok && out.Get(out.Descriptor().Fields().ByName("text")).String() == "custom-reply"
		}
		if !ok {
			c.SpecFail("api-custom-codec", in, fmt.Sprintf("%d ct=%q body=%q panic=%v", rec.Code, gotCT, truncS(rec.Body.String(), 80), pn), "200 ct="+tc.wantCT+" decodable with that codec", "C04/api/registered-codec-not-negotiated", "a codec registered with CodecOption is not offered / not used as the negotiation admits")
		}
	}
}

func c04API(c *Ctx) {
	// another Mux of this process replaces the built-in codecs by its own: what a Mux offers and how it
	// encodes is its own affair — the muxes below (built after this one) must not be affected
	if _, err := larking.NewMux(larking.CodecOption("application/json", verifCodec{}), larking.CodecOption("application/protobuf", verifCodec{}), larking.CodecOption("application/x-other-mux", verifCodec{})); err != nil {
		c.Note("c04: foreign mux: " + err.Error())
	}
	c04Custom(c)
	var reply proto.Message
	var sendHeaderFirst bool
	var fail error
	var genSent proto.Message // what the Gen handler returned, cloned at return time
	var mdContentType string // handler header metadata under the protocol's own key: must never become the response's Content-Type
	h := func(ctx context.Context, in *dynamicpb.Message) (proto.Message, error) {
		if mdContentType != "" {
			grpc.SetHeader(ctx, metadata.Pairs("content-type", mdContentType, "x-c04", "1")) //nolint
		}
		if sendHeaderFirst {
			grpc.SendHeader(ctx, metadata.Pairs("x-early", "1")) //nolint
		}
		if fail != nil {
			return nil, fail
		}
		return reply, nil
	}
	respBody := getRule("/c04/nested")
	respBody.ResponseBody = "nested"
	respBody2 := postRule("/c04/items", "*")
	respBody2.ResponseBody = "body"
	fx, err := NewFixture([]*MethodSpec{
		{Name: "Get", In: "Req", Out: "Reply", Unary: h, Rule: &annotations.HttpRule{Pattern: &annotations.HttpRule_Get{Get: "/c04/get"}, AdditionalBindings: []*annotations.HttpRule{postRule("/c04/post", "*")}}},
		{Name: "Nested", In: "Req", Out: "Reply", Unary: h, Rule: respBody},
		{Name: "NestedDeep", In: "Req", Out: "Reply", Unary: h, Rule: func() *annotations.HttpRule {
			r := getRule("/c04/nested/deep") // a DOTTED selector: the field of a field
			r.ResponseBody = "nested.child"
			return r
		}()},
		{Name: "RespHttpBody", In: "Req", Out: "Reply", Unary: h, Rule: respBody2},
		{Name: "Raw", In: "Req", Out: "google.api.HttpBody", Unary: h, Rule: getRule("/c04/raw")},
		// a GENERATED reply type with nested messages, which the handler sizes (fingerprint, log line,
		// metric) before it finishes filling it in: what is sent is the message as it is WHEN sent
		{Name: "Gen", In: "Req", Out: "google.api.HttpRule", Rule: getRule("/c04/gen/{name}"),
			Unary: func(ctx context.Context, in *dynamicpb.Message) (proto.Message, error) {
				r := &annotations.HttpRule{Selector: "sel", Pattern: &annotations.HttpRule_Custom{Custom: &annotations.CustomHttpPattern{Kind: "k", Path: "p"}},
					AdditionalBindings: []*annotations.HttpRule{{Selector: "a", Body: "b"}}}
				_ = proto.Size(r)
				name := in.Get(in.Descriptor().Fields().ByName("name")).String()
				r.GetCustom().Path = strings.Repeat(name, 20)
				r.AdditionalBindings[0].ResponseBody = name + name
				genSent = proto.Clone(r)
				return r, nil
			}},
		// registered AFTER the service above: every later registration works on a copy of the routing state
		{Service: "Late", Name: "L", In: "Req", Out: "Reply", Unary: h, Rule: getRule("/c04/late/{name}")},
		{Service: "Later", Name: "L", In: "Req", Out: "Reply", Unary: h, Rule: getRule("/c04/nested/{name}/later")},
	}, nil, larking.MaxReceiveMessageSizeOption(150)) // replies are often larger than what the mux accepts as a REQUEST
	if err != nil || fx.RegErr != nil || fx.RegPanic != nil {
		c.SpecFail("fixture", "c04", fmt.Sprint(err, fx.RegErr, fx.RegPanic), "registered", "C04/fixture", "fixture registration failed (response_body rule refused?)")
		return
	}
	genReply := func() *dynamicpb.Message {
		m := fx.NewMsg("Reply")
		fs := m.Descriptor().Fields()
		if c.Rng.Intn(4) > 0 {
			m.Set(fs.ByName("text"), protoreflect.ValueOfString([]string{"", "hi", "日本語 ünï", strings.Repeat("long ", 200), "q\"uote\\"}[c.Rng.Intn(5)]))
		}
		if c.Rng.Intn(2) == 0 {
			m.Set(fs.ByName("n"), protoreflect.ValueOfInt32(int32(c.Rng.Intn(1<<30))-1<<29))
		}
		if c.Rng.Intn(2) == 0 {
			n := fx.NewMsg("Nested")
			n.Set(n.Descriptor().Fields().ByName("s"), protoreflect.ValueOfString("nested-"+strconv.Itoa(c.Rng.Intn(100))))
			n.Set(n.Descriptor().Fields().ByName("n"), protoreflect.ValueOfInt32(int32(c.Rng.Intn(100))))
			if c.Rng.Intn(2) == 0 {
				ch := fx.NewMsg("Nested")
				ch.Set(ch.Descriptor().Fields().ByName("s"), protoreflect.ValueOfString("child-"+strconv.Itoa(c.Rng.Intn(100))))
				n.Set(n.Descriptor().Fields().ByName("child"), protoreflect.ValueOfMessage(ch))
			}
			m.Set(fs.ByName("nested"), protoreflect.ValueOfMessage(n))
		}
		if c.Rng.Intn(2) == 0 {
			b := make([]byte, c.Rng.Intn(300))
			c.Rng.Read(b)
			m.Set(fs.ByName("data"), protoreflect.ValueOfBytes(b))
		}
		for i, k := 0, c.Rng.Intn(3); i < k; i++ {
			m.Mutable(fs.ByName("items")).List().Append(protoreflect.ValueOfString("item" + strconv.Itoa(i)))
		}
		return m
	}
	decode := func(ct string, body []byte, into proto.Message) error {
		switch ct {
		case "application/json":
			return protojson.Unmarshal(body, into)
		case "application/protobuf", "application/octet-stream":
			return proto.Unmarshal(body, into)
		}
		return fmt.Errorf("unknown content type %q", ct)
	}
	// plainBody undoes the response Content-Encoding; ok=false if the header lies.
	plainBody := func(rec *httptest.ResponseRecorder) ([]byte, bool) {
		switch ce := rec.Header().Get("Content-Encoding"); ce {
		case "", "identity":
			if len(rec.Body.Bytes()) >= 2 && rec.Body.Bytes()[0] == 0x1f && rec.Body.Bytes()[1] == 0x8b {
				if _, err := gunzip(rec.Body.Bytes()); err == nil {
					return nil, false // gzip bytes under an identity header
				}
			}
			return rec.Body.Bytes(), true
		case "gzip":
			b, err := gunzip(rec.Body.Bytes())
			return b, err == nil
		default:
			return nil, false
		}
	}

	accepts := [][]string{nil, {"application/json"}, {"application/protobuf"}, {"application/octet-stream"}, {"*/*"}, {"application/*"}, {"text/html", "application/protobuf"}, {"text/html;q=0.9, application/protobuf;q=0.1"}, {"text/html"}, {"application/json;q=0, application/protobuf"}, {"image/*, */*;q=0.1"}, {"junk;;", "application/protobuf"}, {"google.api.HttpBody"}, {"application/json;q=0.5,application/protobuf;q=0.5"}}
	aencs := []string{"", "gzip", "identity", "gzip;q=0", "*", "br, gzip;q=0.5"}
	for i := 0; i < c.N(250, 5000); i++ {
		acc := accepts[c.Rng.Intn(len(accepts))]
		aenc := aencs[c.Rng.Intn(len(aencs))]
		reqCT := []string{"", "application/json", "application/protobuf"}[c.Rng.Intn(3)]
		reqGzip := c.Rng.Intn(3) == 0
		sendHeaderFirst = c.Rng.Intn(4) == 0
		mdContentType = ""
		if c.Rng.Intn(5) == 0 {
			mdContentType = []string{"application/grpc+proto", "text/plain", "application/json", "application/protobuf"}[c.Rng.Intn(4)]
		}
		fail = nil
		if c.Rng.Intn(6) == 0 {
			fail = status.Error(codes.NotFound, "scripted")
		}
		usePost := reqCT != "" || reqGzip
		mk := func(getPath, postPath string) *http.Request {
			var r *http.Request
			if usePost && postPath != "" {
				body := []byte("{}")
				if reqCT == "application/protobuf" {
					body = nil
				}
				if reqGzip {
					body = gz(body)
				}
				r = httptest.NewRequest("POST", postPath, bytes.NewReader(body))
				if reqCT != "" {
					r.Header.Set("Content-Type", reqCT)
				}
				if reqGzip {
					r.Header.Set("Content-Encoding", "gzip")
				}
			} else {
				r = httptest.NewRequest("GET", getPath, nil)
			}
			if acc != nil {
				r.Header["Accept"] = acc
			}
			if aenc != "" {
				r.Header.Set("Accept-Encoding", aenc)
			}
			return r
		}
		in := fmt.Sprintf("accept=%q accept-encoding=%q reqCT=%q reqGzip=%v sendHeaderFirst=%v fail=%v handler-metadata-content-type=%q", acc, aenc, reqCT, reqGzip, sendHeaderFirst, fail != nil, mdContentType)
		ownCT := reqCT
		if ownCT == "" || !usePost {
			ownCT = "application/json"
		}
		wantCT := func() (string, bool) { // expected content type and whether Accept is satisfiable
			hh := http.Header{}
			if acc != nil {
				hh["Accept"] = acc
			}
			model := c.Drv.Ask(join("negtype", hexLines(acc), hexS(c04Offers[0])+";"+hexS(c04Offers[1])+";"+hexS(c04Offers[2]), hexS(ownCT)))
			return model, true
		}

		// ---- ordinary reply
		rep := genReply()
		reply = rep
		rec, pn := fx.Serve(mk("/c04/get", "/c04/post"))
		c.Eval("api-reply", in, true)
		if pn != nil {
			c.SpecFail("api-reply", in, fmt.Sprint("panic: ", pn), "a response", "C04/api/panic", "unary response path panics")
			continue
		}
		ct := rec.Header().Get("Content-Type")
		body, truthful := plainBody(rec)
		if !truthful {
			c.SpecFail("api-reply", in, fmt.Sprintf("Content-Encoding=%q body=%x", rec.Header().Get("Content-Encoding"), trunc(rec.Body.Bytes(), 40)), "body encoded as the header says", "C04/api/content-encoding-untruthful", "Content-Encoding does not describe the bytes sent")
			continue
		}
		if m, _ := wantCT(); m != hexS(ct) && fail == nil {
			c.res.NDisagree++
			c.res.Disagree = append(c.res.Disagree, Case{Kind: "api-reply content-type", Input: in, Impl: ct, Model: m})
		}
		if fail == nil {
			got := fx.NewMsg("Reply")
			if rec.Code != 200 {
				c.SpecFail("api-reply", in, fmt.Sprintf("%d %s", rec.Code, trunc(body, 120)), "200", "C04/api/refused", "a valid request is refused")
			} else if err := decode(ct, body, got); err != nil || !proto.Equal(got, rep) {
				c.SpecFail("api-reply", in, fmt.Sprintf("ct=%q err=%v body=%x", ct, err, trunc(body, 60)), "the reply, decodable with the codec named by Content-Type", "C04/api/body-not-decodable", "client cannot decode the reply with the codec the Content-Type names")
			}
			// the type must be admitted by Accept when a registered codec satisfies it, else the request's own
			var rs []aRange
			wellFormed := true
			for _, l := range acc {
				for _, part := range strings.Split(l, ",") {
					v, q, hasQ := strings.Cut(strings.TrimSpace(part), ";")
					q = strings.TrimPrefix(strings.TrimSpace(q), "q=")
					if hasQ {
						if _, err := strconv.ParseFloat(q, 64); err != nil {
							wellFormed = false
						}
					}
					rs = append(rs, aRange{strings.TrimSpace(v), q})
				}
			}
			if wellFormed {
				sat := false
				for _, o := range c04Offers {
					for _, r := range rs {
						sat = sat || (r.qVal() > 0 && specRangeMatches(r.value, o))
					}
				}
				adm := false
				for _, r := range rs {
					adm = adm || (r.qVal() > 0 && specRangeMatches(r.value, ct))
				}
				if sat && !adm {
					c.SpecFail("api-reply", in, ct, "a type admitted by Accept", "C04/api/content-type-not-admitted", "a registered codec satisfies Accept but another type was sent")
				}
				if !sat && ct != ownCT {
					c.SpecFail("api-reply", in, ct, ownCT, "C04/api/content-type-not-own", "Accept unsatisfiable: the request's own content type is expected")
				}
			}
		}

		// ---- response_body selector
		if fail == nil {
			rep := genReply()
			reply = rep
			rec, pn := fx.Serve(mk("/c04/nested", ""))
			c.Eval("api-response-body", in, true)
			if pn != nil {
				c.SpecFail("api-response-body", in, fmt.Sprint("panic: ", pn), "a response", "C04/api/panic", "response_body path panics")
			} else if body, ok := plainBody(rec); ok {
				got := fx.NewMsg("Nested")
				want := rep.Get(rep.Descriptor().Fields().ByName("nested")).Message().Interface()
				ct := rec.Header().Get("Content-Type")
				if err := decode(ct, body, got); rec.Code != 200 || err != nil || !proto.Equal(got, want) {
					c.SpecFail("api-response-body", in, fmt.Sprintf("%d ct=%q err=%v body=%s", rec.Code, ct, err, trunc(body, 80)), prototextS(want), "C04/api/response-body", "response_body does not yield exactly the selected field")
				}
			}
		}

		// ---- a dotted response_body selector yields the field of the field
		if fail == nil {
			rep := genReply()
			reply = rep
			rec, pn := fx.Serve(mk("/c04/nested/deep", ""))
			c.Eval("api-response-body", in+" selector=nested.child", true)
			if pn != nil {
				c.SpecFail("api-response-body", in, fmt.Sprint("panic: ", pn), "a response", "C04/api/panic", "response_body path panics")
			} else if body, ok := plainBody(rec); ok {
				got := fx.NewMsg("Nested")
				nested := rep.Get(rep.Descriptor().Fields().ByName("nested")).Message()
				want := nested.Get(nested.Descriptor().Fields().ByName("child")).Message().Interface()
				ct := rec.Header().Get("Content-Type")
				if err := decode(ct, body, got); rec.Code != 200 || err != nil || !proto.Equal(got, want) {
					c.SpecFail("api-response-body", in+" selector=nested.child", fmt.Sprintf("%d ct=%q err=%v body=%s", rec.Code, ct, err, trunc(body, 80)), prototextS(want), "C04/api/response-body-dotted", "a dotted response_body selector does not yield exactly the selected field")
				}
			}
		}

		// ---- a generated reply that was sized before it was finished
		if fail == nil && i%5 == 0 {
			for _, accept := range []string{"application/protobuf", "application/json", "application/octet-stream"} {
				genSent = nil
				r := httptest.NewRequest("GET", fmt.Sprintf("/c04/gen/n%d", i%7), nil)
				r.Header.Set("Accept", accept)
				rec, pn := fx.Serve(r)
				gin := fmt.Sprintf("generated reply sized by the handler before its last edits; Accept=%s", accept)
				c.Eval("api-generated-reply", gin, true)
				got := &annotations.HttpRule{}
				var derr error
				if accept == "application/json" {
					derr = protojson.Unmarshal(rec.Body.Bytes(), got)
				} else {
					derr = proto.Unmarshal(rec.Body.Bytes(), got)
				}
				if pn != nil || rec.Code != 200 || derr != nil || genSent == nil || !proto.Equal(got, genSent) {
					c.SpecFail("api-generated-reply", gin, fmt.Sprintf("%d panic=%v decode-error=%v body=%s", rec.Code, pn, derr, trunc(rec.Body.Bytes(), 80)), "200 and exactly the message the handler returned", "C04/api/generated-reply-not-as-returned", "a reply that was sized before the handler finished it is not encoded as it is when sent")
				}
			}
		}

		// ---- HttpBody passthrough (top level and through response_body)
		if fail == nil {
			data := make([]byte, c.Rng.Intn(400))
			c.Rng.Read(data)
			if c.Rng.Intn(4) == 0 {
				data = gz(data) // raw data that happens to be gzip bytes
			}
			orig := append([]byte(nil), data...) // the handler keeps serving the same slice (a cached asset)
			bct := []string{"image/png", "text/plain; charset=utf-8", "application/json", "application/x-custom", ""}[c.Rng.Intn(5)]
			hb := fx.NewMsg("google.api.HttpBody")
			hb.Set(hb.Descriptor().Fields().ByName("content_type"), protoreflect.ValueOfString(bct))
			hb.Set(hb.Descriptor().Fields().ByName("data"), protoreflect.ValueOfBytes(data))
			for _, via := range []string{"top", "response_body"} {
				var r *http.Request
				if via == "top" {
					reply = hb
					r = mk("/c04/raw", "")
				} else {
					rp := fx.NewMsg("Reply")
					rp.Set(rp.Descriptor().Fields().ByName("body"), protoreflect.ValueOfMessage(hb))
					reply = rp
					r = httptest.NewRequest("POST", "/c04/items", strings.NewReader("{}"))
					if acc != nil {
						r.Header["Accept"] = acc
					}
				}
				rec, pn := fx.Serve(r)
				c.Eval("api-httpbody", via+" "+in, true)
				if pn != nil {
					c.SpecFail("api-httpbody", via+" "+in, fmt.Sprint("panic: ", pn), "a response", "C04/api/panic", "HttpBody path panics")
					continue
				}
				raw := rec.Body.Bytes()
				if ce := rec.Header().Get("Content-Encoding"); ce == "gzip" {
					raw, _ = gunzip(raw)
				}
				gotCT := rec.Header().Get("Content-Type")
				if rec.Code != 200 || !bytes.Equal(raw, orig) || gotCT != bct {
					c.SpecFail("api-httpbody", via+" "+in, fmt.Sprintf("%d ct=%q %d bytes %x", rec.Code, gotCT, len(raw), trunc(raw, 24)), fmt.Sprintf("ct=%q %d bytes %x", bct, len(orig), trunc(orig, 24)), "C04/api/httpbody-passthrough", "HttpBody reply is not delivered as its raw bytes under its own content type")
				}
				// a JSON reply in between uses the mux's scratch buffers
				rp2 := fx.NewMsg("Reply")
				rp2.Set(rp2.Descriptor().Fields().ByName("text"), protoreflect.ValueOfString("an in-between reply, marshalled in the mux's scratch buffer"))
				reply = rp2
				fx.Serve(httptest.NewRequest("POST", "/c04/post", strings.NewReader(`{"name":"an in-between request body, read into the mux's scratch buffer"}`))) //nolint
			}
			if !bytes.Equal(data, orig) {
				c.SpecFail("api-httpbody", "the handler's HttpBody.data slice after it was served: "+in, fmt.Sprintf("%x", trunc(data, 24)), fmt.Sprintf("%x", trunc(orig, 24)), "C04/api/httpbody-reply-bytes-modified", "the bytes of the handler's reply were modified by the mux: the next reply served from them is not the handler's reply")
			}
		}
	}
	c04FieldPath(c, fx)
}

func trunc(b []byte, n int) []byte {
	if len(b) > n {
		return b[:n]
	}
	return b
}

// c04FieldPath: `fieldPath` (the resolution of body / response_body selectors and of variables'
// field paths) on the fixture's real descriptors against Model/FieldPath, for selectors of one to
// four components drawn from proto names, JSON names and junk.
func c04FieldPath(c *Ctx, fx *Fixture) {
	for _, root := range []string{"Reply", "Req"} {
		md := fx.MsgDesc(root)
		// the table of message types reachable from the root, root first
		index := map[protoreflect.FullName]int{md.FullName(): 0}
		order := []protoreflect.MessageDescriptor{md}
		for i := 0; i < len(order); i++ {
			fs := order[i].Fields()
			for k := 0; k < fs.Len(); k++ {
				if sub := fs.Get(k).Message(); sub != nil {
					if _, ok := index[sub.FullName()]; !ok {
						index[sub.FullName()] = len(order)
						order = append(order, sub)
					}
				}
			}
		}
		var tys []string
		pool := []string{"nope", "", "Nested", "*"}
		for _, m := range order {
			var fl []string
			fs := m.Fields()
			for k := 0; k < fs.Len(); k++ {
				f := fs.Get(k)
				sub := "-"
				if f.Message() != nil {
					sub = strconv.Itoa(index[f.Message().FullName()])
				}
				rep := "0"
				if f.IsList() || f.IsMap() {
					rep = "1"
				}
				fl = append(fl, fmt.Sprintf("%s,%s,%d,%s,%s", hexS(string(f.Name())), hexS(f.JSONName()), f.Number(), rep, sub))
				if len(order) < 40 && c.Rng.Intn(3) > 0 || m == md {
					pool = append(pool, string(f.Name()), f.JSONName())
				}
			}
			if len(fl) == 0 {
				tys = append(tys, "-")
			} else {
				tys = append(tys, strings.Join(fl, ";"))
			}
		}
		table := strings.Join(tys, "|")
		for i := 0; i < c.N(400, 4000); i++ {
			n := 1 + c.Rng.Intn(4)
			var names, hx []string
			cur := md
			for k := 0; k < n; k++ {
				var nm string
				if cur != nil && cur.Fields().Len() > 0 && c.Rng.Intn(5) > 0 { // mostly a real field of where the walk is
					f := cur.Fields().Get(c.Rng.Intn(cur.Fields().Len()))
					if k < n-1 && c.Rng.Intn(10) < 8 { // not the last component: mostly a field that can be walked through
						var msgs []protoreflect.FieldDescriptor
						for q := 0; q < cur.Fields().Len(); q++ {
							if g := cur.Fields().Get(q); g.Message() != nil && (c.Rng.Intn(6) == 0 || !g.IsList() && !g.IsMap()) {
								msgs = append(msgs, g)
							}
						}
						if len(msgs) > 0 {
							f = msgs[c.Rng.Intn(len(msgs))]
						}
					}
					nm = []string{string(f.Name()), f.JSONName()}[c.Rng.Intn(2)]
					cur = f.Message()
				} else {
					nm = pool[c.Rng.Intn(len(pool))]
					cur = nil
				}
				if strings.Contains(nm, ".") {
					nm = "x"
				}
				names = append(names, nm)
				hx = append(hx, hexS(nm))
			}
			var impl string
			func() {
				defer func() {
					if p := recover(); p != nil {
						impl = "panic"
					}
				}()
				fds := larking.VerifFieldPath(md.Fields(), names...)
				if fds == nil {
					impl = "nil"
					return
				}
				var nums []string
				for _, fd := range fds {
					nums = append(nums, strconv.Itoa(int(fd.Number())))
				}
				impl = "ok " + strings.Join(nums, ",")
			}()
			c.Correspond("fieldpath", join("fieldpath", table, strings.Join(hx, ".")), impl, impl != "nil")
			c.Class("fieldpath:" + root + ":" + strings.SplitN(impl, " ", 2)[0] + ":" + strconv.Itoa(n))
			if impl == "panic" {
				c.SpecFail("fieldpath", root+" "+strings.Join(names, "."), "panic", "a path or nil", "C04/fieldpath/panic", "fieldPath panics")
			}
		}
	}
}
