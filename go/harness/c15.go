package main

import (
	"bytes"
	"compress/gzip"
	"context"
	"encoding/base64"
	"fmt"
	"io"
	"math"
	"math/big"
	"net"
	"net/http/httptest"
	"regexp"
	"strconv"
	"strings"
	"sync"
	"time"

	"google.golang.org/grpc"
	"google.golang.org/grpc/codes"
	"google.golang.org/grpc/status"
	"google.golang.org/protobuf/proto"
	"google.golang.org/protobuf/reflect/protoreflect"
	"google.golang.org/protobuf/types/dynamicpb"
	"larking.io/larking"
)

func init() { props["C15"] = runC15 }

var timeoutRe = regexp.MustCompile(`^[0-9]{1,8}[HMSmun]$`)
var unitNs = map[byte]int64{'H': 3600e9, 'M': 60e9, 'S': 1e9, 'm': 1e6, 'u': 1e3, 'n': 1}

// specTimeout is the gRPC wire grammar, written independently.
func specTimeout(s string) (string, bool) {
	if !timeoutRe.MatchString(s) {
		return "err", false
	}
	v, _ := new(big.Int).SetString(s[:len(s)-1], 10)
	v.Mul(v, big.NewInt(unitNs[s[len(s)-1]]))
	if v.Cmp(big.NewInt(math.MaxInt64)) > 0 {
		v = big.NewInt(math.MaxInt64)
	}
	return "ok " + v.String(), true
}

func c15Strings(c *Ctx) []string {
	units := "HMSmun"
	var out []string
	for _, u := range units {
		for n := 0; n <= 130; n++ {
			out = append(out, strconv.Itoa(n)+string(u))
		}
		for _, d := range []string{"00", "007", "00000000", "00000001", "99999999", "12345678", "2562047", "2562048", "2562049", "02562048", "9999999", "100000000", "123456789", "0", "1", ""} {
			out = append(out, d+string(u))
		}
	}
	// malformed shapes
	out = append(out, "", "1", "S", "SS", "1SS", "S1", "+1S", "-1S", "+S", "-S", " 1S", "1 S", "1S ", "1.5S", "1e3S", "0x1S", "1_0S", "１S", "1s", "1h", "1U", "1N", "1µ", "١S", "--1S", "+-1S", "1\x00S", "٣S", "+0000001H", "-9999999H", "+1234567n", "1,0S")
	for b := 0; b < 256; b++ {
		out = append(out, "1"+string([]byte{byte(b)}), string([]byte{byte(b)})+"S", "1"+string([]byte{byte(b)})+"S")
	}
	alpha := []string{"0", "1", "9", "5", "H", "M", "S", "m", "u", "n", "+", "-", " ", ".", "x"}
	for i := 0; i < c.N(2000, 60000); i++ {
		var sb strings.Builder
		for j, k := 0, 1+c.Rng.Intn(10); j < k; j++ {
			if c.Rng.Intn(4) == 0 {
				sb.WriteString(alpha[c.Rng.Intn(len(alpha))])
			} else {
				sb.WriteByte(byte('0' + c.Rng.Intn(10)))
			}
		}
		if c.Rng.Intn(3) > 0 {
			sb.WriteByte(units[c.Rng.Intn(6)])
		}
		out = append(out, sb.String())
	}
	return out
}

func runC15(c *Ctx) {
	c.Rule("function level: every 0..130 x 6 units, boundary digit strings, leading zeros, 8/9 digits, sign/space/unit mutations, every byte as unit/prefix/infix, generated strings; API level: gRPC requests (ProtoMajor 2 on a recorder) with legal and malformed grpc-timeout, handler records invocation and remaining deadline; client cancellation of unary/client-stream/server-stream/bidi calls with a grpc-go client and an HTTP/1.1 disconnect, handler must be released within 2 s. Non-trivial: non-empty string; distinct by kind+input.")
	c.Assume("wall-clock tolerance for deadlines: T-1.5s .. T; release bound 2 s (timing is observed, not proved)")

	for _, s := range c15Strings(c) {
		d, err := larking.VerifDecodeTimeout(s)
		impl := "err"
		if err == nil {
			impl = "ok " + strconv.FormatInt(int64(d), 10)
		}
		c.Correspond("timeout", join("timeout", hexS(s)), impl, s != "")
		want, legal := specTimeout(s)
		if legal {
			c.Class("timeout:legal")
		} else {
			c.Class("timeout:malformed")
		}
		if impl != want {
			key := "C15/timeout/legal-refused-or-wrong"
			if !legal {
				key = "C15/timeout/malformed-accepted"
				if strings.HasPrefix(s, "+") || strings.HasPrefix(s, "-") {
					key = "C15/timeout/signed-accepted"
				}
			}
			c.SpecFail("timeout", hexS(s), impl, want, key, "decodeTimeout disagrees with the gRPC timeout grammar [0-9]{1,8}[HMSmun]")
		}
	}
	c15API(c, "plain")
	ri := &recInterceptors{}
	c15API(c, "stats+interceptors", larking.StatsOption(&recStats{}), larking.UnaryServerInterceptorOption(ri.Unary), larking.StreamServerInterceptorOption(ri.Stream))
}

func c15API(c *Ctx, optName string, opts ...larking.MuxOption) {
	var mu sync.Mutex
	invoked := 0
	var remaining time.Duration
	var hasDeadline bool
	released := make(chan string, 16)

	unary := func(ctx context.Context, in *dynamicpb.Message) (proto.Message, error) {
		mu.Lock()
		invoked++
		dl, ok := ctx.Deadline()
		hasDeadline = ok
		if ok {
			remaining = time.Until(dl)
		}
		mu.Unlock()
		return dynamicpb.NewMessage(in.Descriptor().ParentFile().Messages().ByName("Reply")), nil
	}
	blockUnary := func(ctx context.Context, in *dynamicpb.Message) (proto.Message, error) {
		select {
		case <-ctx.Done():
			released <- "ctx"
			return nil, status.FromContextError(ctx.Err()).Err()
		case <-time.After(4 * time.Second):
			released <- "timeout"
			return nil, status.Error(codes.Internal, "not cancelled")
		}
	}
	blockRecv := func(fx *Fixture, ms *MethodSpec, st grpc.ServerStream) error {
		// first message arrives, second never does: handler blocks in RecvMsg
		for {
			done := make(chan error, 1)
			go func() { done <- st.RecvMsg(fx.NewMsg("Req")) }()
			select {
			case err := <-done:
				if err == io.EOF { // what a clean half-close looks like
					released <- "recv-eof"
					return nil
				}
				if err != nil {
					released <- "recv-error"
					return err
				}
			case <-time.After(4 * time.Second):
				released <- "timeout"
				return status.Error(codes.Internal, "not released")
			}
		}
	}
	// what the handler's FIRST receive itself returns when the client goes away while it is blocked there
	firstRecv := func(fx *Fixture, ms *MethodSpec, st grpc.ServerStream) error {
		done := make(chan error, 1)
		go func() { done <- st.RecvMsg(fx.NewMsg("Req")) }()
		select {
		case err := <-done:
			switch {
			case err == nil:
				released <- "first-receive-returned-a-message"
				return nil
			case err == io.EOF:
				released <- "recv-eof"
				return nil
			}
			released <- "recv-error"
			return err
		case <-time.After(4 * time.Second):
			released <- "timeout"
			return status.Error(codes.Internal, "not released")
		}
	}
	blockSend := func(fx *Fixture, ms *MethodSpec, st grpc.ServerStream) error {
		if err := st.RecvMsg(fx.NewMsg("Req")); err != nil {
			released <- "recv-error"
			return err
		}
		big := fx.NewMsg("Reply")
		big.Set(big.Descriptor().Fields().ByName("data"), protoreflectBytes(make([]byte, 64<<10)))
		deadline := time.Now().Add(4 * time.Second)
		for time.Now().Before(deadline) {
			if st.Context().Err() != nil { // the context is already done: this very send must fail
				if err := st.SendMsg(big); err != nil {
					released <- "send-error"
					return err
				}
				released <- "send-after-cancel-succeeded"
				return nil
			}
			if err := st.SendMsg(big); err != nil {
				released <- "send-error"
				return err
			}
			select {
			case <-st.Context().Done():
				// context is cancelled: the next SendMsg must fail
				if err := st.SendMsg(big); err != nil {
					released <- "send-error"
					return err
				}
				released <- "send-after-cancel-succeeded"
				return nil
			default:
			}
		}
		released <- "timeout"
		return nil
	}
	// slowRecv takes the first message, waits until its context is done and receives again: whatever was
	// buffered meanwhile, a receive after cancellation is an error
	slowRecv := func(fx *Fixture, ms *MethodSpec, st grpc.ServerStream) error {
		if err := st.RecvMsg(fx.NewMsg("Req")); err != nil {
			released <- "recv-error"
			return err
		}
		select {
		case <-st.Context().Done():
		case <-time.After(4 * time.Second):
			released <- "timeout"
			return nil
		}
		if err := st.RecvMsg(fx.NewMsg("Req")); err != nil {
			released <- "recv-error"
			return err
		}
		released <- "recv-after-cancel-delivered"
		return nil
	}
	// lateSend answers once, waits until its context is done and sends a second small reply: that send must fail
	lateSend := func(fx *Fixture, ms *MethodSpec, st grpc.ServerStream) error {
		if err := st.RecvMsg(fx.NewMsg("Req")); err != nil {
			released <- "recv-error"
			return err
		}
		if err := st.SendMsg(fx.NewMsg("Reply")); err != nil {
			released <- "send-error"
			return err
		}
		select {
		case <-st.Context().Done():
		case <-time.After(4 * time.Second):
			released <- "timeout"
			return nil
		}
		if err := st.SendMsg(fx.NewMsg("Reply")); err != nil {
			released <- "send-error"
			return err
		}
		released <- "send-after-cancel-succeeded"
		return nil
	}
	fx, err := NewFixture([]*MethodSpec{
		{Name: "LateSend", In: "Req", Out: "Reply", ServerStream: true, Stream: lateSend},
		{Name: "SlowRecv", In: "Req", Out: "Reply", ClientStream: true, ServerStream: true, Stream: slowRecv},
		{Name: "Dl", In: "Req", Out: "Reply", Unary: unary},
		{Name: "DlS", In: "Req", Out: "Reply", ClientStream: true, ServerStream: true, Stream: func(fx *Fixture, ms *MethodSpec, st grpc.ServerStream) error {
			mu.Lock()
			invoked++
			mu.Unlock()
			return nil
		}},
		{Name: "Block", In: "Req", Out: "Reply", Unary: blockUnary, Rule: postRule("/c15/block", "*")},
		{Name: "BlockRecv", In: "Req", Out: "Reply", ClientStream: true, Stream: blockRecv, Rule: postRule("/c15/recv", "*")},
		// an upload whose HTTP body is a google.api.HttpBody field: the first receive has its own code path
		{Name: "BlockUpload", In: "Req", Out: "Reply", ClientStream: true, Stream: firstRecv, Rule: postRule("/c15/upload/{name}", "file")},
		{Name: "BlockBidi", In: "Req", Out: "Reply", ClientStream: true, ServerStream: true, Stream: blockRecv},
		{Name: "BlockSend", In: "Req", Out: "Reply", ServerStream: true, Stream: blockSend},
	}, nil, opts...)
	if err != nil || fx.RegErr != nil || fx.RegPanic != nil {
		c.SpecFail("fixture", "c15", fmt.Sprint(err, fx.RegErr, fx.RegPanic), "registered", "C15/fixture", "fixture registration failed")
		return
	}
	defer fx.Close()

	// --- deadlines via grpc-timeout header
	cases := []string{"1S", "5S", "10S", "100m", "2500m", "1M", "2H", "99999999H", "00000003S", "3000000u", "4000000000n", "59M",
		"0S", "0n", "0H", "00m", "00000000u", "010S", "00000100S", "08M", "0090S", "0b11m", "0o17S", "1_0S", "0X1fn",
		"", "S", "+5S", "-5S", "5", "5s", "5 S", " 5S", "5.0S", "123456789S", "0x5S", "5SS"}
	for _, tv := range cases {
		if tv == "" {
			continue
		}
		mu.Lock()
		invoked, hasDeadline, remaining = 0, false, 0
		mu.Unlock()
		r := httptest.NewRequest("POST", "/verif.v1.Svc/Dl", strings.NewReader(string(grpcFrame(0, []byte{0x0a, 0x05, 'h', 'e', 'l', 'l', 'o'}))))
		r.ProtoMajor, r.ProtoMinor = 2, 0
		r.Header.Set("Content-Type", "application/grpc")
		r.Header.Set("Grpc-Timeout", tv)
		rec, pn := fx.Serve(r)
		c.Eval("api-deadline", optName+" "+tv, true)
		want, legal := specTimeout(tv)
		mu.Lock()
		inv, hd, rem := invoked, hasDeadline, remaining
		mu.Unlock()
		if pn != nil {
			c.SpecFail("api-deadline", optName+" "+tv, fmt.Sprint("panic ", pn), "response", "C15/api/panic", "panic")
			continue
		}
		// the model of what serveGRPC does with the header: refused | run under a deadline
		{
			impl := "refused"
			if inv > 0 && hd {
				impl = "run deadline"
			} else if inv > 0 {
				impl = "run none"
			} else if rec.Code == 200 {
				impl = "run deadline" // a zero timeout may expire before the handler runs
			}
			model := c.Drv.Ask(join("gate", hexS(tv)))
			if strings.HasPrefix(model, "run ") && model != "run none" {
				model = "run deadline"
			}
			c.res.Corresponded++
			if model != impl {
				c.res.NDisagree++
				c.res.Disagree = append(c.res.Disagree, Case{Kind: "api-gate", Input: optName + " grpc-timeout=" + tv, Impl: impl, Model: model})
			}
		}
		if !legal {
			// the same header on a streaming method: its handler runs as soon as the stream is set up
			rs := httptest.NewRequest("POST", "/verif.v1.Svc/DlS", strings.NewReader(string(grpcFrame(0, nil))))
			rs.ProtoMajor, rs.ProtoMinor = 2, 0
			rs.Header.Set("Content-Type", "application/grpc")
			rs.Header.Set("Grpc-Timeout", tv)
			fx.Serve(rs)
			mu.Lock()
			invS := invoked - inv
			mu.Unlock()
			if invS != 0 {
				c.SpecFail("api-deadline", optName+" "+tv+" (streaming method)", fmt.Sprintf("stream handler invoked %d times", invS), "refused without invoking the handler", "C15/api/malformed-invokes-stream-handler", "malformed grpc-timeout reaches a streaming handler")
			}
			if inv != 0 || rec.Header().Get("Grpc-Status") == "0" {
				key := "C15/api/malformed-invokes-handler"
				if strings.HasPrefix(tv, "+") || strings.HasPrefix(tv, "-") {
					key = "C15/api/signed-invokes-handler"
				}
				c.SpecFail("api-deadline", optName+" "+tv, fmt.Sprintf("handler invoked %d times, http %d grpc-status %q", inv, rec.Code, rec.Header().Get("Grpc-Status")), "refused without invoking the handler", key, "malformed grpc-timeout reaches the handler")
			}
			continue
		}
		ns, _ := strconv.ParseInt(strings.TrimPrefix(want, "ok "), 10, 64)
		T := time.Duration(ns)
		if inv != 1 || !hd || rem > T || rem < T-1500*time.Millisecond {
			if ns > 0 || inv != 0 { // a zero timeout may legitimately expire before the handler runs
				c.SpecFail("api-deadline", optName+" "+tv, fmt.Sprintf("invoked=%d deadline=%v remaining=%v", inv, hd, rem), fmt.Sprintf("deadline %v after receipt", T), "C15/api/deadline-wrong", "handler context deadline differs from grpc-timeout")
			}
		}
	}

	// --- gRPC-web: the client goes away while the handler runs (in-process, the request's own context)
	for _, ct := range []string{"application/grpc-web+proto", "application/grpc-web-text+proto"} {
		for len(released) > 0 {
			<-released
		}
		body := string(grpcFrame(0, nil))
		if strings.Contains(ct, "text") {
			body = base64.StdEncoding.EncodeToString([]byte(body))
		}
		ctx, cancel := context.WithCancel(context.Background())
		r := httptest.NewRequest("POST", "/verif.v1.Svc/Block", strings.NewReader(body)).WithContext(ctx)
		r.Header.Set("Content-Type", ct)
		done := make(chan struct{})
		start := time.Now()
		go func() { fx.Serve(r); close(done) }()
		time.Sleep(40 * time.Millisecond)
		cancel()
		how := "handler still running after 2 s"
		select {
		case how = <-released:
		case <-time.After(2 * time.Second):
		}
		in := optName + " " + ct + ": request context cancelled 40 ms into a blocking unary handler"
		c.Eval("api-web-cancel", in, true)
		if how != "ctx" || time.Since(start) > 2*time.Second {
			c.SpecFail("api-web-cancel", in, how, "the handler's context is cancelled promptly", "C15/api/web-cancel-not-propagated", "a gRPC-web client going away does not cancel the handler's context")
		}
		cancel()
		select {
		case <-done:
		case <-time.After(5 * time.Second):
		}
	}

	// --- cancellation with a real client
	cc, err := fx.GRPC()
	if err != nil {
		c.Note("grpc client: " + err.Error())
		return
	}
	drain := func() {
		for {
			select {
			case <-released:
			default:
				return
			}
		}
	}
	expectRelease := func(kind, what string, okValues ...string) {
		select {
		case got := <-released:
			ok := false
			for _, v := range okValues {
				ok = ok || got == v
			}
			if !ok {
				c.SpecFail(kind, what, got, strings.Join(okValues, "|"), "C15/cancel/"+what+"/"+got, "handler not released by cancellation")
			}
		case <-time.After(5 * time.Second):
			c.SpecFail(kind, what, "handler never returned", strings.Join(okValues, "|"), "C15/cancel/"+what+"/stuck", "handler stuck after cancellation")
		}
	}
	for i := 0; i < c.N(3, 20); i++ {
		delay := time.Duration(c.Rng.Intn(30)) * time.Millisecond
		// unary
		drain()
		ctx, cancel := context.WithCancel(context.Background())
		go func() { time.Sleep(20*time.Millisecond + delay); cancel() }()
		cc.Invoke(ctx, "/verif.v1.Svc/Block", fx.NewMsg("Req"), fx.NewMsg("Reply")) //nolint
		c.Eval("api-cancel", fmt.Sprint("unary delay=", delay), true)
		expectRelease("api-cancel", "unary", "ctx")
		cancel()

		// client-stream and bidi: blocked in RecvMsg
		for _, m := range []struct {
			name   string
			sd     grpc.StreamDesc
			nfirst int
		}{{"BlockRecv", grpc.StreamDesc{ClientStreams: true}, 1}, {"BlockBidi", grpc.StreamDesc{ClientStreams: true, ServerStreams: true}, 1}, {"BlockRecv", grpc.StreamDesc{ClientStreams: true}, 0}} {
			drain()
			ctx, cancel := context.WithCancel(context.Background())
			st, err := cc.NewStream(ctx, &m.sd, "/verif.v1.Svc/"+m.name)
			if err != nil {
				cancel()
				continue
			}
			for k := 0; k < m.nfirst; k++ {
				st.SendMsg(fx.NewMsg("Req")) //nolint
			}
			time.Sleep(20*time.Millisecond + delay)
			cancel()
			c.Eval("api-cancel", fmt.Sprintf("%s first=%d delay=%v", m.name, m.nfirst, delay), true)
			expectRelease("api-cancel", fmt.Sprintf("%s-blocked-in-recv-after-%d", m.name, m.nfirst), "recv-error")
		}

		// messages already buffered when the client cancels (no half-close): the next receive fails
		drain()
		{
			ctx, cancel := context.WithCancel(context.Background())
			st, err := cc.NewStream(ctx, &grpc.StreamDesc{ClientStreams: true, ServerStreams: true}, "/verif.v1.Svc/SlowRecv")
			if err == nil {
				for k := 0; k < 3; k++ {
					st.SendMsg(fx.NewMsg("Req")) //nolint
				}
				time.Sleep(30*time.Millisecond + delay)
				cancel()
				c.Eval("api-cancel", fmt.Sprint("buffered messages then cancel, delay=", delay), true)
				expectRelease("api-cancel", "recv-after-cancel-with-buffered-messages", "recv-error")
			}
			cancel()
		}
		// an established server stream: one reply received, then the client cancels; the handler's next send fails
		drain()
		{
			ctx, cancel := context.WithCancel(context.Background())
			st, err := cc.NewStream(ctx, &grpc.StreamDesc{ServerStreams: true}, "/verif.v1.Svc/LateSend")
			if err == nil {
				st.SendMsg(fx.NewMsg("Req"))   //nolint
				st.CloseSend()                 //nolint
				st.RecvMsg(fx.NewMsg("Reply")) //nolint
				time.Sleep(delay)
				cancel()
				c.Eval("api-cancel", fmt.Sprint("established server stream, cancel between replies, delay=", delay), true)
				expectRelease("api-cancel", "send-after-cancel-on-established-stream", "send-error")
			}
			cancel()
		}
		// server-stream: handler sending
		drain()
		ctx, cancel = context.WithCancel(context.Background())
		st, err := cc.NewStream(ctx, &grpc.StreamDesc{ServerStreams: true}, "/verif.v1.Svc/BlockSend")
		if err == nil {
			st.SendMsg(fx.NewMsg("Req"))   //nolint
			st.CloseSend()                 //nolint
			st.RecvMsg(fx.NewMsg("Reply")) //nolint
			time.Sleep(delay)
			cancel()
			c.Eval("api-cancel", fmt.Sprint("server-stream delay=", delay), true)
			expectRelease("api-cancel", "server-stream-sending", "send-error")
		}
		cancel()
	}

	// --- the request stream ends INSIDE a message at every offset (after the 5-byte frame header that
	// announces the payload, inside the header, inside the payload): the handler's receive ends with an
	// error, never with the clean end-of-stream
	{
		m := fx.NewMsg("Req")
		m.Set(m.Descriptor().Fields().ByName("name"), protoreflect.ValueOfString("cut-inside"))
		enc, _ := proto.Marshal(m)
		whole := grpcFrame(0, enc)
		two := append(append([]byte{}, whole...), whole...)
		for _, tr := range []string{"application/grpc+proto", "application/grpc-web+proto"} {
			for cut := len(whole) + 1; cut < len(two); cut++ {
				if cut > len(whole)+6 && cut < len(two)-2 && cut%3 != 0 {
					continue
				}
				for _, eofd := range []bool{false, true} {
					drain()
					rd := &schedReader{data: append([]byte(nil), two[:cut]...), eofWithData: eofd}
					r := httptest.NewRequest("POST", "/"+fxPkg+".Svc/BlockRecv", bodyReadCloser{rd})
					r.ContentLength = -1
					r.Header.Set("Content-Type", tr)
					if tr == "application/grpc+proto" {
						r.ProtoMajor, r.ProtoMinor = 2, 0
						r.Header.Set("Te", "trailers")
					}
					done := make(chan struct{})
					go func() { serveOn(fx.Mux, r); close(done) }()
					what := fmt.Sprintf("%s: the request stream ends %d bytes into the second message (header 5 bytes, payload %d), eofWithData=%v", tr, cut-len(whole), len(enc), eofd)
					c.Eval("api-cancel", what, true)
					expectRelease("api-cancel", "stream-ends-inside-a-message/"+strings.SplitN(tr, "+", 2)[0], "recv-error")
					select {
					case <-done:
					case <-time.After(3 * time.Second):
					}
				}
			}
		}
	}

	// --- plain HTTP/1.1 disconnect while the handler is blocked in RecvMsg / on ctx
	hts := fx.HTTPServer()
	addr := strings.TrimPrefix(hts.URL, "http://")
	for _, p := range []struct{ path, what, ok string }{{"/c15/block", "http-unary-disconnect", "ctx"}, {"/c15/recv", "http-stream-disconnect", "recv-error"}} {
		drain()
		conn, err := net.Dial("tcp", addr)
		if err != nil {
			continue
		}
		fmt.Fprintf(conn, "POST %s HTTP/1.1\r\nHost: x\r\nContent-Type: application/json\r\nTransfer-Encoding: chunked\r\n\r\n2\r\n{}\r\n", p.path)
		time.Sleep(50 * time.Millisecond)
		conn.Close()
		c.Eval("api-cancel", p.what, true)
		if p.what == "http-unary-disconnect" {
			// the unary handler only starts once the whole body was read; a disconnect in the
			// middle of the body surfaces as a read error before the handler: nothing to release
			select {
			case got := <-released:
				if got != "ctx" {
					c.SpecFail("api-cancel", p.what, got, "ctx", "C15/cancel/"+p.what+"/"+got, "handler not released by disconnect")
				}
			case <-time.After(300 * time.Millisecond):
			}
			continue
		}
		expectRelease("api-cancel", p.what, p.ok)
	}
	// … with a gzip request body: the disconnect falls BETWEEN messages (each one sync-flushed, so
	// fully decodable), the handler has them and is blocked in the next receive
	for _, nmsg := range []int{1, 2} {
		drain()
		conn, err := net.Dial("tcp", addr)
		if err != nil {
			continue
		}
		fmt.Fprintf(conn, "POST /c15/recv HTTP/1.1\r\nHost: x\r\nContent-Type: application/json\r\nContent-Encoding: gzip\r\nTransfer-Encoding: chunked\r\n\r\n")
		var zb bytes.Buffer
		zw := gzip.NewWriter(&zb)
		for k := 0; k < nmsg; k++ {
			fmt.Fprintf(zw, `{"name":"m%d"}`, k) // nothing after the closing brace: no partial message is pending
			zw.Flush()                           //nolint
			fmt.Fprintf(conn, "%x\r\n%s\r\n", zb.Len(), zb.Bytes())
			zb.Reset()
		}
		time.Sleep(80 * time.Millisecond)
		conn.Close()
		what := fmt.Sprintf("http-gzip-stream-disconnect-between-messages/%d-sent", nmsg)
		c.Eval("api-cancel", what, true)
		expectRelease("api-cancel", what, "recv-error")
	}
	// … and while the handler is blocked in its FIRST receive of an HttpBody upload: before any body
	// byte, and inside the first chunk (the announced chunk is longer than what arrives)
	for _, sent := range []string{"", "14\r\n0123456789"} {
		drain()
		conn, err := net.Dial("tcp", addr)
		if err != nil {
			continue
		}
		fmt.Fprintf(conn, "POST /c15/upload/f HTTP/1.1\r\nHost: x\r\nContent-Type: application/octet-stream\r\nTransfer-Encoding: chunked\r\n\r\n%s", sent)
		time.Sleep(50 * time.Millisecond)
		conn.Close()
		what := fmt.Sprintf("http-upload-disconnect-in-first-receive/%d-bytes-sent", len(sent))
		c.Eval("api-cancel", what, true)
		expectRelease("api-cancel", what, "recv-error")
	}
}
