package main

import (
	"bytes"
	"compress/gzip"
	"context"
	"encoding/base64"
	"encoding/json"
	"fmt"
	"io"
	"net"
	"net/http"
	"net/http/httptest"
	"strconv"
	"strings"
	"sync"
	"time"

	"github.com/gobwas/ws"
	"github.com/gobwas/ws/wsutil"
	"google.golang.org/grpc"
	"google.golang.org/grpc/codes"
	_ "google.golang.org/grpc/encoding/gzip" // client-side gzip for the reference client
	"google.golang.org/grpc/metadata"
	"google.golang.org/grpc/reflection"
	rpb "google.golang.org/grpc/reflection/grpc_reflection_v1alpha"
	"google.golang.org/grpc/status"
	"google.golang.org/protobuf/encoding/protojson"
	"google.golang.org/protobuf/encoding/protowire"
	"google.golang.org/protobuf/proto"
	"google.golang.org/protobuf/reflect/protoreflect"
	"google.golang.org/protobuf/types/dynamicpb"
	"larking.io/larking"
)

func init() {
	props["C06"] = func(c *Ctx) { runStreams(c, "C06") }
	props["C08"] = func(c *Ctx) { runStreams(c, "C08") }
}

// streamFx is the fixture for stream transports: Up (client stream), Down (server stream),
// Bidi, Unary, Upload/Download (HttpBody chunk streams), all recording what they see.
type streamFx struct {
	fx       *Fixture
	mu       sync.Mutex
	got      [][]byte // data fields received by the handler, in order
	gotSizes []int    // proto.Size of every received message
	final    string   // how the handler's receive loop ended: eof | err:<msg>
	replies  [][]byte // what Down / Download / Bidi send
	failWith error
}

func (s *streamFx) reset(replies [][]byte) {
	s.mu.Lock()
	s.got, s.gotSizes, s.final, s.replies, s.failWith = nil, nil, "", replies, nil
	s.mu.Unlock()
}

func dataOf(m protoreflect.Message) []byte {
	return m.Get(m.Descriptor().Fields().ByName("data")).Bytes()
}

// no generated body holds more messages than this
const streamFxMaxMsgs = 400000

func newStreamFx(opts ...larking.MuxOption) (*streamFx, error) {
	s := &streamFx{}
	recvLoop := func(fx *Fixture, st grpc.ServerStream, body bool) error {
		for {
			m := fx.NewMsg("Req")
			err := st.RecvMsg(m)
			s.mu.Lock()
			if err != nil {
				if err == io.EOF {
					s.final = "eof"
				} else {
					s.final = "err:" + err.Error()
				}
				s.mu.Unlock()
				if err == io.EOF {
					return nil
				}
				return err
			}
			var d []byte
			if body {
				f := m.Get(m.Descriptor().Fields().ByName("file")).Message()
				d = append([]byte(nil), f.Get(f.Descriptor().Fields().ByName("data")).Bytes()...)
			} else {
				d = append([]byte(nil), dataOf(m)...)
			}
			s.got = append(s.got, d)
			s.gotSizes = append(s.gotSizes, proto.Size(m))
			if len(s.got) > streamFxMaxMsgs { // a stream that never ends: stop draining it (the run has to end)
				s.final = fmt.Sprintf("runaway: more than %d messages received and no end of stream", streamFxMaxMsgs)
				s.mu.Unlock()
				return status.Error(codes.Aborted, "runaway stream")
			}
			s.mu.Unlock()
		}
	}
	up := func(fx *Fixture, ms *MethodSpec, st grpc.ServerStream) error {
		if err := recvLoop(fx, st, false); err != nil {
			return err
		}
		r := fx.NewMsg("Reply")
		r.Set(r.Descriptor().Fields().ByName("n"), protoreflect.ValueOfInt32(int32(len(s.got))))
		return st.SendMsg(r)
	}
	upload := func(fx *Fixture, ms *MethodSpec, st grpc.ServerStream) error {
		if err := recvLoop(fx, st, true); err != nil {
			return err
		}
		r := fx.NewMsg("Reply")
		return st.SendMsg(r)
	}
	down := func(fx *Fixture, ms *MethodSpec, st grpc.ServerStream) error {
		if err := st.RecvMsg(fx.NewMsg("Req")); err != nil {
			return err
		}
		for _, d := range s.replies {
			r := fx.NewMsg("Reply")
			r.Set(r.Descriptor().Fields().ByName("data"), protoreflect.ValueOfBytes(d))
			if err := st.SendMsg(r); err != nil {
				return err
			}
		}
		return s.failWith
	}
	download := func(fx *Fixture, ms *MethodSpec, st grpc.ServerStream) error {
		if err := st.RecvMsg(fx.NewMsg("Req")); err != nil {
			return err
		}
		for _, d := range s.replies {
			r := fx.NewMsg("google.api.HttpBody")
			r.Set(r.Descriptor().Fields().ByName("content_type"), protoreflect.ValueOfString("application/x-chunks"))
			r.Set(r.Descriptor().Fields().ByName("data"), protoreflect.ValueOfBytes(d))
			if err := st.SendMsg(r); err != nil {
				return err
			}
		}
		return s.failWith
	}
	bidi := func(fx *Fixture, ms *MethodSpec, st grpc.ServerStream) error {
		for {
			m := fx.NewMsg("Req")
			err := st.RecvMsg(m)
			if err != nil {
				s.mu.Lock()
				if err == io.EOF {
					s.final = "eof"
				} else {
					s.final = "err:" + err.Error()
				}
				s.mu.Unlock()
				if err == io.EOF || strings.Contains(err.Error(), "closed") || strings.Contains(err.Error(), "close") {
					return s.failWith
				}
				return err
			}
			s.mu.Lock()
			s.got = append(s.got, append([]byte(nil), dataOf(m)...))
			s.gotSizes = append(s.gotSizes, proto.Size(m))
			s.mu.Unlock()
			r := fx.NewMsg("Reply")
			r.Set(r.Descriptor().Fields().ByName("data"), protoreflect.ValueOfBytes(dataOf(m)))
			if err := st.SendMsg(r); err != nil {
				return err
			}
		}
	}
	bidiDouble := func(fx *Fixture, ms *MethodSpec, st grpc.ServerStream) error {
		for {
			m := fx.NewMsg("Req")
			err := st.RecvMsg(m)
			if err != nil {
				s.mu.Lock()
				if err == io.EOF {
					s.final = "eof"
				} else {
					s.final = "err:" + err.Error()
				}
				s.mu.Unlock()
				if err == io.EOF {
					return nil
				}
				return err
			}
			s.mu.Lock()
			s.got = append(s.got, append([]byte(nil), dataOf(m)...))
			s.mu.Unlock()
			r := fx.NewMsg("Reply")
			r.Set(r.Descriptor().Fields().ByName("data"), protoreflect.ValueOfBytes(bytes.Repeat(dataOf(m), 2)))
			r.Set(r.Descriptor().Fields().ByName("text"), protoreflect.ValueOfString("reply-padding-reply-padding"))
			if err := st.SendMsg(r); err != nil {
				return err
			}
		}
	}
	unary := func(ctx context.Context, in *dynamicpb.Message) (proto.Message, error) {
		s.mu.Lock()
		s.got = append(s.got, append([]byte(nil), dataOf(in)...))
		s.gotSizes = append(s.gotSizes, proto.Size(in))
		var rep []byte
		if len(s.replies) > 0 {
			rep = s.replies[0]
		}
		s.mu.Unlock()
		r := dynamicpb.NewMessage(in.Descriptor().ParentFile().Messages().ByName("Reply"))
		r.Set(r.Descriptor().Fields().ByName("data"), protoreflect.ValueOfBytes(rep))
		return r, nil
	}
	unaryFile := func(ctx context.Context, in *dynamicpb.Message) (proto.Message, error) {
		f := in.Get(in.Descriptor().Fields().ByName("file")).Message()
		s.mu.Lock()
		s.got = append(s.got, append([]byte(nil), f.Get(f.Descriptor().Fields().ByName("data")).Bytes()...))
		s.mu.Unlock()
		return dynamicpb.NewMessage(in.Descriptor().ParentFile().Messages().ByName("Reply")), nil
	}
	fx, err := NewFixture([]*MethodSpec{
		{Name: "PutFile", In: "Req", Out: "Reply", Unary: unaryFile, Rule: postRule("/c06/put/{name}", "file")},
		{Name: "Up", In: "Req", Out: "Reply", ClientStream: true, Stream: up, Rule: postRule("/c06/up", "*")},
		{Name: "Upload", In: "Req", Out: "Reply", ClientStream: true, Stream: upload, Rule: postRule("/c06/upload/{name}", "file")},
		{Name: "Down", In: "Req", Out: "Reply", ServerStream: true, Stream: down, Rule: postRule("/c06/down", "*")},
		{Name: "Download", In: "Req", Out: "google.api.HttpBody", ServerStream: true, Stream: download, Rule: getRule("/c06/download")},
		{Name: "Bidi", In: "Req", Out: "Reply", ClientStream: true, ServerStream: true, Stream: bidi, Rule: customRule("WEBSOCKET", "/c06/ws", "*")},
		{Name: "Unary", In: "Req", Out: "Reply", Unary: unary, Rule: postRule("/c06/unary", "*")},
		{Name: "BidiHTTP", In: "Req", Out: "Reply", ClientStream: true, ServerStream: true, Stream: bidiDouble, Rule: postRule("/c06/bidi", "*")},
	}, nil, opts...)
	if err != nil {
		return nil, err
	}
	if fx.RegErr != nil || fx.RegPanic != nil {
		return nil, fmt.Errorf("registration: %v %v", fx.RegErr, fx.RegPanic)
	}
	s.fx = fx
	return s, nil
}

func reqWithData(fx *Fixture, d []byte) *dynamicpb.Message {
	m := fx.NewMsg("Req")
	if d != nil {
		m.Set(m.Descriptor().Fields().ByName("data"), protoreflect.ValueOfBytes(d))
	}
	return m
}

func encodeMsg(fx *Fixture, codec string, d []byte) []byte {
	m := reqWithData(fx, d)
	if codec == "json" {
		// strings that stress the brace scanner's escape handling (the handlers compare `data` only)
		if k := len(d) % 5; k > 0 {
			m.Set(m.Descriptor().Fields().ByName("name"), protoreflect.ValueOfString([]string{"", "C:\\dir\\", "q\"}{", "a\\\\", "}\\\"{\\"}[k]))
		}
		b, _ := protojson.Marshal(m)
		return b
	}
	b, _ := proto.Marshal(m)
	return b
}

func gzipBytes(b []byte) []byte {
	var buf bytes.Buffer
	w := gzip.NewWriter(&buf)
	w.Write(b)
	w.Close()
	return buf.Bytes()
}

type bodyReadCloser struct{ io.Reader }

func (bodyReadCloser) Close() error { return nil }

func classifyFinal(f string) string {
	switch {
	case f == "eof":
		return "eof"
	case f == "":
		return "none"
	}
	return "err"
}

// serveStreamKnownLength makes serveStream announce the body's length (Content-Length) instead
// of an unknown length.
var serveStreamKnownLength bool

// serveStream runs one request through the mux with a scripted body reader.
func (s *streamFx) serveStream(method, path string, hdr map[string]string, body []byte, sched []int, eofd bool, h2 bool) (*httptest.ResponseRecorder, interface{}) {
	rd := &schedReader{data: append([]byte(nil), body...), sched: sched, eofWithData: eofd}
	r := httptest.NewRequest(method, path, bodyReadCloser{rd})
	r.ContentLength = -1
	if serveStreamKnownLength {
		r.ContentLength = int64(len(body))
	}
	for k, v := range hdr {
		r.Header.Set(k, v)
	}
	if h2 {
		r.ProtoMajor, r.ProtoMinor = 2, 0
	}
	return s.fx.Serve(r)
}

func runStreams(c *Ctx, prop string) {
	if prop == "C06" {
		c.Rule("message sequences (0..5 messages; empty, small, around the 64-byte pool buffer, multiples of 128) on every stream transport: HTTP client streams (length-delimited protobuf, JSON, HttpBody chunks of every length around multiples of the chunk size) with scripted read schedules (all-at-once, byte-wise, random; EOF with or after the last data) and every truncation offset of short streams; HTTP server streams parsed back with independent splitters; gRPC and gRPC-web (binary, text) in both directions incl. gzip and final status after the messages; WebSocket echo. The handler's transcript is corresponded with the Lean model of readMsg / RecvMsg and compared with what was sent. Non-trivial: at least one message; distinct by transport+input.")
	} else {
		c.Rule("boundary matrix per transport (HTTP unary + streaming JSON / protobuf / HttpBody, gRPC and gRPC-web with identity and gzip incl. highly compressible payloads, WebSocket) x configured limits x message sizes {limit-1, limit, limit+1, 8 x limit}: over-limit messages must fail and never reach the handler, within-limit ones must be delivered; send limits likewise. Sizes the handler saw are recorded and the transcript is corresponded with the Lean model. Non-trivial: every case; distinct by transport+limit+size.")
	}
	c.Assume("gzip, protobuf/protojson unmarshalling and WebSocket framing are library parameters")
	limitDefault := 1 << 20
	sfx, err := newStreamFx(larking.MaxReceiveMessageSizeOption(limitDefault))
	if err != nil {
		c.SpecFail("fixture", prop, err.Error(), "registered", prop+"/fixture", "fixture registration failed")
		return
	}
	defer sfx.fx.Close()
	fx := sfx.fx

	genData := func() []byte {
		sizes := []int{0, 0, 1, 2, 3, 10, 57, 58, 59, 60, 61, 62, 63, 64, 65, 120, 121, 122, 123, 124, 125, 126, 127, 128, 129, 250, 251, 252, 253, 254, 255, 256, 257, 300}
		n := sizes[c.Rng.Intn(len(sizes))]
		b := make([]byte, n)
		c.Rng.Read(b)
		return b
	}

	if prop == "C06" {
		// ---------- HTTP client streams: proto, json
		for i := 0; i < c.N(500, 10000); i++ {
			codec := []string{"proto", "json"}[i%2]
			var msgs [][]byte
			var wire []byte
			var ends []int
			for j, k := 0, c.Rng.Intn(6); j < k; j++ {
				d := genData()
				if c.Rng.Intn(5) == 0 {
					d = nil
				}
				msgs = append(msgs, d)
				enc := encodeMsg(fx, codec, d)
				if codec == "proto" {
					wire = protowire.AppendVarint(wire, uint64(len(enc)))
				}
				wire = append(wire, enc...)
				ends = append(ends, len(wire))
			}
			cut := -1
			if len(wire) > 0 && c.Rng.Intn(3) == 0 {
				cut = c.Rng.Intn(len(wire))
			}
			body := wire
			if cut >= 0 {
				body = wire[:cut]
			}
			sched := genSched(c, len(body))
			eofd := c.Rng.Intn(2) == 0
			ct := map[string]string{"proto": "application/protobuf", "json": "application/json"}[codec]
			sfx.reset(nil)
			rec, pn := sfx.serveStream("POST", "/c06/up", map[string]string{"Content-Type": ct}, body, sched, eofd, false)
			in := fmt.Sprintf("http-%s msgs=%d wire=%x cut=%d sched=%s eofWithData=%v", codec, len(msgs), trunc(wire, 80), cut, intsCSV(trunc2(sched, 20)), eofd)
			c.streamsJudge(prop, "http-"+codec, in, sfx, rec, pn, msgs, ends, cut, codec, body, sched, eofd)
		}
		// ---------- exhaustive read partitions and truncations of short streams
		for trial := 0; trial < c.N(6, 40); trial++ {
			codec := []string{"proto", "json"}[trial%2]
			var msgs [][]byte
			var wire []byte
			var ends []int
			for j := 0; j < 2; j++ {
				d := make([]byte, c.Rng.Intn(3))
				c.Rng.Read(d)
				if len(d) == 0 {
					d = nil
				}
				msgs = append(msgs, d)
				enc := encodeMsg(fx, codec, d)
				if codec == "proto" {
					wire = protowire.AppendVarint(wire, uint64(len(enc)))
				}
				wire = append(wire, enc...)
				ends = append(ends, len(wire))
			}
			if len(wire) > 11 {
				continue
			}
			ct := map[string]string{"proto": "application/protobuf", "json": "application/json"}[codec]
			for cut := 0; cut <= len(wire); cut++ {
				body := wire[:cut]
				cc := cut
				if cut == len(wire) {
					cc = -1
				}
				for _, comp := range compositions(len(body)) {
					for _, eofd := range []bool{false, true} {
						sfx.reset(nil)
						rec, pn := sfx.serveStream("POST", "/c06/up", map[string]string{"Content-Type": ct}, body, comp, eofd, false)
						in := fmt.Sprintf("exhaustive http-%s wire=%x cut=%d sched=%s eofWithData=%v", codec, wire, cc, intsCSV(comp), eofd)
						c.streamsJudge(prop, "http-"+codec+"-exhaustive", in, sfx, rec, pn, msgs, ends, cc, codec, body, comp, eofd)
					}
				}
			}
		}
		// ---------- HttpBody uploads around multiples of the chunk size
		for _, limit := range []int{16, 64} {
			bfx, err := newStreamFx(larking.MaxReceiveMessageSizeOption(limit))
			if err != nil {
				continue
			}
			for n := 0; n <= c.N(4, 6)*limit+2; n++ {
				if !(n%limit <= 2 || n%limit >= limit-2) && c.Rng.Intn(4) > 0 {
					continue
				}
				data := make([]byte, n)
				c.Rng.Read(data)
				for _, eofd := range []bool{false, true} {
					sched := genSched(c, n)
					bfx.reset(nil)
					rec, pn := bfx.serveStream("POST", "/c06/upload/f1", map[string]string{"Content-Type": "image/png", "Accept": "application/json"}, data, sched, eofd, false)
					in := fmt.Sprintf("http-body limit=%d len=%d sched=%s eofWithData=%v", limit, n, intsCSV(trunc2(sched, 20)), eofd)
					c.count("http-body", in, n > 0)
					var tr []string
					for _, g := range bfx.got {
						tr = append(tr, "m:"+hexs(g))
					}
					tr = append(tr, classifyFinal(bfx.final))
					model := c.Drv.Ask(join("httprecv", "body", strconv.Itoa(limit), hexs(data), intsCSV(sched), map[bool]string{true: "1", false: "0"}[eofd]))
					c.res.Corresponded++
					if strings.Join(tr, " ") != strings.ReplaceAll(model, "err:", "err ")[:len(model)] && strings.Join(tr, " ") != model {
						c.res.NDisagree++
						if len(c.res.Disagree) < 25 {
							c.res.Disagree = append(c.res.Disagree, Case{Kind: "http-body", Input: in, Impl: strings.Join(tr, " "), Model: model})
						}
					}
					all := bytes.Join(bfx.got, nil)
					ok := pn == nil && rec.Code == 200 && bytes.Equal(all, data) && bfx.final == "eof"
					for i, g := range bfx.got {
						if len(g) > limit || (len(g) == 0 && !(n == 0 && i == 0)) {
							ok = false
						}
					}
					if !ok {
						var sizes []int
						for _, g := range bfx.got {
							sizes = append(sizes, len(g))
						}
						key := "C06/http-body/bytes-lost-or-altered"
						if bytes.Equal(all, data) {
							key = "C06/http-body/chunking-or-end"
						}
						c.SpecFail("http-body", in, fmt.Sprintf("code=%d chunks=%v final=%s panic=%v", rec.Code, sizes, bfx.final, pn), fmt.Sprintf("%d bytes in non-empty chunks of at most %d, then eof", n, limit), key, "HttpBody upload is not delivered byte-exactly")
					}
				}
			}
			bfx.fx.Close()
		}
		c06Send(c, sfx)
		// ---------- bidirectional HTTP streams: replies interleaved with receives (coalesced reads)
		for i := 0; i < c.N(200, 4000); i++ {
			codec := []string{"proto", "json"}[i%2]
			var msgs [][]byte
			var wire []byte
			for j, k := 0, 2+c.Rng.Intn(3); j < k; j++ {
				d := make([]byte, []int{1, 1, 2, 3, 5, 8, 20}[c.Rng.Intn(7)])
				c.Rng.Read(d)
				msgs = append(msgs, d)
				enc := encodeMsg(fx, codec, d)
				if codec == "proto" {
					wire = protowire.AppendVarint(wire, uint64(len(enc)))
				}
				wire = append(wire, enc...)
			}
			var sched []int
			if c.Rng.Intn(2) == 0 {
				sched = genSched(c, len(wire))
			}
			ct := map[string]string{"proto": "application/protobuf", "json": "application/json"}[codec]
			sfx.reset(nil)
			rec, pn := sfx.serveStream("POST", "/c06/bidi", map[string]string{"Content-Type": ct, "Accept": ct}, wire, sched, c.Rng.Intn(2) == 0, false)
			in := fmt.Sprintf("http-bidi-%s msgs=%d wire=%x sched=%s", codec, len(msgs), trunc(wire, 80), intsCSV(trunc2(sched, 20)))
			c.Eval("http-bidi", in, true)
			ok := pn == nil && rec.Code == 200 && len(sfx.got) == len(msgs) && sfx.final == "eof"
			for k := 0; ok && k < len(msgs); k++ {
				ok = bytes.Equal(sfx.got[k], msgs[k])
			}
			if !ok {
				c.SpecFail("http-bidi", in, fmt.Sprintf("code=%d handler got %d messages final=%s panic=%v", rec.Code, len(sfx.got), sfx.final, pn), fmt.Sprintf("%d messages then eof", len(msgs)), "C06/http-bidi/sequence", "request messages read after a reply was sent are corrupted or lost")
			}
		}
	}
	if prop == "C06" {
		c06Inflated(c)
		c06GzipOverlap(c, sfx)
		c06Proxy(c)
		c17Mux(c, "C06") // HttpBody uploads against small chunk sizes: every chunk, in order, nothing lost at the end
	}
	c06Grpc(c, prop, sfx)
	if prop == "C08" {
		c08Limits(c)
	}
}

func trunc2(xs []int, n int) []int {
	if len(xs) > n {
		return xs[:n]
	}
	return xs
}

// streamsJudge corresponds the handler's transcript with the model and applies the oracle.
func (c *Ctx) streamsJudge(prop, kind, in string, sfx *streamFx, rec *httptest.ResponseRecorder, pn interface{}, msgs [][]byte, ends []int, cut int, codec string, body []byte, sched []int, eofd bool) {
	c.count(kind, in, len(msgs) > 0)
	fx := sfx.fx
	if pn != nil {
		c.SpecFail(kind, in, fmt.Sprint("panic: ", pn), "no panic", prop+"/"+kind+"/panic", "stream handling panics")
		return
	}
	var tr []string
	for _, g := range sfx.got {
		tr = append(tr, "m:"+hexs(g))
	}
	tr = append(tr, classifyFinal(sfx.final))
	// model transcript: raw messages -> data field
	model := c.Drv.Ask(join("httprecv", codec, strconv.Itoa(1<<20), hexs(body), intsCSV(sched), map[bool]string{true: "1", false: "0"}[eofd]))
	c.res.Corresponded++
	var mtr []string
	for _, it := range strings.Fields(model) {
		switch {
		case strings.HasPrefix(it, "m:"):
			var raw []byte
			fmt.Sscanf(it[2:], "%x", &raw)
			m := fx.NewMsg("Req")
			var err error
			if codec == "json" {
				err = protojson.Unmarshal(raw, m)
			} else {
				err = proto.Unmarshal(raw, m)
			}
			if err != nil {
				mtr = append(mtr, "err")
			} else {
				mtr = append(mtr, "m:"+hexs(dataOf(m)))
			}
		case it == "eof":
			mtr = append(mtr, "eof")
		case strings.HasPrefix(it, "err"):
			mtr = append(mtr, "err")
		default:
			mtr = append(mtr, it)
		}
	}
	// a decode error ends the handler's loop
	for i, it := range mtr {
		if it == "err" {
			mtr = mtr[:i+1]
			break
		}
	}
	if strings.Join(mtr, " ") != strings.Join(tr, " ") {
		c.res.NDisagree++
		if len(c.res.Disagree) < 25 {
			c.res.Disagree = append(c.res.Disagree, Case{Kind: kind, Input: in, Impl: strings.Join(tr, " "), Model: strings.Join(mtr, " ")})
		}
	}
	// oracle
	complete := len(msgs)
	atBoundary := true
	if cut >= 0 {
		complete = 0
		for _, e := range ends {
			if e <= cut {
				complete++
			}
		}
		atBoundary = cut == 0 || (complete > 0 && ends[complete-1] == cut)
	}
	ok := len(sfx.got) == complete
	for k := 0; ok && k < complete; k++ {
		ok = bytes.Equal(sfx.got[k], msgs[k])
	}
	wantFinal := "eof"
	if !atBoundary {
		wantFinal = "err"
	}
	if !ok || classifyFinal(sfx.final) != wantFinal {
		key := prop + "/" + strings.TrimSuffix(kind, "-exhaustive") + "/sequence"
		if cut >= 0 {
			key = prop + "/" + strings.TrimSuffix(kind, "-exhaustive") + "/truncation"
		}
		c.SpecFail(kind, in, fmt.Sprintf("%d messages then %s (%s)", len(sfx.got), classifyFinal(sfx.final), sfx.final), fmt.Sprintf("%d messages then %s", complete, wantFinal), key, "the handler does not receive exactly the client's sequence followed by a clean end (or an error for a truncated body)")
	}
	if atBoundary && cut < 0 && rec.Code != 200 {
		c.SpecFail(kind, in, fmt.Sprint(rec.Code, " ", rec.Body.String()), "200", prop+"/"+kind+"/status", "a valid stream is refused")
	}
}

// c06Send: server streams over HTTP parsed back with independent splitters.
func c06Send(c *Ctx, sfx *streamFx) {
	fx := sfx.fx
	for i := 0; i < c.N(150, 3000); i++ {
		var replies [][]byte
		for j, k := 0, c.Rng.Intn(5); j < k; j++ {
			d := make([]byte, []int{0, 1, 5, 63, 64, 65, 127, 128, 200, 300}[c.Rng.Intn(10)])
			c.Rng.Read(d)
			replies = append(replies, d)
		}
		for _, accept := range []string{"application/json", "application/protobuf"} {
			sfx.reset(replies)
			r := httptest.NewRequest("POST", "/c06/down", strings.NewReader("{}"))
			r.Header.Set("Accept", accept)
			rec, pn := fx.Serve(r)
			in := fmt.Sprintf("http-down %s replies=%d", accept, len(replies))
			c.Eval("http-down", in, len(replies) > 0)
			var got [][]byte
			ok := pn == nil && rec.Code == 200
			body := rec.Body.Bytes()
			if accept == "application/json" {
				dec := json.NewDecoder(bytes.NewReader(body))
				for ok {
					var raw json.RawMessage
					if err := dec.Decode(&raw); err != nil {
						ok = err == io.EOF
						break
					}
					m := fx.NewMsg("Reply")
					if protojson.Unmarshal(raw, m) != nil {
						ok = false
					}
					got = append(got, dataOf(m))
				}
			} else {
				for len(body) > 0 && ok {
					n, k := protowire.ConsumeVarint(body)
					if k < 0 || int(n) > len(body)-k {
						ok = false
						break
					}
					m := fx.NewMsg("Reply")
					if proto.Unmarshal(body[k:k+int(n)], m) != nil {
						ok = false
					}
					got = append(got, dataOf(m))
					body = body[k+int(n):]
				}
			}
			ok = ok && len(got) == len(replies)
			for k := 0; ok && k < len(replies); k++ {
				ok = bytes.Equal(got[k], replies[k])
			}
			if !ok {
				c.SpecFail("http-down", in, fmt.Sprintf("code=%d %d messages panic=%v", rec.Code, len(got), pn), fmt.Sprintf("%d messages", len(replies)), "C06/http-down/sequence", "the client cannot split the response stream into exactly the handler's messages")
			}
		}
		// HttpBody download
		sfx.reset(replies)
		rec, pn := fx.Serve(httptest.NewRequest("GET", "/c06/download", nil))
		c.Eval("http-download", fmt.Sprintf("chunks=%d", len(replies)), len(replies) > 0)
		if pn != nil || rec.Code != 200 || !bytes.Equal(rec.Body.Bytes(), bytes.Join(replies, nil)) || (len(replies) > 0 && rec.Header().Get("Content-Type") != "application/x-chunks") {
			c.SpecFail("http-download", fmt.Sprintf("chunks=%d", len(replies)), fmt.Sprintf("code=%d %d bytes ct=%q panic=%v", rec.Code, rec.Body.Len(), rec.Header().Get("Content-Type"), pn), fmt.Sprintf("%d bytes", len(bytes.Join(replies, nil))), "C06/http-download/bytes", "HttpBody download is not the concatenation of the handler's chunks")
		}
	}
}

// c06Grpc: gRPC / gRPC-web framing in both directions, scripted reads, gzip, final status.
func c06Grpc(c *Ctx, prop string, sfx *streamFx) {
	fx := sfx.fx
	n := c.N(400, 8000)
	if prop == "C08" {
		n = c.N(100, 2000)
	}
	for i := 0; i < n; i++ {
		proto_ := []string{"grpc", "grpc-gzip", "web", "web-text", "web-gzip"}[c.Rng.Intn(5)]
		var msgs [][]byte
		var wire []byte
		var ends []int
		var gzTable []string
		bad := -1 // index of a frame that does not decompress
		for j, k := 0, c.Rng.Intn(5); j < k; j++ {
			d := make([]byte, []int{0, 0, 1, 3, 4, 5, 63, 64, 65, 127, 128, 300}[c.Rng.Intn(12)])
			c.Rng.Read(d)
			if len(d) == 0 {
				d = nil
			}
			msgs = append(msgs, d)
			enc, _ := proto.Marshal(reqWithData(fx, d))
			if strings.HasSuffix(proto_, "gzip") && c.Rng.Intn(3) > 0 {
				z := gzipBytes(enc)
				if bad < 0 && c.Rng.Intn(8) == 0 && len(z) > 10 {
					// a frame whose gzip checksum is wrong: inflates completely, then fails; its message sets
					// a field no other message of the sweep sets
					ghost := reqWithData(fx, d)
					ghost.Set(ghost.Descriptor().Fields().ByName("name"), protoreflect.ValueOfString("ghost-of-a-failed-frame"))
					genc, _ := proto.Marshal(ghost)
					z = gzipBytes(genc)
					z = append([]byte(nil), z...)
					z[len(z)-6] ^= 0x5a
					bad = j
				} else {
					gzTable = append(gzTable, hexs(z)+":"+hexs(enc))
				}
				wire = append(wire, grpcFrame(1, z)...)
			} else {
				wire = append(wire, grpcFrame(0, enc)...)
			}
			ends = append(ends, len(wire))
		}
		cut := -1
		if len(wire) > 0 && c.Rng.Intn(4) == 0 {
			cut = c.Rng.Intn(len(wire))
		}
		body := wire
		if cut >= 0 {
			body = wire[:cut]
		}
		hdr := map[string]string{"Content-Type": "application/grpc+proto"}
		gzArg := "none"
		if strings.HasSuffix(proto_, "gzip") {
			hdr["Grpc-Encoding"] = "gzip"
			gzArg = strings.Join(gzTable, ",")
			if gzArg == "" {
				gzArg = "-"
			}
		}
		h2 := true
		sendBody := body
		if strings.HasPrefix(proto_, "web") {
			h2 = c.Rng.Intn(3) == 0 // gRPC-web also arrives over HTTP/2 (browsers against TLS endpoints, Envoy)
			hdr["Content-Type"] = "application/grpc-web+proto"
			if proto_ == "web-text" {
				hdr["Content-Type"] = "application/grpc-web-text+proto"
				sendBody = []byte(base64.StdEncoding.EncodeToString(body))
			}
		}
		sched := genSched(c, len(sendBody))
		eofd := c.Rng.Intn(2) == 0
		sfx.reset(nil)
		rec, pn := sfx.serveStream("POST", "/verif.v1.Svc/Up", hdr, sendBody, sched, eofd, h2)
		in := fmt.Sprintf("%s msgs=%d wire=%x cut=%d bad-gzip-frame=%d sched=%s eofWithData=%v http2=%v", proto_, len(msgs), trunc(wire, 80), cut, bad, intsCSV(trunc2(sched, 20)), eofd, h2)
		kind := proto_ + "-up"
		c.count(kind, in, len(msgs) > 0)
		if pn != nil {
			c.SpecFail(kind, in, fmt.Sprint("panic: ", pn), "no panic", prop+"/"+kind+"/panic", "stream handling panics")
			continue
		}
		// correspondence (frame level; the text layer is base64 of the same bytes)
		if proto_ != "web-text" {
			var tr []string
			for _, g := range sfx.got {
				tr = append(tr, "m:"+hexs(g))
			}
			tr = append(tr, classifyFinal(sfx.final))
			model := c.Drv.Ask(join("grpcrecv", strconv.Itoa(1<<20), gzArg, hexs(body), intsCSV(sched), map[bool]string{true: "1", false: "0"}[eofd]))
			c.res.Corresponded++
			var mtr []string
			for _, it := range strings.Fields(model) {
				switch {
				case strings.HasPrefix(it, "m:"):
					var raw []byte
					fmt.Sscanf(it[2:], "%x", &raw)
					m := fx.NewMsg("Req")
					if proto.Unmarshal(raw, m) != nil {
						mtr = append(mtr, "err")
					} else {
						mtr = append(mtr, "m:"+hexs(dataOf(m)))
					}
				case it == "eof":
					mtr = append(mtr, "eof")
				default:
					mtr = append(mtr, "err")
				}
			}
			for i, it := range mtr {
				if it == "err" {
					mtr = mtr[:i+1]
					break
				}
			}
			if strings.Join(mtr, " ") != strings.Join(tr, " ") {
				c.res.NDisagree++
				if len(c.res.Disagree) < 25 {
					c.res.Disagree = append(c.res.Disagree, Case{Kind: kind, Input: in, Impl: strings.Join(tr, " "), Model: strings.Join(mtr, " ")})
				}
			}
		}
		complete := len(msgs)
		atBoundary := true
		if cut >= 0 {
			complete = 0
			for _, e := range ends {
				if e <= cut {
					complete++
				}
			}
			atBoundary = cut == 0 || (complete > 0 && ends[complete-1] == cut)
		}
		if bad >= 0 && bad < complete {
			complete, atBoundary = bad, false // the stream fails at the frame that does not decompress
		}
		ok := len(sfx.got) == complete
		for k := 0; ok && k < complete; k++ {
			ok = bytes.Equal(sfx.got[k], msgs[k]) && (k >= len(sfx.gotSizes) || sfx.gotSizes[k] == proto.Size(reqWithData(fx, msgs[k])))
		}
		wantFinal := "eof"
		if !atBoundary {
			wantFinal = "err"
		}
		if proto_ == "web-text" && !atBoundary && len(sendBody)%4 != 0 {
			wantFinal = "err"
		}
		if !ok || classifyFinal(sfx.final) != wantFinal {
			c.SpecFail(kind, in, fmt.Sprintf("%d messages then %s (%s)", len(sfx.got), classifyFinal(sfx.final), sfx.final), fmt.Sprintf("%d messages then %s", complete, wantFinal), prop+"/"+kind+"/sequence", "the handler does not receive exactly the client's frames followed by a clean end")
		}
		// right after a frame that failed to decompress: the next compressed call (same goroutine, same
		// pooled buffers) must see exactly its own messages
		if bad >= 0 {
			for rep := 0; rep < 3; rep++ {
				d1, d2 := []byte{1, 2, 3, byte(rep)}, bytes.Repeat([]byte{byte(40 + rep)}, 70)
				e1, _ := proto.Marshal(reqWithData(fx, d1))
				e2, _ := proto.Marshal(reqWithData(fx, d2))
				w2 := append(grpcFrame(1, gzipBytes(e1)), grpcFrame(1, gzipBytes(e2))...)
				sfx.reset(nil)
				_, pn2 := sfx.serveStream("POST", "/verif.v1.Svc/Up", hdr, w2, nil, false, h2)
				in2 := fmt.Sprintf("%s: two valid gzip frames right after a call whose gzip frame did not decompress (%s)", proto_, in)
				c.count(kind, in2, true)
				if pn2 != nil || len(sfx.got) != 2 || !bytes.Equal(sfx.got[0], d1) || !bytes.Equal(sfx.got[1], d2) || sfx.gotSizes[0] != len(e1) || sfx.gotSizes[1] != len(e2) {
					c.SpecFail(kind, in2, fmt.Sprintf("%d messages %x of sizes %v panic=%v final=%s", len(sfx.got), sfx.got, sfx.gotSizes, pn2, sfx.final), fmt.Sprintf("the two messages, sizes %d and %d", len(e1), len(e2)), prop+"/"+kind+"/sequence-after-failed-frame", "a message is merged with bytes left over from an earlier call's failed decompression")
					break
				}
			}
		}
		// final status after the messages (valid streams): Reply frame then status
		if cut < 0 && bad < 0 {
			raw := rec.Body.Bytes()
			if proto_ == "web-text" {
				raw, _ = base64.StdEncoding.DecodeString(string(raw))
			}
			frames, flags, okf := parseFrames(raw)
			st := rec.Header().Get("Grpc-Status")
			if st == "" {
				st = rec.Result().Trailer.Get("Grpc-Status")
			}
			ndata := 0
			trailerLast := true
			for i, f := range frames {
				if flags[i]&0x80 != 0 {
					if i != len(frames)-1 {
						trailerLast = false
					}
					if strings.Contains(string(f), "grpc-status: 0") {
						st = "0"
					}
				} else {
					ndata++
				}
			}
			if !okf || ndata != 1 || st != "0" || !trailerLast {
				c.SpecFail(kind, in, fmt.Sprintf("frames-ok=%v data-frames=%d grpc-status=%q trailer-last=%v", okf, ndata, st, trailerLast), "one reply frame then status 0", prop+"/"+kind+"/final-status", "the reply and the final status do not arrive in order")
			}
		}
	}
	if prop != "C06" {
		return
	}
	// zero / k replies over gRPC-web: the status must be visible to a web client (response headers
	// as sent, or the trailer frame in the body), after the messages
	for i := 0; i < c.N(40, 400); i++ {
		k := c.Rng.Intn(3)
		var replies [][]byte
		for j := 0; j < k; j++ {
			replies = append(replies, []byte{byte(j), 1, 2})
		}
		fail := c.Rng.Intn(2) == 0
		text := c.Rng.Intn(2) == 0
		sfx.reset(replies)
		if fail {
			sfx.failWith = status.Error(codes.Aborted, "scripted")
		}
		ct := "application/grpc-web+proto"
		body := grpcFrame(0, nil)
		if text {
			ct = "application/grpc-web-text+proto"
			body = []byte(base64.StdEncoding.EncodeToString(body))
		}
		webH2 := i%3 == 1
		rec, pn := sfx.serveStream("POST", "/verif.v1.Svc/Down", map[string]string{"Content-Type": ct}, body, nil, false, webH2)
		in := fmt.Sprintf("web-down replies=%d fail=%v text=%v http2=%v", k, fail, text, webH2)
		c.Eval("web-down", in, true)
		if pn != nil {
			c.SpecFail("web-down", in, fmt.Sprint("panic: ", pn), "a response", "C06/web-down/panic", "panic")
			continue
		}
		res := rec.Result() // headers as they were when the header block was committed
		raw := rec.Body.Bytes()
		if text {
			raw, _ = base64.StdEncoding.DecodeString(string(raw))
		}
		frames, flags, okf := parseFrames(raw)
		st := res.Header.Get("Grpc-Status")
		ndata := 0
		for i, f := range frames {
			if flags[i]&0x80 != 0 {
				for _, line := range strings.Split(string(f), "\r\n") {
					if strings.HasPrefix(strings.ToLower(line), "grpc-status:") {
						st = strings.TrimSpace(line[len("grpc-status:"):])
					}
				}
			} else {
				ndata++
			}
		}
		want := "0"
		if fail {
			want = "10"
		}
		if !okf || ndata != k || st != want {
			c.SpecFail("web-down", in, fmt.Sprintf("frames-ok=%v data-frames=%d grpc-status=%q", okf, ndata, st), fmt.Sprintf("%d data frames then grpc-status %s", k, want), "C06/web-down/final-status", "a gRPC-web client cannot see the final status (headers as sent or trailer frame)")
		}
	}
	// server streams with a real gRPC client (identity and gzip) and over gRPC-web
	cc, err := fx.GRPC()
	if err != nil {
		c.Note("grpc client: " + err.Error())
		return
	}
	for i := 0; i < c.N(40, 600); i++ {
		var replies [][]byte
		for j, k := 0, c.Rng.Intn(5); j < k; j++ {
			d := make([]byte, []int{0, 1, 5, 64, 128, 300, 5000}[c.Rng.Intn(7)])
			c.Rng.Read(d)
			replies = append(replies, d)
		}
		fail := c.Rng.Intn(3) == 0
		sfx.reset(replies)
		if fail {
			sfx.failWith = status.Error(codes.Aborted, "scripted")
		}
		var opts []grpc.CallOption
		if c.Rng.Intn(2) == 0 {
			opts = append(opts, grpc.UseCompressor("gzip"))
		}
		ctx, cancel := context.WithTimeout(context.Background(), 5*time.Second)
		st, err := cc.NewStream(ctx, &grpc.StreamDesc{ServerStreams: true}, "/verif.v1.Svc/Down", opts...)
		var got [][]byte
		if err == nil {
			err = st.SendMsg(fx.NewMsg("Req"))
		}
		if err == nil {
			err = st.CloseSend()
		}
		for err == nil {
			m := fx.NewMsg("Reply")
			if err = st.RecvMsg(m); err == nil {
				got = append(got, append([]byte(nil), dataOf(m)...))
			}
		}
		cancel()
		in := fmt.Sprintf("grpc-down replies=%d fail=%v gzip=%v", len(replies), fail, len(opts) > 0)
		c.Eval("grpc-down", in, len(replies) > 0)
		ok := len(got) == len(replies)
		for k := 0; ok && k < len(replies); k++ {
			ok = bytes.Equal(got[k], replies[k])
		}
		wantCode := codes.OK
		if fail {
			wantCode = codes.Aborted
		}
		gotCode := codes.OK
		if err != io.EOF {
			gotCode = status.Code(err)
		}
		if !ok || gotCode != wantCode {
			c.SpecFail("grpc-down", in, fmt.Sprintf("%d messages then %v", len(got), err), fmt.Sprintf("%d messages then %v", len(replies), wantCode), "C06/grpc-down/sequence", "the gRPC client does not receive the handler's sequence followed by its status")
		}
	}
	// WebSocket echo: sequence and order, then close
	hts := fx.HTTPServer()
	for i := 0; i < c.N(10, 100); i++ {
		var msgs [][]byte
		for j, k := 0, c.Rng.Intn(5); j < k; j++ {
			d := make([]byte, []int{0, 1, 64, 126, 127, 300, 70000}[c.Rng.Intn(7)])
			c.Rng.Read(d)
			msgs = append(msgs, d)
		}
		sfx.reset(nil)
		modes := make([]int, len(msgs)) // per message: text frame, binary frame, text split into two frames
		for k := range modes {
			modes[k] = c.Rng.Intn(3)
		}
		echo, closeCode, err := wsEcho(hts.URL+"/c06/ws", fx, msgs, modes...)
		in := fmt.Sprintf("ws msgs=%d frame-modes=%v", len(msgs), modes)
		c.Eval("ws", in, len(msgs) > 0)
		ok := err == nil && len(echo) == len(msgs) && len(sfx.got) == len(msgs)
		for k := 0; ok && k < len(msgs); k++ {
			ok = bytes.Equal(echo[k], msgs[k]) && bytes.Equal(sfx.got[k], msgs[k])
		}
		if !ok || closeCode != 1000 {
			c.SpecFail("ws", in, fmt.Sprintf("echoed=%d handler=%d close=%d err=%v", len(echo), len(sfx.got), closeCode, err), fmt.Sprintf("%d echoed then close 1000", len(msgs)), "C06/ws/sequence", "WebSocket stream does not carry the sequence in order followed by a normal close")
		}
	}
}

// wsWrite sends one client message: mode 0 a text frame, 1 a binary frame, 2 a text message
// fragmented into two frames.
func wsWrite(conn io.Writer, mode int, b []byte) error {
	switch {
	case mode == 1:
		return wsutil.WriteClientMessage(conn, ws.OpBinary, b)
	case mode == 2 && len(b) >= 2:
		h := len(b) / 2
		if err := ws.WriteFrame(conn, ws.MaskFrameInPlace(ws.NewFrame(ws.OpText, false, append([]byte(nil), b[:h]...)))); err != nil {
			return err
		}
		return ws.WriteFrame(conn, ws.MaskFrameInPlace(ws.NewFrame(ws.OpContinuation, true, append([]byte(nil), b[h:]...))))
	}
	return wsutil.WriteClientMessage(conn, ws.OpText, b)
}

func wsEcho(url string, fx *Fixture, msgs [][]byte, modes ...int) (echo [][]byte, closeCode int, err error) {
	url = "ws" + strings.TrimPrefix(url, "http")
	ctx, cancel := context.WithTimeout(context.Background(), 5*time.Second)
	defer cancel()
	conn, _, _, err := ws.Dial(ctx, url)
	if err != nil {
		return nil, 0, err
	}
	defer conn.Close()
	conn.SetDeadline(time.Now().Add(5 * time.Second))
	for i, d := range msgs {
		b, _ := protojson.Marshal(reqWithData(fx, d))
		mode := 0
		if i < len(modes) {
			mode = modes[i]
		}
		if err := wsWrite(conn, mode, b); err != nil {
			return echo, 0, err
		}
		rb, _, err := wsutil.ReadServerData(conn)
		if err != nil {
			return echo, 0, err
		}
		m := fx.NewMsg("Reply")
		if err := protojson.Unmarshal(rb, m); err != nil {
			return echo, 0, err
		}
		echo = append(echo, append([]byte(nil), dataOf(m)...))
	}
	if err := wsutil.WriteClientMessage(conn, ws.OpClose, ws.NewCloseFrameBody(ws.StatusNormalClosure, "")); err != nil {
		return echo, 0, err
	}
	for {
		hdr, err := ws.ReadHeader(conn)
		if err != nil {
			return echo, 0, err
		}
		payload := make([]byte, hdr.Length)
		if _, err := io.ReadFull(conn, payload); err != nil {
			return echo, 0, err
		}
		if hdr.OpCode == ws.OpClose {
			code, _ := ws.ParseCloseFrameData(payload)
			return echo, int(code), nil
		}
	}
}

var _ = http.StatusOK

// c06Proxy: the handler of a proxied method is the backend behind RegisterConn — it too must
// receive exactly the client's message sequence (0..4 messages, the empty stream included)
// followed by a clean end-of-stream, and the call must end.
func c06Proxy(c *Ctx) {
	bk := &c10Backend{seen: map[string]*c10Seen{}}
	fixtureDeferRegistration = true
	backFx, err := NewFixture(c10Specs(bk), nil)
	fixtureDeferRegistration = false
	if err != nil {
		c.Note("c06 proxy fixture: " + err.Error())
		return
	}
	gs := grpc.NewServer()
	for _, sd := range backFx.ServiceDescs() {
		gs.RegisterService(sd, nil)
	}
	rpb.RegisterServerReflectionServer(gs, reflection.NewServer(reflection.ServerOptions{Services: gs, DescriptorResolver: backFx.Files}))
	blis, _ := net.Listen("tcp", "127.0.0.1:0")
	go gs.Serve(blis) //nolint
	defer gs.Stop()
	bcc, _ := grpc.NewClient(blis.Addr().String(), grpcInsecure())
	defer bcc.Close()
	mux, err := larking.NewMux()
	if err != nil {
		c.Note("c06 proxy mux: " + err.Error())
		return
	}
	ctx, cancel := context.WithTimeout(context.Background(), 5*time.Second)
	err = mux.RegisterConn(ctx, bcc)
	cancel()
	if err != nil {
		c.Note("c06 proxy RegisterConn: " + err.Error())
		return
	}
	srv, _ := larking.NewServer(mux)
	flis, _ := net.Listen("tcp", "127.0.0.1:0")
	go srv.Serve(flis) //nolint
	defer srv.Close()
	fcc, _ := grpc.NewClient(flis.Addr().String(), grpcInsecure())
	defer fcc.Close()
	id := 0
	for _, sh := range []struct {
		name   string
		cs, ss bool
	}{{"CS", true, false}, {"BD", true, true}} {
		for nmsg := 0; nmsg <= 4; nmsg++ {
			for _, replies := range []int{0, 2} {
				var msgs []*dynamicpb.Message
				var want []string
				for k := 0; k < nmsg; k++ {
					m := backFx.NewMsg("Req")
					m.Set(m.Descriptor().Fields().ByName("name"), protoreflect.ValueOfString(fmt.Sprintf("p%d-%d", nmsg, k)))
					b, _ := protojson.Marshal(m)
					msgs = append(msgs, m)
					want = append(want, string(b))
				}
				id++
				cid := fmt.Sprint("c06p", id)
				md := metadata.Pairs("x-c10-id", cid, "x-c10-script", fmt.Sprintf("%d,0,-2,0", replies), "x-c10-msg-bin", "", "x-c10-details", "0")
				out := c10Call(fcc, backFx, sh.name, sh.cs, sh.ss, msgs, md, 0)
				bk.mu.Lock()
				seen := bk.seen[cid]
				if seen == nil {
					seen = &c10Seen{}
				}
				gotMsgs, closed := append([]string(nil), seen.msgs...), seen.closed
				bk.mu.Unlock()
				in := fmt.Sprintf("proxied %s over gRPC: the client sends %d messages and half-closes; the backend answers %d replies, OK", sh.name, nmsg, replies)
				c.Eval("proxy-sequence", in, true)
				c.Class("proxy:" + sh.name)
				ok := len(gotMsgs) == len(want) && closed && !out.hung && out.code == codes.OK
				for k := 0; ok && k < len(want); k++ {
					ok = jsonEqual(gotMsgs[k], want[k], backFx)
				}
				if !ok {
					c.SpecFail("proxy-sequence", in, fmt.Sprintf("backend got %d messages, end-of-stream=%v; client: %s hung=%v", len(gotMsgs), closed, out.String(), out.hung), fmt.Sprintf("%d messages in order, then end-of-stream; status OK", nmsg), "C06/proxy/"+sh.name+"/sequence", "the backend behind the proxy does not receive the client's message sequence followed by a clean end-of-stream")
				}
			}
		}
	}
	// the other direction: a server-streaming (not client-streaming) method behind the proxy — every
	// reply in order, then the backend's own final status
	for _, replies := range []int{0, 1, 2, 5} {
		for _, code := range []codes.Code{codes.OK, codes.Aborted} {
			id++
			cid := fmt.Sprint("c06p", id)
			failAt := -2
			if code != codes.OK {
				failAt = replies
			}
			m := backFx.NewMsg("Req")
			m.Set(m.Descriptor().Fields().ByName("name"), protoreflect.ValueOfString("ss"))
			md := metadata.Pairs("x-c10-id", cid, "x-c10-script", fmt.Sprintf("%d,%d,%d,0", replies, int(code), failAt), "x-c10-msg-bin", "", "x-c10-details", "0")
			out := c10Call(fcc, backFx, "SS", false, true, []*dynamicpb.Message{m}, md, 0)
			in := fmt.Sprintf("proxied SS over gRPC: the backend answers %d replies, then %v", replies, code)
			c.Eval("proxy-sequence", in, true)
			c.Class("proxy:SS")
			ok := !out.hung && out.code == code && len(out.replies) == replies
			for k := 0; ok && k < replies; k++ {
				ok = strings.Contains(out.replies[k], fmt.Sprint("r", k))
			}
			if !ok {
				c.SpecFail("proxy-sequence", in, out.String()+fmt.Sprint(" hung=", out.hung), fmt.Sprintf("%d replies r0.. in order, then %v", replies, code), "C06/proxy/SS/sequence", "the client of a proxied server stream does not get the backend's reply sequence followed by its final status")
			}
		}
	}
}

// hookReader delivers data[:cut], then runs hook once (from inside the next Read), then the rest.
type hookReader struct {
	data []byte
	cut  int
	hook func()
	pos  int
	ran  bool
}

func (r *hookReader) Read(p []byte) (int, error) {
	if r.pos >= r.cut && !r.ran {
		r.ran = true
		r.hook()
	}
	if r.pos >= len(r.data) {
		return 0, io.EOF
	}
	end := len(r.data)
	if r.pos < r.cut {
		end = r.cut
	}
	n := copy(p, r.data[r.pos:end])
	r.pos += n
	return n, nil
}

// c06GzipOverlap: compressed HTTP client streams one after another and INSIDE one another (call C
// is served while call B is in the middle of its body): every call delivers its own messages.
func c06GzipOverlap(c *Ctx, sfx *streamFx) {
	fx := sfx.fx
	mk := func(tag byte, n int) ([]byte, [][]byte) {
		var wire []byte
		var datas [][]byte
		for k := 0; k < n; k++ {
			d := append([]byte{tag, byte(k)}, bytes.Repeat([]byte{tag}, 20+k)...)
			enc := encodeMsg(fx, "proto", d)
			wire = protowire.AppendVarint(wire, uint64(len(enc)))
			wire = append(wire, enc...)
			datas = append(datas, d)
		}
		return gzipBytes(wire), datas
	}
	serve := func(body io.Reader) (*httptest.ResponseRecorder, interface{}) {
		r := httptest.NewRequest("POST", "/c06/up", bodyReadCloser{body})
		r.ContentLength = -1
		r.Header.Set("Content-Type", "application/protobuf")
		r.Header.Set("Content-Encoding", "gzip")
		return fx.Serve(r)
	}
	for round := 0; round < 3; round++ {
		sfx.reset(nil)
		za, da := mk('A', 5)
		recA, pnA := serve(bytes.NewReader(za))
		zb, db := mk('B', 40)
		zc, dc := mk('C', 7)
		var recC *httptest.ResponseRecorder
		var pnC interface{}
		recB, pnB := serve(&hookReader{data: zb, cut: len(zb) / 2, hook: func() { recC, pnC = serve(bytes.NewReader(zc)) }})
		in := fmt.Sprintf("gzip HTTP client streams: A (5 messages) completes, then C (7) is served while B (40) is mid-body; round %d", round)
		c.Eval("http-gzip-overlap", in, true)
		sfx.mu.Lock()
		got := append([][]byte(nil), sfx.got...)
		sfx.mu.Unlock()
		per := map[byte][][]byte{}
		for _, g := range got {
			if len(g) > 0 {
				per[g[0]] = append(per[g[0]], g)
			}
		}
		same := func(a, b [][]byte) bool {
			if len(a) != len(b) {
				return false
			}
			for i := range a {
				if !bytes.Equal(a[i], b[i]) {
					return false
				}
			}
			return true
		}
		okA := pnA == nil && recA.Code == 200 && same(per['A'], da)
		okB := pnB == nil && recB.Code == 200 && same(per['B'], db)
		okC := pnC == nil && recC != nil && recC.Code == 200 && same(per['C'], dc)
		if !okA || !okB || !okC {
			code := func(r *httptest.ResponseRecorder) int {
				if r == nil {
					return 0
				}
				return r.Code
			}
			c.SpecFail("http-gzip-overlap", in, fmt.Sprintf("A: %d, %d of 5; B: %d, %d of 40; C: %d, %d of 7", code(recA), len(per['A']), code(recB), len(per['B']), code(recC), len(per['C'])), "every call delivers its own messages, 200", "C06/http-gzip/overlapping-streams", "compressed request streams that overlap in time cut or contaminate one another")
		}
	}
}

// c06Inflated: a compressed gRPC / gRPC-web message that inflates past a (small) receive limit,
// made of 4-byte fields so that ANY cut at a multiple of 4 still parses, between two valid
// messages: whatever the handler receives must be a message the client sent — a message cut
// down to the limit is a fabricated one.
func c06Inflated(c *Ctx) {
	const limit = 64
	sfx, err := newStreamFx(larking.MaxReceiveMessageSizeOption(limit))
	if err != nil {
		c.SpecFail("fixture", "c06 inflated", err.Error(), "registered", "C06/fixture", "fixture")
		return
	}
	fx := sfx.fx
	mk := func(n int) []byte {
		m := fx.NewMsg("Req")
		l := m.Mutable(m.Descriptor().Fields().ByName("rs")).List()
		for k := 0; k < n; k++ {
			l.Append(protoreflect.ValueOfString("e"))
		}
		b, _ := proto.Marshal(m)
		return b
	}
	for _, tr := range []string{"application/grpc+proto", "application/grpc-web+proto"} {
		for _, n := range []int{limit/4 + 1, limit/4 + 3, 2 * limit} {
			first, big, last := mk(2), mk(n), mk(3)
			wire := append(append(grpcFrame(1, gzipBytes(first)), grpcFrame(1, gzipBytes(big))...), grpcFrame(1, gzipBytes(last))...)
			sfx.reset(nil)
			_, pn := sfx.serveStream("POST", "/verif.v1.Svc/Up", map[string]string{"Content-Type": tr, "Grpc-Encoding": "gzip"}, wire, nil, false, tr == "application/grpc+proto")
			in := fmt.Sprintf("%s receive limit %d: gzip messages of %d, %d (over the limit once inflated) and %d bytes, all of 4-byte fields", tr, limit, len(first), len(big), len(last))
			c.Eval("grpc-inflated", in, true)
			if pn != nil {
				c.SpecFail("grpc-inflated", in, fmt.Sprint("panic: ", pn), "an error status", "C06/grpc-inflated/panic", "panic")
				continue
			}
			for k, sz := range sfx.gotSizes {
				if sz != len(first) && sz != len(last) && sz != len(big) || k == 0 && sz != len(first) {
					c.SpecFail("grpc-inflated", in, fmt.Sprintf("message %d of %d bytes; sizes received: %v", k, sz, sfx.gotSizes), fmt.Sprintf("only messages the client sent (%d, then an error for the one over the limit)", len(first)), "C06/grpc-inflated/fabricated-message", "the handler received a message the client never sent: an over-limit message cut down to the limit")
					break
				}
			}
		}
	}
}
