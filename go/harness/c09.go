package main

import (
	"bytes"
	"net"
	"sync"
	"context"
	"encoding/base64"
	"fmt"
	"io"
	"net/http"
	"net/http/httptest"
	"strings"
	"sync/atomic"
	"time"
	"unicode/utf8"

	"google.golang.org/grpc"
	"google.golang.org/grpc/codes"
	"google.golang.org/grpc/reflection"
	rpb "google.golang.org/grpc/reflection/grpc_reflection_v1alpha"
	"google.golang.org/protobuf/reflect/protoreflect"
	"google.golang.org/grpc/status"
	"google.golang.org/protobuf/encoding/protodelim"
	"google.golang.org/protobuf/encoding/protojson"
	"google.golang.org/protobuf/encoding/protowire"
	"google.golang.org/protobuf/proto"
	"google.golang.org/protobuf/types/dynamicpb"
	"larking.io/larking"
)

func init() {
	props["C09"] = runC09
}

// c09MaxMsgs bounds what a body of the sweep can carry (every message costs at least a byte,
// bodies are far smaller); a handler that receives more is being fed messages out of nothing.
const c09MaxMsgs = 200000

var c09Runaway atomic.Bool

func c09Specs() []*MethodSpec {
	unary := func(ctx context.Context, in *dynamicpb.Message) (proto.Message, error) {
		r := dynamicpb.NewMessage(in.Descriptor().ParentFile().Messages().ByName("Reply"))
		// echo: replies of every size (the compressed reply path depends on the size)
		r.Set(r.Descriptor().Fields().ByName("data"), in.Get(in.Descriptor().Fields().ByName("data")))
		return r, nil
	}
	drain := func(fx *Fixture, ms *MethodSpec, st grpc.ServerStream) error {
		n := 0
		for {
			if n > c09MaxMsgs { // more messages than the body has bytes: the stream never ends
				c09Runaway.Store(true)
				return status.Error(codes.Internal, "runaway stream")
			}
			m := fx.NewMsg("Req")
			if err := st.RecvMsg(m); err != nil {
				if err == io.EOF {
					break
				}
				return err
			}
			n++
			if ms.ServerStream {
				if err := st.SendMsg(fx.NewMsg("Reply")); err != nil {
					return err
				}
			}
			if !ms.ClientStream {
				break
			}
		}
		if !ms.ServerStream {
			return st.SendMsg(fx.NewMsg("Reply"))
		}
		return nil
	}
	// slow answers only once its context is done (deadline, client gone) — the reply is sent too late
	slow := func(ctx context.Context, in *dynamicpb.Message) (proto.Message, error) {
		select {
		case <-ctx.Done():
		case <-time.After(400 * time.Millisecond):
		}
		return dynamicpb.NewMessage(in.Descriptor().ParentFile().Messages().ByName("Reply")), nil
	}
	book := getRule("/v1/{name=shelves/*/books/*}")
	book.AdditionalBindings = nil
	return []*MethodSpec{
		{Name: "Slow", In: "Req", Out: "Reply", Unary: slow, Rule: postRule("/v1/slow", "*")},
		{Name: "GetBook", In: "Req", Out: "Reply", Unary: unary, Rule: book},
		{Name: "PatchBook", In: "Req", Out: "Reply", Unary: unary, Rule: customRule("PATCH", "/v1/{name=shelves/*/books/*}", "nested")},
		{Name: "GetShelf", In: "Req", Out: "Reply", Unary: unary, Rule: getRule("/v1/{name=shelves/*}")},
		{Name: "Deep", In: "Req", Out: "Reply", Unary: unary, Rule: getRule("/v1/messages/{name=**}")},
		{Name: "Verb", In: "Req", Out: "Reply", Unary: unary, Rule: getRule("/v1/a/{i32}/b/{nested.n}:check")},
		{Name: "Typed", In: "Req", Out: "Reply", Unary: unary, Rule: getRule("/v1/typed/{kind}/{flag}/{data}/{u64}/{db}")},
		{Name: "Wkt", In: "Req", Out: "Reply", Unary: unary, Rule: getRule("/v1/wkt/{ts}/{dur}/{wstr}")},
		{Name: "Post", In: "Req", Out: "Reply", Unary: unary, Rule: postRule("/v1/post/{name}", "*")},
		{Name: "Up", In: "Req", Out: "Reply", ClientStream: true, Stream: drain, Rule: postRule("/v1/up", "*")},
		{Name: "Upload", In: "Req", Out: "Reply", ClientStream: true, Stream: drain, Rule: postRule("/v1/upload/{name}", "file")},
		{Name: "Down", In: "Req", Out: "Reply", ServerStream: true, Stream: drain, Rule: postRule("/v1/down", "*")},
		{Name: "Chat", In: "Req", Out: "Reply", ClientStream: true, ServerStream: true, Stream: drain, Rule: customRule("WEBSOCKET", "/v1/ws/{name}", "*")},
		{Name: "Mid", In: "Req", Out: "Reply", Unary: unary, Rule: getRule("/v1/{name=x/*}/mid/{other_name=y/**}")},
	}
}

type c09Req struct {
	method  string
	target  string
	hdr     [][2]string
	body    []byte
	sched   []int
	eofd    bool
	h2      bool
	entry   string
	options string
}

func (q c09Req) String() string {
	var hs []string
	for _, h := range q.hdr {
		hs = append(hs, h[0]+": "+h[1])
	}
	return fmt.Sprintf("[%s/%s] %s %q h2=%v headers={%s} body=%x (%d bytes) sched=%v eofWithData=%v", q.entry, q.options, q.method, q.target, q.h2, strings.Join(hs, "; "), trunc(q.body, 300), len(q.body), trunc2(q.sched, 12), q.eofd)
}

func runC09(c *Ctx) {
	c.Rule("a structure-aware request sweep against three muxes (plain; interceptors + stats handler; one on which nothing has been registered yet) with 13 rules (multi-segment variables with tokens after wildcards, deep wildcards, verbs, typed and well-known-type captures, body fields, client / server / bidi streams, a WebSocket rule): paths are instantiated templates cut at every rune, extended, with doubled slashes, stray ':' '{' '*' '%' NUL and multi-byte runes, or random; queries from field names x valid / invalid / nested / repeated / unknown / badly escaped values; every entry path by content type and protocol version (transcoding JSON / protobuf, gRPC +proto/+json/unknown codec, gRPC-web binary and text, WebSocket upgrade with and without a key) x methods x Accept / Content-Encoding / Accept-Encoding / Grpc-Encoding (gzip, identity, unknown) / Grpc-Timeout junk; bodies: valid encodings, truncated at every position class, random bytes, frames with every flag and size relation (0, exact, +-1, 2^31, 2^32-1) x valid / gzip / corrupt gzip / truncated gzip payloads, JSON with unbalanced braces, strings cut open, deep nesting, length prefixes up to 2^64-1; body readers delivering all at once, byte by byte, or in random pieces, with io.EOF with or after the last data. Each request runs under a watchdog: it must return (no hang), must not panic, and must leave a well-formed status line. Non-trivial: every request; distinct by request.")
	c.Assume("net/http delivers header and URL parsing; the request objects are built with httptest.NewRequest (targets that net/http itself refuses to parse are skipped)")
	ri := &recInterceptors{}
	st := &recStats{}
	// both muxes also carry a registered codec that cannot frame streams (no ReadNext / WriteNext)
	fxA, errA := NewFixture(c09Specs(), nil, larking.CodecOption("application/x-verif", verifCodec{}))
	fxB, errB := NewFixture(c09Specs(), nil, larking.CodecOption("application/x-verif", verifCodec{}), larking.UnaryServerInterceptorOption(ri.Unary), larking.StreamServerInterceptorOption(ri.Stream), larking.StatsOption(st))
	if errA != nil || errB != nil || fxA.RegErr != nil || fxA.RegPanic != nil {
		c.SpecFail("fixture", "c09", fmt.Sprint(errA, errB, fxA.RegErr, fxA.RegPanic), "", "C09/fixture", "fixture")
		return
	}
	fx := fxA
	templates := []string{
		"/v1/shelves/s1/books/b2", "/v1/shelves/s1", "/v1/messages/a/b/c/d", "/v1/a/12/b/34:check",
		"/v1/typed/ALPHA/true/QUJD/18446744073709551615/1.5e3", "/v1/wkt/2001-02-03T04:05:06Z/3.5s/hello",
		"/v1/post/n1", "/v1/up", "/v1/upload/f1", "/v1/down", "/v1/ws/room", "/v1/x/1/mid/y/2/3",
		"/" + fxPkg + ".Svc/GetBook", "/" + fxPkg + ".Svc/Up", "/" + fxPkg + ".Svc/Down", "/" + fxPkg + ".Svc/Chat", "/" + fxPkg + ".Svc/Nope",
	}
	rnd := c.Rng
	genPathFrom := func(t string) string {
		rs := []rune(t)
		if rnd.Intn(5) < 3 {
			return t // mostly a path that routes
		}
		switch rnd.Intn(9) {
		case 0, 1, 2: // a proper prefix: stops inside a variable's template
			return string(rs[:rnd.Intn(len(rs)+1)])
		case 3:
			return t + []string{"/", "/x", "//", ":", ":v", "/*", "/**", "/{x}", "%2F", "\x00", "é", "/.", "/.."}[rnd.Intn(13)]
		case 4:
			i := rnd.Intn(len(rs))
			return string(rs[:i]) + []string{"/", ":", "*", "{", "}", "=", "%", " ", "\x00", "é", "日", "\xff", "//", "::"}[rnd.Intn(14)] + string(rs[i:])
		case 5:
			segs := strings.Split(t, "/")
			i := rnd.Intn(len(segs))
			segs[i] = []string{"", "*", "**", "é", strings.Repeat("a", 300), "%zz", ":", "{name}"}[rnd.Intn(8)]
			return strings.Join(segs, "/")
		case 6:
			return t + strings.Repeat("/a", rnd.Intn(80))
		case 7:
			alpha := "/:*{}=.%a1-_~é\x00 b"
			var sb strings.Builder
			for i, n := 0, rnd.Intn(30); i < n; i++ {
				r, _ := utf8.DecodeRuneInString(alpha[rnd.Intn(len(alpha)):])
				sb.WriteRune(r)
			}
			return "/" + sb.String()
		case 8:
			return strings.TrimPrefix(t, "/")
		}
		return t
	}
	// operations: a path that routes, its verb and whether it is an implicit /Service/Method path
	type op struct {
		verb, path string
		stream     bool
	}
	ops := []op{
		{"GET", "/v1/shelves/s1/books/b2", false}, {"PATCH", "/v1/shelves/s1/books/b2", false}, {"GET", "/v1/shelves/s1", false},
		{"GET", "/v1/messages/a/b/c/d", false}, {"GET", "/v1/a/12/b/34:check", false},
		{"GET", "/v1/typed/ALPHA/true/QUJD/18446744073709551615/1.5e3", false}, {"GET", "/v1/wkt/2001-02-03T04:05:06Z/3.5s/hello", false},
		{"POST", "/v1/post/n1", false}, {"POST", "/v1/up", true}, {"POST", "/v1/upload/f1", true}, {"POST", "/v1/down", true},
		{"GET", "/v1/ws/room", true}, {"GET", "/v1/x/1/mid/y/2/3", false},
	}
	implicit := []string{"GetBook", "PatchBook", "Deep", "Typed", "Post", "Up", "Upload", "Down", "Chat", "Nope"}
	_ = templates
	_ = genPathFrom
	fields := []string{"m.key", "m.value", "nm.value", "nm.value.s", "nm.key.x", "m.value.x", "rn.s", "rn.child.s", "ri.x", "rs.0", "file.data", "file.content_type", "nested.tags.x", "name", "i32", "u64", "flag", "kind", "data", "ts", "dur", "fm", "wstr", "w64", "nested.n", "nested.s", "nested.child.s", "ri", "rs", "m", "m.k", "rn", "rn.s", "oa", "ob", "file", "file.data", "nope", "", ".", "nested.", "otherName", "other_name"}
	values := []string{"1", "-1", "x", "", "true", "null", "1.5", "ALPHA", "99", "2001-02-03T04:05:06Z", "1s", "a,b", "%zz", "%", "QQ==", "!!", "{}", "[1]", "\"q", strings.Repeat("9", 40), "é", "1e400", "-0"}
	genQuery := func() string {
		if rnd.Intn(2) == 0 {
			return ""
		}
		var parts []string
		for i, n := 0, 1+rnd.Intn(4); i < n; i++ {
			parts = append(parts, fields[rnd.Intn(len(fields))]+"="+values[rnd.Intn(len(values))])
		}
		if rnd.Intn(6) == 0 {
			parts = append(parts, "&&=&;", "a=b=c")
		}
		return strings.Join(parts, "&")
	}
	validMsg := func() *dynamicpb.Message { return genReq(c, fx, false, true) }
	mutate := func(b []byte) []byte {
		if len(b) == 0 {
			return b
		}
		switch rnd.Intn(6) {
		case 0:
			return b[:rnd.Intn(len(b))]
		case 1:
			out := append([]byte(nil), b...)
			out[rnd.Intn(len(out))] ^= byte(1 << uint(rnd.Intn(8)))
			return out
		case 2:
			junk := make([]byte, rnd.Intn(40))
			rnd.Read(junk)
			return append(append([]byte(nil), b...), junk...)
		case 3:
			junk := make([]byte, 1+rnd.Intn(60))
			rnd.Read(junk)
			return junk
		}
		return b
	}
	genFrames := func() []byte {
		var out []byte
		for i, n := 0, rnd.Intn(4); i < n; i++ {
			enc, _ := proto.Marshal(validMsg())
			if rnd.Intn(3) == 0 { // incompressible data of every size: echoed, so replies of every size
				d := make([]byte, rnd.Intn(400))
				rnd.Read(d)
				enc, _ = proto.Marshal(reqWithData(fx, d))
			}
			payload := enc
			switch rnd.Intn(6) {
			case 0:
				payload = gzipBytes(enc)
			case 1:
				z := gzipBytes(enc)
				payload = z[:len(z)/2]
			case 2:
				payload = mutate(gzipBytes(enc))
			case 3:
				payload = mutate(enc)
			}
			flag := []byte{0, 0, 1, 1, 2, 0x80, 0x81, 255}[rnd.Intn(8)]
			size := uint32(len(payload))
			switch rnd.Intn(10) {
			case 0:
				size++
			case 1:
				if size > 0 {
					size--
				}
			case 2:
				size = 1 << 31
			case 3:
				size = 0xffffffff
			case 4:
				size = 0
			}
			out = append(out, flag, byte(size>>24), byte(size>>16), byte(size>>8), byte(size))
			out = append(out, payload...)
		}
		if rnd.Intn(5) == 0 {
			out = mutate(out)
		}
		return out
	}
	genJSON := func() []byte {
		b, _ := protojson.Marshal(validMsg())
		switch rnd.Intn(10) {
		case 0:
			return []byte(strings.Repeat("{\"nested\":", 200) + "{}" + strings.Repeat("}", rnd.Intn(201)))
		case 1:
			return []byte(`{"name":"unterminated`)
		case 2:
			return []byte(`{"name":"a\`)
		case 3:
			return []byte(strings.Repeat("[", 5000))
		case 4:
			return []byte(`{"i32":` + strings.Repeat("9", 400) + `}`)
		case 5:
			return append(b, b...)
		case 6:
			return []byte("{}{}{")
		case 7:
			return []byte(" \n\t ")
		}
		return mutate(b)
	}
	genDelim := func() []byte {
		var buf bytes.Buffer
		for i, n := 0, rnd.Intn(4); i < n; i++ {
			protodelim.MarshalTo(&buf, validMsg()) //nolint
		}
		b := buf.Bytes()
		switch rnd.Intn(6) {
		case 0:
			return append(b, 0xff, 0xff, 0xff, 0xff, 0xff, 0xff, 0xff, 0xff, 0xff, 0x01)
		case 1:
			return append(b, 0xff, 0xff, 0xff, 0xff, 0xff, 0xff, 0xff, 0xff, 0xff, 0xff, 0xff)
		case 2:
			return append(b, 0x80, 0x80, 0x80, 0x80, 0x08, 1, 2, 3)
		case 3:
			return mutate(b)
		}
		return b
	}
	pick := func(l []string) string { return l[rnd.Intn(len(l))] }
	gen := func() c09Req {
		q := c09Req{}
		add := func(k, v string) { q.hdr = append(q.hdr, [2]string{k, v}) }
		kind := rnd.Intn(5)
		o := ops[rnd.Intn(len(ops))]
		switch kind {
		case 0:
			q.method = o.verb
			if rnd.Intn(6) == 0 {
				q.method = pick([]string{"GET", "POST", "PATCH", "PUT", "DELETE", "OPTIONS", "HEAD", "FOO"})
			}
			if rnd.Intn(4) == 0 { // the implicit route, any body
				q.method = "POST"
				q.target = genPathFrom("/" + fxPkg + ".Svc/" + pick(implicit))
			} else {
				q.target = genPathFrom(o.path)
			}
		case 3:
			q.target = genPathFrom(pick([]string{"/v1/ws/room", "/v1/ws/room", "/v1/up", "/" + fxPkg + ".Svc/Chat"}))
		default:
			q.target = genPathFrom("/" + fxPkg + ".Svc/" + pick(implicit))
		}
		if qs := genQuery(); qs != "" && (kind == 0 || rnd.Intn(4) == 0) {
			q.target += "?" + qs
		}
		switch kind {
		case 0: // transcoding
			q.entry = "transcoding"
			ct := pick([]string{"application/json", "application/protobuf", "application/octet-stream", "text/plain", "", "application/json; charset=utf-8", "junk/;;", "application/x-www-form-urlencoded", "application/x-verif"})
			if ct != "" {
				add("Content-Type", ct)
			}
			switch rnd.Intn(4) {
			case 0:
				q.body = genJSON()
			case 1:
				q.body = genDelim()
			case 2:
				enc, _ := proto.Marshal(validMsg())
				q.body = mutate(enc)
			}
			if rnd.Intn(3) == 0 {
				add("Accept", pick([]string{"*/*", "application/json;q=0.5, application/protobuf", ";;;", "a/b;q=x", "application/json;q=1.5", strings.Repeat("a/b,", 200), "", "application/x-verif", "application/json;q=", "application/protobuf; q=", "*/*;q=,application/json", "a/b;q"}))
			}
			if o.stream && rnd.Intn(3) == 0 { // a well-formed gzip body on a streaming method
				add("Content-Encoding", "gzip")
				q.body = gzipBytes(q.body)
			} else if rnd.Intn(3) == 0 {
				ce := pick([]string{"gzip", "identity", "br", "gzip, gzip", ""})
				add("Content-Encoding", ce)
				if ce == "gzip" && rnd.Intn(2) == 0 {
					q.body = gzipBytes(q.body)
					if rnd.Intn(3) == 0 {
						q.body = mutate(q.body)
					}
				}
			}
			if rnd.Intn(4) == 0 {
				add("Accept-Encoding", pick([]string{"gzip", "identity", "*;q=0", "gzip;q=abc", "br, gzip", "gzip;q=", "gzip; q", ";q="}))
			}
		case 1: // gRPC
			q.entry = "grpc"
			q.method = pick([]string{"POST", "POST", "POST", "POST", "POST", "POST", "POST", "POST", "POST", "POST", "POST", "POST", "POST", "POST", "GET", "PUT"})
			q.h2 = rnd.Intn(8) > 0
			add("Content-Type", pick([]string{"application/grpc", "application/grpc", "application/grpc+proto", "application/grpc+proto", "application/grpc+proto", "application/grpc+proto", "application/grpc+json", "application/grpc+json", "application/grpc+unknown", "application/grpc;x=y", "application/grpcfoo"}))
			add("Te", "trailers")
			q.body = genFrames()
		case 2: // gRPC-web
			q.entry = "grpc-web"
			q.method = pick([]string{"POST", "POST", "POST", "POST", "POST", "POST", "POST", "POST", "POST", "POST", "POST", "POST", "POST", "POST", "OPTIONS", "GET"})
			ct := pick([]string{"application/grpc-web", "application/grpc-web+proto", "application/grpc-web+proto", "application/grpc-web+proto", "application/grpc-web+json", "application/grpc-web-text", "application/grpc-web-text+proto", "application/grpc-web-text+proto", "application/grpc-web-text+json", "application/grpc-web+unknown", "application/grpc-webx"})
			add("Content-Type", ct)
			q.body = genFrames()
			if strings.Contains(ct, "text") {
				q.body = []byte(base64.StdEncoding.EncodeToString(q.body))
				if rnd.Intn(4) == 0 {
					q.body = mutate(q.body)
				}
			}
		case 3: // WebSocket upgrade
			q.entry = "websocket"
			q.method = "GET"
			add("Upgrade", pick([]string{"websocket", "websocket", "websocket", "websocket", "WebSocket", "h2c"}))
			add("Connection", pick([]string{"Upgrade", "keep-alive", ""}))
			if rnd.Intn(2) == 0 {
				add("Sec-WebSocket-Key", pick([]string{"dGhlIHNhbXBsZSBub25jZQ==", "short", ""}))
				add("Sec-WebSocket-Version", pick([]string{"13", "12", ""}))
			}
		default: // anything
			q.entry = "mixed"
			q.method = pick([]string{"POST", "POST", "GET", "PATCH"})
			add("Content-Type", pick([]string{"application/json", "application/grpc+proto", "application/grpc-web-text", ""}))
			q.body = mutate(genFrames())
			q.h2 = rnd.Intn(2) == 0
		}
		if q.entry == "grpc" || q.entry == "grpc-web" || q.entry == "mixed" {
			if rnd.Intn(2) == 0 {
				add("Grpc-Encoding", pick([]string{"gzip", "gzip", "identity", "identity", "zstd", "", "gzip,identity"}))
			}
			if rnd.Intn(3) == 0 {
				add("Grpc-Timeout", pick([]string{"1S", "0n", "99999999H", "100000000S", "-1S", "1", "S", "1x", "١S", " 1S", "1.5S", strings.Repeat("9", 30) + "S", ""}))
			}
			if rnd.Intn(5) == 0 {
				add("Grpc-Accept-Encoding", pick([]string{"gzip", "identity,gzip", "junk"}))
			}
			if rnd.Intn(6) == 0 {
				add("X-Custom-Bin", pick([]string{"!!!", "QUJD", "QQ", "====", ""}))
			}
		}
		q.sched = genSched(c, len(q.body))
		q.eofd = rnd.Intn(2) == 0
		return q
	}
	// every reply size through the compressed reply path (gRPC and gRPC-web, gzip negotiated)
	for size := 0; size <= c.N(260, 1600); size++ {
		d := make([]byte, size)
		rnd.Read(d)
		enc, _ := proto.Marshal(reqWithData(fx, d))
		for _, web := range []bool{false, true} {
			r := httptest.NewRequest("POST", "/"+fxPkg+".Svc/Post", bytes.NewReader(grpcFrame(1, gzipBytes(enc))))
			r.Header.Set("Content-Type", "application/grpc+proto")
			if web {
				r.Header.Set("Content-Type", "application/grpc-web+proto")
			} else {
				r.ProtoMajor, r.ProtoMinor = 2, 0
			}
			r.Header.Set("Grpc-Encoding", "gzip")
			rec, pn := serveOn(fxA.Mux, r)
			in := fmt.Sprintf("[sizes] gzip gRPC%s echo of %d random bytes", map[bool]string{true: "-web", false: ""}[web], size)
			c.Eval("request", in, true)
			c.Class("sizes")
			if pn != nil {
				c.SpecFail("request", in, fmt.Sprint("panic: ", pn), "a response", "C09/panic/grpc-compressed-reply/"+c09PanicKey(pn), "a request panics the mux")
			} else if st := strings.Trim(rec.Header().Get("Grpc-Status")+rec.Result().Trailer.Get("Grpc-Status"), "0"); rec.Code != 200 || st != "" {
				c.SpecFail("request", in, fmt.Sprintf("%d grpc-status %q", rec.Code, st), "OK", "C09/valid-refused/grpc-compressed-reply", "a valid compressed call fails")
			}
		}
	}
	// directed: every boundary length prefix on the transcoded client-stream routes, and every key of the
	// codec table (including the HttpBody pseudo codec's) as the Accept of a request that fails
	{
		var bodies [][]byte
		for _, v := range []uint64{0, 1, 127, 128, 1 << 31, 1<<32 - 1, 1 << 32, 1<<63 - 1, 1 << 63, 1<<63 + 1, 1<<64 - 1} {
			p := protowire.AppendVarint(nil, v)
			bodies = append(bodies, append(append([]byte{}, p...), "abc"...), p)
			var buf bytes.Buffer
			protodelim.MarshalTo(&buf, validMsg()) //nolint
			bodies = append(bodies, append(buf.Bytes(), p...))
		}
		var reqs []c09Req
		for _, b := range bodies {
			for _, t := range []string{"/v1/up", "/" + fxPkg + ".Svc/Up", "/" + fxPkg + ".Svc/Chat"} {
				for _, ct := range []string{"application/protobuf", "application/octet-stream"} {
					reqs = append(reqs, c09Req{method: "POST", target: t, hdr: [][2]string{{"Content-Type", ct}}, body: b, entry: "transcoding", options: "directed-prefix", eofd: len(reqs)%2 == 0})
				}
			}
		}
		for _, acc := range []string{"google.api.HttpBody", "application/x-verif", "application/octet-stream", "application/protobuf", "google.api.HttpBody;q=1, application/json;q=0.1"} {
			for _, t := range []string{"/v1/nope", "/v1/up", "/" + fxPkg + ".Svc/Post"} {
				reqs = append(reqs, c09Req{method: "POST", target: t, hdr: [][2]string{{"Content-Type", "application/json"}, {"Accept", acc}}, body: []byte(`{"i32":"not a number"`), entry: "transcoding", options: "directed-accept"})
				reqs = append(reqs, c09Req{method: "GET", target: t + "?i32=x", hdr: [][2]string{{"Accept", acc}}, entry: "transcoding", options: "directed-accept"})
			}
		}
		// JSON client streams whose body ends INSIDE a message, at every cut of a two-message body
		{
			full := []byte(`{"name":"a","nested":{"s":"x"}}{"name":"b\\"}`)
			for cut := 0; cut <= len(full); cut++ {
				for _, eofd := range []bool{false, true} {
					reqs = append(reqs, c09Req{method: "POST", target: "/v1/up", hdr: [][2]string{{"Content-Type", "application/json"}}, body: full[:cut], entry: "transcoding", options: "directed-json-cut", eofd: eofd})
				}
			}
		}
		// compressed request bodies on the STREAMING transcoding routes (a stream codec reads on after
		// the read that reported end-of-data together with the last bytes), valid, truncated and junk
		for _, t := range []string{"/v1/up", "/v1/upload/f", "/" + fxPkg + ".Svc/Up"} {
			for _, ct := range []string{"application/json", "application/protobuf"} {
				var plain []byte
				for k := 0; k < 3; k++ {
					if ct == "application/json" {
						plain = append(plain, []byte(fmt.Sprintf(`{"name":"z%d"}`, k))...)
					} else {
						plain = append(plain, 4, 10, 2, 'z', byte('0'+k))
					}
				}
				z := gzipBytes(plain)
				for _, b := range [][]byte{z, z[:len(z)/2], z[:len(z)-1], append(append([]byte{}, z...), z...), []byte("not gzip"), nil} {
					for _, eofd := range []bool{false, true} {
						reqs = append(reqs, c09Req{method: "POST", target: t, hdr: [][2]string{{"Content-Type", ct}, {"Content-Encoding", "gzip"}}, body: b, entry: "transcoding", options: "directed-gzip-stream", eofd: eofd})
					}
				}
			}
		}
		directedHangs := 0
		for _, q := range reqs {
			for _, mux := range []http.Handler{fxA.Mux, fxB.Mux} {
				r := httptest.NewRequest(q.method, q.target, &schedReader{data: append([]byte(nil), q.body...), eofWithData: q.eofd})
				for _, h := range q.hdr {
					r.Header.Set(h[0], h[1])
				}
				r.ContentLength = -1
				done := make(chan interface{}, 1)
				var rec *httptest.ResponseRecorder
				go func() { var pn interface{}; rec, pn = serveOn(mux, r); done <- pn }()
				c.Eval("request", q.String(), true)
				c.Class("directed:" + q.options)
				select {
				case pn := <-done:
					if pn != nil {
						c.SpecFail("request", q.String(), fmt.Sprint("panic: ", pn), "a response", "C09/panic/"+q.options+"/"+c09PanicKey(pn), "a request panics the mux")
					} else if rec.Code < 100 || rec.Code > 599 {
						c.SpecFail("request", q.String(), fmt.Sprint(rec.Code), "a status line", "C09/status-line/"+q.options, "no well-formed status")
					}
				case <-time.After(5 * time.Second):
					c.SpecFail("request", q.String(), "still running after 5 s", "a response", "C09/hang/"+q.options, "a request hangs the mux")
					directedHangs++
				}
			}
			if directedHangs >= 4 { // every hang costs the watchdog's 5 s (and leaves a goroutine behind): enough is shown
				c.Note("directed requests: stopped after 4 hangs")
				break
			}
		}
	}
	// a deadline (or a vanished client) that fires between the request message and the reply
	for _, variant := range []string{"grpc", "grpc-web", "grpc-cancel", "http-cancel"} {
		for _, mux := range []http.Handler{fxA.Mux, fxB.Mux} {
			ctx, cancel := context.WithCancel(context.Background())
			var r *http.Request
			switch variant {
			case "http-cancel":
				r = httptest.NewRequest("POST", "/v1/slow", strings.NewReader("{}"))
				r.Header.Set("Content-Type", "application/json")
			default:
				r = httptest.NewRequest("POST", "/"+fxPkg+".Svc/Slow", bytes.NewReader(grpcFrame(0, nil)))
				r.Header.Set("Content-Type", "application/grpc+proto")
				if variant == "grpc-web" {
					r.Header.Set("Content-Type", "application/grpc-web+proto")
				} else {
					r.ProtoMajor, r.ProtoMinor = 2, 0
				}
			}
			if strings.HasSuffix(variant, "cancel") {
				go func() { time.Sleep(30 * time.Millisecond); cancel() }()
			} else {
				r.Header.Set("Grpc-Timeout", "30m")
			}
			r = r.WithContext(ctx)
			done := make(chan interface{}, 1)
			go func() { _, pn := serveOn(mux, r); done <- pn }()
			in := fmt.Sprintf("[late-reply] %s: the handler answers only after its context is done", variant)
			c.Eval("request", in, true)
			c.Class("late-reply")
			select {
			case pn := <-done:
				if pn != nil {
					c.SpecFail("request", in, fmt.Sprint("panic: ", pn), "a response", "C09/panic/late-reply/"+c09PanicKey(pn), "a request panics the mux")
				}
			case <-time.After(4 * time.Second):
				c.SpecFail("request", in, "no response within 4 s (the serving goroutine is still running)", "control returns", "C09/hang/late-reply/"+variant, "a reply sent after the deadline wedges the serving goroutine")
			}
			cancel()
		}
	}
	n := c.N(6000, 150000)
	hung := false
	emptyMux, _ := larking.NewMux()
	for i := 0; i < n && !hung; i++ {
		q := gen()
		mux, opts := http.Handler(fxA.Mux), "plain"
		if i%2 == 1 {
			mux, opts = fxB.Mux, "interceptors+stats"
		}
		if i%8 == 7 && emptyMux != nil { // a mux nothing has been registered on yet (no published state)
			mux, opts = emptyMux, "nothing-registered"
		}
		q.options = opts
		var r *http.Request
		func() {
			defer func() {
				if recover() != nil {
					r = nil // net/http refuses the target
				}
			}()
			r = httptest.NewRequest(q.method, q.target, nil)
		}()
		if r == nil {
			c.Class("unparseable-target")
			continue
		}
		rd := &schedReader{data: append([]byte(nil), q.body...), sched: q.sched, eofWithData: q.eofd}
		r.Body = bodyReadCloser{rd}
		r.ContentLength = int64(len(q.body))
		if rnd.Intn(3) == 0 {
			r.ContentLength = -1
		}
		for _, h := range q.hdr {
			r.Header.Add(h[0], h[1])
		}
		if q.h2 {
			r.ProtoMajor, r.ProtoMinor = 2, 0
		}
		type result struct {
			rec *httptest.ResponseRecorder
			pn  interface{}
		}
		done := make(chan result, 1)
		go func() {
			rec, pn := serveOn(mux, r)
			done <- result{rec, pn}
		}()
		in := q.String()
		c.Eval("request", in, true)
		c09Runaway.Store(false)
		select {
		case res := <-done:
			switch {
			case c09Runaway.Load():
				c.Class(q.entry + ":runaway")
				c.SpecFail("request", in, fmt.Sprintf("the handler received more than %d messages from a %d byte body", c09MaxMsgs, len(q.body)), "the stream ends", "C09/hang/"+q.entry+"/endless-stream", "receiving never reports the end of the body: a handler that drains its stream never returns")
			case res.pn != nil:
				c.Class(q.entry + ":panic")
				c.SpecFail("request", in, fmt.Sprint("panic: ", res.pn), "a response", "C09/panic/"+q.entry+"/"+c09PanicKey(res.pn), "a request panics the mux")
			case res.rec.Code < 100 || res.rec.Code > 599:
				c.SpecFail("request", in, fmt.Sprint("status ", res.rec.Code), "a status in 100..599", "C09/bad-status/"+q.entry, "the response has no well-formed status line")
			default:
				c.Class(fmt.Sprintf("%s:%dxx", q.entry, res.rec.Code/100))
				why := strings.TrimSpace(res.rec.Body.String())
				if res.rec.Code == 200 {
					why = "grpc-status=" + res.rec.Header().Get("Grpc-Status") + res.rec.Result().Trailer.Get("Grpc-Status")
				}
				if len(why) > 48 {
					why = why[:48]
				}
				c.Class(fmt.Sprintf("why:%s:%d:%s", q.entry, res.rec.Code, why))
			}
		case <-time.After(4 * time.Second):
			hung = true
			c.Class(q.entry + ":hang")
			c.SpecFail("request", in, "no response within 4 s (the serving goroutine is still running)", "control returns", "C09/hang/"+q.entry, "a request wedges the serving goroutine")
		}
	}
	c09ProxyIdleClient(c)
}

func c09PanicKey(pn interface{}) string {
	s := fmt.Sprint(pn)
	switch {
	case strings.Contains(s, "index out of range"):
		return "index-out-of-range"
	case strings.Contains(s, "slice bounds"):
		return "slice-bounds"
	case strings.Contains(s, "nil pointer"):
		return "nil-dereference"
	case strings.Contains(s, "interface conversion"):
		return "type-assertion"
	}
	if len(s) > 40 {
		s = s[:40]
	}
	return strings.ReplaceAll(s, " ", "-")
}

// blockingBody delivers data, then blocks in Read until it is closed (a client that keeps its
// send side open and idle).
type blockingBody struct {
	data   []byte
	closed chan struct{}
	once   sync.Once
}

func (b *blockingBody) Read(p []byte) (int, error) {
	if len(b.data) > 0 {
		n := copy(p, b.data)
		b.data = b.data[n:]
		return n, nil
	}
	<-b.closed
	return 0, io.ErrClosedPipe
}
func (b *blockingBody) Close() error { b.once.Do(func() { close(b.closed) }); return nil }

// c09ProxyIdleClient: a client-streaming / bidi call to a PROXIED method whose client sent one
// message and keeps its send side open while the backend ends the call (with an error, or OK):
// serving must return control — with the backend's status when that is an error.
func c09ProxyIdleClient(c *Ctx) {
	bk := &c10Backend{seen: map[string]*c10Seen{}}
	fixtureDeferRegistration = true
	backFx, err := NewFixture(c10Specs(bk), nil)
	fixtureDeferRegistration = false
	if err != nil {
		c.Note("c09 proxy fixture: " + err.Error())
		return
	}
	gs := grpc.NewServer()
	for _, sd := range backFx.ServiceDescs() {
		gs.RegisterService(sd, nil)
	}
	rpb.RegisterServerReflectionServer(gs, reflection.NewServer(reflection.ServerOptions{Services: gs, DescriptorResolver: backFx.Files}))
	blis, _ := net.Listen("tcp", "127.0.0.1:0")
	go gs.Serve(blis) //nolint
	defer gs.Stop()
	bcc, _ := grpc.NewClient(blis.Addr().String(), grpcInsecure())
	defer bcc.Close()
	mux, err := larking.NewMux()
	if err != nil {
		return
	}
	ctx, cancel := context.WithTimeout(context.Background(), 5*time.Second)
	err = mux.RegisterConn(ctx, bcc)
	cancel()
	if err != nil {
		c.Note("c09 proxy RegisterConn: " + err.Error())
		return
	}
	m := backFx.NewMsg("Req")
	m.Set(m.Descriptor().Fields().ByName("name"), protoreflect.ValueOfString("idle"))
	enc, _ := proto.Marshal(m)
	id := 0
	for _, method := range []string{"CS", "BD"} {
		for _, tr := range []string{"application/grpc+proto", "application/grpc-web+proto"} {
			for _, code := range []int{12, 9} {
				id++
				body := &blockingBody{data: grpcFrame(0, enc), closed: make(chan struct{})}
				r := httptest.NewRequest("POST", "/"+fxPkg+".Back/"+method, body)
				r.ContentLength = -1
				r.Header.Set("Content-Type", tr)
				if tr == "application/grpc+proto" {
					r.ProtoMajor, r.ProtoMinor = 2, 0
					r.Header.Set("Te", "trailers")
				}
				r.Header.Set("x-c10-id", fmt.Sprint("c09idle", id))
				r.Header.Set("x-c10-script", fmt.Sprintf("0,%d,-1,1", code)) // the backend fails at once, without reading on
				in := fmt.Sprintf("proxied %s over %s: the client sent one message and keeps its send side open; the backend fails with code %d", method, tr, code)
				c.Eval("proxy-idle-client", in, true)
				type served struct {
					rec *httptest.ResponseRecorder
					pn  interface{}
				}
				done := make(chan served, 1)
				go func() { rec, pn := serveOn(mux, r); done <- served{rec, pn} }()
				select {
				case sv := <-done:
					st := sv.rec.Header().Get("Grpc-Status")
					if st == "" {
						st = sv.rec.Result().Trailer.Get("Grpc-Status")
					}
					if i := strings.Index(sv.rec.Body.String(), "grpc-status: "); i >= 0 {
						st = strings.SplitN(sv.rec.Body.String()[i+13:], "\r", 2)[0]
					}
					if sv.pn != nil {
						c.SpecFail("proxy-idle-client", in, fmt.Sprint("panic: ", sv.pn), "the backend's status", "C09/proxy/idle-client-panic", "serving panics")
					} else if st != fmt.Sprint(code) {
						c.SpecFail("proxy-idle-client", in, "grpc-status "+st, fmt.Sprint("grpc-status ", code), "C09/proxy/idle-client-status", "the backend's error does not reach a client that keeps its stream open")
					}
				case <-time.After(4 * time.Second):
					c.SpecFail("proxy-idle-client", in, "serving has not returned after 4 s", "control returns with the backend's status", "C09/proxy/idle-client-wedged", "a proxied call whose backend has ended wedges while the client's send side stays open")
					body.Close() //nolint
				}
			}
		}
	}
}
