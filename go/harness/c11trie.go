package main

import (
	"fmt"
	"sort"
	"strconv"
	"strings"

	"larking.io/larking"
)

// c11TrieDel: `path.delRule` on the routing trie itself, against Model/TrieDel.
// Generated and directed rule sets are registered on a real trie (through the hook), the verb
// rules of a random set of methods are removed by calling delRule until it reports false, and
// every probe is routed before and after. Correspondence: the model's answer after the same
// deletions (`delroute`). Conformance (independent of the model): a request that was
// dispatched to a method that is NOT removed is dispatched to the same method with the same
// captures afterwards; nothing is dispatched through a verb binding of a removed method;
// delRule ends (at most one call per accepted binding, plus the one that says false).
func c11TrieDel(c *Ctx) { trieDel(c, "C11") }

// trieDel is shared with C02 (routing completeness holds across deletions too): prop names the
// property the findings are filed under.
func trieDel(c *Ctx, prop string) {
	env, err := newRouteEnv(3)
	if err != nil {
		c.SpecFail("fixture", "c11 trie", err.Error(), "descriptors", prop+"/fixture", "cannot build descriptors")
		return
	}
	lit := func(s string) tseg { return tseg{kind: sLit, lit: s} }
	tm := func(verb string, segs ...tseg) ttmpl { return ttmpl{segs: segs, verb: verb} }
	directed := [][]rrule{
		// a verb rule of M1 below, and at, the node that holds only M0's kind-'*' binding
		{{method: 0, primary: rbind{kind: "*", t: tm("", lit("p"), lit("q"))}}, {method: 1, primary: rbind{kind: "GET", t: tm("", lit("p"), lit("q"), lit("r"))}}},
		{{method: 0, primary: rbind{kind: "*", t: tm("", lit("p"), lit("q"))}}, {method: 1, primary: rbind{kind: "POST", t: tm("", lit("p"), lit("q"))}}},
		{{method: 0, primary: rbind{kind: "*", t: tm("", lit("p"), lit("q"))}}, {method: 1, primary: rbind{kind: "GET", t: tm("", lit("p"), lit("q"), tseg{kind: sStar})}}},
		{{method: 0, primary: rbind{kind: "*", t: tm("", lit("p"), tseg{kind: sStar})}}, {method: 1, primary: rbind{kind: "GET", t: tm("", lit("p"), tseg{kind: sStar}, lit("r"))}}},
		{{method: 0, primary: rbind{kind: "*", t: tm("", lit("p"), lit("q"))}}, {method: 1, primary: rbind{kind: "GET", t: tm("go", lit("p"), lit("q"))}}},
		// two rules of the removed method in different subtrees of one node; a sibling that stays
		{{method: 1, primary: rbind{kind: "GET", t: tm("", lit("p"), lit("a"))}, additional: []rbind{{kind: "GET", t: tm("", lit("p"), lit("b"), lit("c"))}}},
			{method: 2, primary: rbind{kind: "GET", t: tm("", lit("p"), lit("b"))}}},
		// the same pattern bound for two verbs by two methods
		{{method: 1, primary: rbind{kind: "GET", t: tm("", lit("p"), tseg{kind: sStar})}}, {method: 2, primary: rbind{kind: "POST", t: tm("", lit("p"), tseg{kind: sStar})}}},
	}
	nSets := c.N(250, 5000)
	if prop != "C11" {
		nSets = c.N(120, 2500)
	}
	verbs := []string{"GET", "POST", "PUT", "DELETE", "PATCH", "LOCK"}
	for si := 0; si < nSets+len(directed); si++ {
		var rules []rrule
		if si < len(directed) {
			rules = directed[si]
		} else {
			rules = genRuleSet(c, 3)
		}
		trie, outs := env.buildImplTrie(rules)
		line := rulesLine(rules)
		acc := acceptedBindings(rules, outs)
		if len(acc) == 0 {
			continue
		}
		// the methods whose verb rules go
		present := map[int]bool{}
		for _, ab := range acc {
			present[ab.method] = true
		}
		var ms []int
		for m := range present {
			ms = append(ms, m)
		}
		sort.Ints(ms)
		var dels []int
		if si < len(directed) {
			dels = []int{1}
		} else {
			for _, m := range ms {
				if c.Rng.Intn(2) == 0 {
					dels = append(dels, m)
				}
			}
			if len(dels) == 0 {
				dels = []int{ms[c.Rng.Intn(len(ms))]}
			}
			if c.Rng.Intn(6) == 0 { // a method that has no rule at all
				dels = append(dels, 5)
			}
		}
		removed := map[int]bool{}
		for _, d := range dels {
			removed[d] = true
		}
		paths := genPaths(c, rules, c.N(6, 10))
		type probe struct {
			verb, path string
			before     routeResult
		}
		var probes []probe
		for _, p := range paths {
			if strings.ContainsAny(p, "\t\n\r") {
				continue
			}
			for _, v := range []string{verbs[c.Rng.Intn(len(verbs))], strings.ToUpper(acc[c.Rng.Intn(len(acc))].b.kind)} {
				if v == "*" {
					v = "LOCK"
				}
				probes = append(probes, probe{verb: v, path: p, before: implRoute(trie, v, p)})
			}
		}
		// delete on a clone (as removeHandler works on the cloned state)
		work := trie.Clone()
		in0 := fmt.Sprintf("rules=%s del=%v", describeRules(rules, outs), dels)
		calls, runaway := 0, false
		func() {
			defer func() {
				if p := recover(); p != nil {
					c.SpecFail("deltrie", in0, fmt.Sprint("panic: ", p), "delRule returns", prop+"/trie/delrule-panic", "delRule panics")
					runaway = true
				}
			}()
			for _, d := range dels {
				for work.DelRule(env.methodName(d)) {
					calls++
					if calls > 4*len(acc)+4 {
						runaway = true
						return
					}
				}
			}
		}()
		if runaway {
			c.SpecFail("deltrie", in0, fmt.Sprintf("%d calls still report true", calls), "at most one successful call per binding", prop+"/trie/delrule-runaway", "delRule keeps reporting success")
			continue
		}
		c.Class("deltrie:calls:" + strconv.Itoa(min(calls, 6)))
		var ds []string
		for _, d := range dels {
			ds = append(ds, strconv.Itoa(d))
		}
		for _, pr := range probes {
			after := implRoute(work, pr.verb, pr.path)
			in := fmt.Sprintf("%s verb=%s path=%q", in0, pr.verb, pr.path)
			c.count("deltrie", line+" "+strings.Join(ds, ",")+" "+pr.verb+" "+pr.path, pr.before.class == "found")
			model := normModelRoute(c.Drv.Ask(join("delroute", line, strings.Join(ds, ","), hexS(pr.verb), runesOf(pr.path))))
			c.res.Corresponded++
			c.Class("deltrie:" + pr.before.class + ">" + after.class)
			if model != after.line {
				c.res.NDisagree++
				if len(c.res.Disagree) < 25 {
					c.res.Disagree = append(c.res.Disagree, Case{Kind: "deltrie", Input: in, Impl: after.line, Model: model})
				}
			}
			if after.class == "panic" {
				c.SpecFail("deltrie", in, "panic", "a result", prop+"/trie/route-panic", "routing after delRule panics")
				continue
			}
			if pr.before.class == "found" && !removed[pr.before.method] && after.line != pr.before.line {
				c.SpecFail("deltrie", in, after.line, pr.before.line, prop+"/trie/other-method-route-lost", "removing the rules of one method changed where a request for another method goes")
			}
			if after.class == "found" && removed[after.method] {
				// only a kind-'*' binding of the removed method may still answer
				star := false
				for _, ab := range acc {
					if ab.method == after.method && ab.b.kind == "*" && len(matchTemplate(ab.b.t, pr.path, false)) > 0 {
						star = true
					}
				}
				if !star {
					c.SpecFail("deltrie", in, after.line, "not dispatched to a removed method", prop+"/trie/removed-method-still-routed", "a verb rule of the removed method still answers after delRule reported false")
				}
			}
		}
		// the trie the deletions were made on is a clone: the published one is untouched
		for _, pr := range probes[:min(len(probes), 3)] {
			if again := implRoute(trie, pr.verb, pr.path); again.line != pr.before.line {
				c.SpecFail("deltrie", in0, again.line, pr.before.line, prop+"/trie/published-trie-changed", "delRule on a clone changed the trie it was cloned from")
			}
		}
	}
	_ = larking.NewVerifTrie
}
