package main

import (
	"fmt"
	"net/http/httptest"
	"strings"

	"larking.io/larking"
)

// c05Dispatch: which serving function a request enters (Mux.ServeHTTP) and isWebRequest,
// against Model/Dispatch. A GET request tells the three serving functions apart without
// reaching any handler: the gRPC-web path answers 400 "invalid gRPC-Web content type",
// the gRPC path 400 "invalid gRPC request method", the transcoding path neither.
// Conformance (independent of the model): every gRPC-web content type is served by the
// gRPC-web path whatever the HTTP version; "application/grpc…" is served by the gRPC path
// over HTTP/2 only; nothing else is taken for gRPC or gRPC-web.
func c05Dispatch(c *Ctx) {
	mux, err := larking.NewMux()
	if err != nil {
		c.SpecFail("fixture", "c05 dispatch", err.Error(), "a mux", "C05/fixture", "fixture")
		return
	}
	cts := []string{"", "application/json", "application/protobuf", "application/grpc", "application/grpc+proto", "application/grpc+json",
		"application/grpc-web", "application/grpc-web+proto", "application/grpc-web+json", "application/grpc-web-text", "application/grpc-web-text+proto",
		"application/grpc-web-text+json+x", "application/grpc-webx", "application/grpc-we", "application/grpc-", "application/grp", "application/grpcfoo",
		"Application/grpc", "application/GRPC-web", " application/grpc", "application/grpc-web ", "application/grpc-web+", "application/grpc+",
		"text/plain", "application/grpc-web-textual+proto", "application/grpc;charset=utf-8"}
	for i := 0; i < c.N(40, 600); i++ { // mutations of the protocol content types
		base := []byte(cts[3+c.Rng.Intn(8)])
		switch c.Rng.Intn(4) {
		case 0:
			base = base[:c.Rng.Intn(len(base)+1)]
		case 1:
			base[c.Rng.Intn(len(base))] ^= byte(1 << uint(c.Rng.Intn(6)))
		case 2:
			base = append(base, "+-xw"[c.Rng.Intn(4)])
		case 3:
			j := c.Rng.Intn(len(base) + 1)
			base = append(append(append([]byte{}, base[:j]...), "-+ w"[c.Rng.Intn(4)]), base[j:]...)
		}
		ok := true
		for _, b := range base {
			ok = ok && b >= 0x20 && b < 0x7f
		}
		if ok {
			cts = append(cts, string(base))
		}
	}
	classify := func(body string) string {
		switch {
		case strings.HasPrefix(body, "invalid gRPC-Web content type"):
			return "web"
		case strings.HasPrefix(body, "invalid gRPC request method"), strings.HasPrefix(body, "gRPC requires HTTP/2"):
			return "grpc"
		}
		return "http"
	}
	for _, ct := range cts {
		for _, pm := range []int{1, 2, 3} {
			r := httptest.NewRequest("GET", "/verif.v1.Nope/M", nil)
			r.ProtoMajor, r.ProtoMinor = pm, 0
			if ct != "" {
				r.Header["Content-Type"] = []string{ct}
			}
			rec, pn := serveOn(mux, r)
			in := fmt.Sprintf("GET with Content-Type %q over HTTP/%d", ct, pm)
			if pn != nil {
				c.Eval("dispatch", in, true)
				c.SpecFail("dispatch", in, fmt.Sprint("panic: ", pn), "a response", "C05/dispatch/panic", "the protocol dispatch panics")
				continue
			}
			impl := classify(rec.Body.String())
			c.Correspond("dispatch", join("dispatch", fmt.Sprint(pm), hexS(ct)), impl, ct != "")
			c.Class("dispatch:" + impl)
			web := strings.HasPrefix(ct, "application/grpc-web")
			grpc := !web && strings.HasPrefix(ct, "application/grpc") && pm == 2
			want := map[bool]string{true: "web", false: map[bool]string{true: "grpc", false: "http"}[grpc]}[web]
			if impl != want {
				c.SpecFail("dispatch", in, "served by the "+impl+" path", "the "+want+" path", "C05/dispatch/"+want+"-taken-for-"+impl, "a request enters the serving function of another protocol: its client cannot read the status it is sent")
			}
		}
		// isWebRequest through the hook
		for _, method := range []string{"POST", "GET", "post", "PUT"} {
			typ, enc, ok := larking.VerifIsWebRequest(ct, method)
			impl := "no"
			if ok {
				impl = "ok " + hexS(typ) + " " + hexS(enc)
			}
			c.Correspond("iswebreq", join("iswebreq", hexS(ct), hexS(method)), impl, ct != "")
			head, codec, hasPlus := strings.Cut(ct, "+")
			isWeb := method == "POST" && (head == "application/grpc-web" || head == "application/grpc-web-text")
			in := fmt.Sprintf("isWebRequest(%q, %s)", ct, method)
			switch {
			case isWeb != ok:
				c.SpecFail("iswebreq", in, impl, fmt.Sprint("gRPC-web request: ", isWeb), "C05/iswebreq/misjudged", "a gRPC-web request is refused or another request is taken for one")
			case ok && (typ != head || hasPlus && enc != codec || !hasPlus && enc != "proto"):
				c.SpecFail("iswebreq", in, impl, "type "+head+", codec "+map[bool]string{true: codec, false: "proto"}[hasPlus], "C05/iswebreq/type-or-codec", "the type or the codec of a gRPC-web request is misread: the reply would be framed or encoded for another client")
			}
		}
	}
}
