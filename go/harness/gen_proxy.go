package main

import (
	"fmt"
	"go/ast"
	"path/filepath"
	"strings"
)

func init() { genSteps = append(genSteps, genProxy) }

// genProxy: isStreamError's case list and where the upload pump half-closes the backend stream.
func genProxy(g *genCtx, lean string, facts map[string]interface{}) error {
	var cases []string
	caseRes, defRes := "?", "?"
	if fd := g.funcs["isStreamError"]; fd != nil {
		for _, st := range fd.Body.List {
			switch t := st.(type) {
			case *ast.SwitchStmt:
				for _, cc := range t.Body.List {
					c := cc.(*ast.CaseClause)
					for _, x := range c.List {
						cases = append(cases, nodeSrc(g, x))
					}
					if len(c.Body) == 1 {
						if r, ok := c.Body[0].(*ast.ReturnStmt); ok && len(r.Results) == 1 {
							caseRes = nodeSrc(g, r.Results[0])
						}
					}
				}
			case *ast.ReturnStmt:
				if len(t.Results) == 1 {
					defRes = nodeSrc(g, t.Results[0])
				}
			}
		}
	} else {
		g.missing = append(g.missing, "isStreamError")
	}
	// the pump: the go func literal inside createConnHandler
	closeAfterLoop, closeInLoop, found := false, false, false
	if fd := g.funcs["createConnHandler"]; fd != nil {
		ast.Inspect(fd.Body, func(n ast.Node) bool {
			gs, ok := n.(*ast.GoStmt)
			if !ok {
				return true
			}
			fl, ok := gs.Call.Fun.(*ast.FuncLit)
			if !ok {
				return true
			}
			found = true
			for _, st := range fl.Body.List {
				isLoop := false
				if _, ok := st.(*ast.ForStmt); ok {
					isLoop = true
				}
				ast.Inspect(st, func(x ast.Node) bool {
					if c, ok := x.(*ast.CallExpr); ok && strings.HasSuffix(nodeSrc(g, c.Fun), "clientStream.CloseSend") {
						if isLoop {
							closeInLoop = true
						} else {
							closeAfterLoop = true
						}
					}
					return true
				})
			}
			return false
		})
	}
	if !found {
		g.missing = append(g.missing, "upload pump goroutine in createConnHandler")
	}
	// the first forwarded message: `if err := clientStream.SendMsg(args); <cond> { return err }` outside the pump —
	// does the condition let io.EOF (the backend has already ended the call) fall through to RecvMsg?
	firstSendCond, firstFound := "?", false
	if fd := g.funcs["createConnHandler"]; fd != nil {
		ast.Inspect(fd.Body, func(n ast.Node) bool {
			if _, isGo := n.(*ast.GoStmt); isGo {
				return false // not the pump
			}
			is, ok := n.(*ast.IfStmt)
			if !ok || is.Init == nil || firstFound {
				return true
			}
			if as, ok := is.Init.(*ast.AssignStmt); ok && len(as.Rhs) == 1 && strings.HasSuffix(nodeSrc(g, as.Rhs[0]), "clientStream.SendMsg(args)") {
				firstSendCond, firstFound = nodeSrc(g, is.Cond), true
			}
			return true
		})
	}
	if !firstFound {
		g.missing = append(g.missing, "first clientStream.SendMsg(args) in createConnHandler")
	}
	var sb strings.Builder
	sb.WriteString(genHeader)
	sb.WriteString("namespace Larking.Gen.Proxy\n\n")
	qs := make([]string, len(cases))
	for i, c := range cases {
		qs[i] = fmt.Sprintf("%q", c)
	}
	fmt.Fprintf(&sb, "/-- isStreamError: the switch's case values, what those cases return, what everything else returns. -/\ndef streamErrorCases : List String := [%s]\ndef streamErrorCaseResult : String := %q\ndef streamErrorDefault : String := %q\n\n", strings.Join(qs, ", "), caseRes, defRes)
	fmt.Fprintf(&sb, "/-- the upload pump half-closes the backend stream after its forwarding loop (reached also when the loop is never entered) / inside it. -/\ndef closeSendAfterLoop : Bool := %v\ndef closeSendInLoop : Bool := %v\n\n", closeAfterLoop, closeInLoop)
	fmt.Fprintf(&sb, "/-- the condition under which the error of the first forwarded SendMsg ends the call. -/\ndef firstSendErrorCond : String := %q\n\n", firstSendCond)
	sb.WriteString("end Larking.Gen.Proxy\n")
	facts["proxy"] = map[string]interface{}{"streamErrorCases": cases, "caseResult": caseRes, "default": defRes, "closeSendAfterLoop": closeAfterLoop}
	return writeIfChanged(filepath.Join(lean, "Larking/Gen/Proxy.lean"), sb.String())
}
