package main

import (
	"context"
	"fmt"
	"sync"

	"google.golang.org/grpc"
	"google.golang.org/grpc/stats"
)

// recStats is a stats.Handler that records the event kinds per RPC.
type recStats struct {
	mu     sync.Mutex
	events []string
	tagged int
	endErr []error
	lens   []int
}

type statsKey struct{}

func (s *recStats) TagRPC(ctx context.Context, info *stats.RPCTagInfo) context.Context {
	s.mu.Lock()
	s.tagged++
	s.events = append(s.events, "tag:"+info.FullMethodName)
	s.mu.Unlock()
	return context.WithValue(ctx, statsKey{}, info.FullMethodName)
}

func (s *recStats) HandleRPC(ctx context.Context, st stats.RPCStats) {
	s.mu.Lock()
	defer s.mu.Unlock()
	tagged := ctx.Value(statsKey{}) != nil
	t := ""
	if !tagged {
		t = "(untagged-ctx)"
	}
	if st.IsClient() {
		t += "(client-side!)"
	}
	switch e := st.(type) {
	case *stats.InHeader:
		s.events = append(s.events, "inHeader"+t)
	case *stats.Begin:
		s.events = append(s.events, fmt.Sprintf("begin[%v,%v]%s", e.IsClientStream, e.IsServerStream, t))
	case *stats.InPayload:
		s.events = append(s.events, fmt.Sprintf("inPayload%s", t))
		s.lens = append(s.lens, e.Length)
	case *stats.OutHeader:
		s.events = append(s.events, "outHeader"+t)
	case *stats.OutPayload:
		s.events = append(s.events, fmt.Sprintf("outPayload%s", t))
		s.lens = append(s.lens, e.Length)
	case *stats.OutTrailer:
		s.events = append(s.events, "outTrailer"+t)
	case *stats.End:
		s.events = append(s.events, "end"+t)
		s.endErr = append(s.endErr, e.Error)
	default:
		s.events = append(s.events, fmt.Sprintf("%T", st))
	}
}

func (s *recStats) TagConn(ctx context.Context, _ *stats.ConnTagInfo) context.Context { return ctx }
func (s *recStats) HandleConn(context.Context, stats.ConnStats)                       {}

func (s *recStats) Reset() {
	s.mu.Lock()
	s.events, s.tagged, s.endErr, s.lens = nil, 0, nil, nil
	s.mu.Unlock()
}

func (s *recStats) Snapshot() (events []string, endErr []error) {
	s.mu.Lock()
	defer s.mu.Unlock()
	return append([]string(nil), s.events...), append([]error(nil), s.endErr...)
}

// recInterceptors counts interceptor invocations.
type recInterceptors struct {
	mu     sync.Mutex
	unary  []string
	stream []string
	// what the interceptor returns instead of the handler's result (nil = pass through)
	Transform    func(resp interface{}, err error) (interface{}, error)
	TransformErr func(err error) error
}

func (ri *recInterceptors) Unary(ctx context.Context, req interface{}, info *grpc.UnaryServerInfo, handler grpc.UnaryHandler) (interface{}, error) {
	ri.mu.Lock()
	ri.unary = append(ri.unary, info.FullMethod)
	tr := ri.Transform
	ri.mu.Unlock()
	resp, err := handler(ctx, req)
	if tr != nil {
		return tr(resp, err)
	}
	return resp, err
}

func (ri *recInterceptors) Stream(srv interface{}, ss grpc.ServerStream, info *grpc.StreamServerInfo, handler grpc.StreamHandler) error {
	ri.mu.Lock()
	ri.stream = append(ri.stream, fmt.Sprintf("%s[%v,%v]", info.FullMethod, info.IsClientStream, info.IsServerStream))
	tr := ri.TransformErr
	ri.mu.Unlock()
	err := handler(srv, ss)
	if tr != nil {
		return tr(err)
	}
	return err
}

func (ri *recInterceptors) Reset() {
	ri.mu.Lock()
	ri.unary, ri.stream = nil, nil
	ri.mu.Unlock()
}
