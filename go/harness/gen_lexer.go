package main

import (
	"fmt"
	"path/filepath"
	"strings"

	"larking.io/larking"
)

func init() { genSteps = append(genSteps, genLexer) }

// documented path characters (lexer.go token comments and api/test.proto): the translator
// records what the compiled predicates say about each of them and about the separators.
func genLexer(g *genCtx, lean string, facts map[string]interface{}) error {
	cap := larking.VerifTokenCap()
	probe := "abcxyzABCXYZ0123456789-_.~!$&'()*+,;=@:/{}%? #\"<>[]\\^`|"
	var rows []string
	for _, r := range probe {
		fl := 0
		if larking.VerifIsIdent(r) {
			fl |= 2
		}
		if larking.VerifIsLiteral(r) {
			fl |= 4
		}
		if larking.VerifIsPath(r) {
			fl |= 8
		}
		rows = append(rows, fmt.Sprintf("(%d, %d)", r, fl))
	}
	facts["tokenCap"] = cap
	var sb strings.Builder
	sb.WriteString(genHeader)
	sb.WriteString("namespace Larking.Gen\n\n")
	fmt.Fprintf(&sb, "/-- `len(lexer.toks)`: the fixed token array. -/\ndef tokenCap : Nat := %d\n\n", cap)
	fmt.Fprintf(&sb, "/-- what `isIdent` (2), `isLiteral` (4), `isPath` (8) answer for ASCII probes: (code point, flags). -/\ndef charClasses : List (Nat × Nat) := [%s]\n\n", strings.Join(rows, ", "))
	sb.WriteString("end Larking.Gen\n")
	return writeIfChanged(filepath.Join(lean, "Larking/Gen/Lexer.lean"), sb.String())
}
