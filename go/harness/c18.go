package main

import (
	"bufio"
	"bytes"
	"context"
	"encoding/base64"
	"errors"
	"fmt"
	"io"
	"net"
	"net/http/httptest"
	"sort"
	"strings"
	"time"

	"github.com/gobwas/ws"
	"github.com/gobwas/ws/wsutil"
	"google.golang.org/genproto/googleapis/api/annotations"
	spb "google.golang.org/genproto/googleapis/rpc/status"
	"google.golang.org/grpc"
	"google.golang.org/grpc/codes"
	"google.golang.org/grpc/metadata"
	"google.golang.org/grpc/reflection"
	rpb "google.golang.org/grpc/reflection/grpc_reflection_v1alpha"
	"google.golang.org/grpc/status"
	"google.golang.org/protobuf/encoding/protojson"
	"google.golang.org/protobuf/proto"
	"google.golang.org/protobuf/reflect/protoreflect"
	"google.golang.org/protobuf/types/dynamicpb"
	"google.golang.org/protobuf/types/known/wrapperspb"
	"larking.io/larking"
)

func init() {
	props["C18"] = runC18
}

// The handlers are scripted by the request itself:
//   name = "ok" | "fail-before" | "fail-after" ; i32 = number of replies (server streams).

var c18Plain = errors.New("plain failure, not a status")

var c18Err = status.Error(codes.PermissionDenied, "boom ✓")

// set by c18Edges: builds a google.api.HttpBody of the fixture it probes
var c18HttpBody func(data []byte) proto.Message

func c18Specs(svc string, withRules bool) []*MethodSpec {
	str := func(m protoreflect.Message, f string) string {
		return m.Get(m.Descriptor().Fields().ByName(protoreflect.Name(f))).String()
	}
	reply := func(fx *Fixture, text string) *dynamicpb.Message {
		r := fx.NewMsg("Reply")
		r.Set(r.Descriptor().Fields().ByName("text"), protoreflect.ValueOfString(text))
		return r
	}
	unary := func(ctx context.Context, in *dynamicpb.Message) (proto.Message, error) {
		grpc.SetHeader(ctx, metadata.Pairs("x-c18-h", "hv"))  //nolint
		grpc.SetTrailer(ctx, metadata.Pairs("x-c18-t", "tv")) //nolint
		if str(in, "name") == "slow" {
			select {
			case <-ctx.Done():
			case <-time.After(2 * time.Second):
			}
			return nil, c18Err // not the context's own status: End must carry THIS error
		}
		switch str(in, "name") {
		case "failplain": // an error that is not a gRPC status
			return nil, c18Plain
		case "faileof": // a sentinel a careless handler passes on
			return nil, io.EOF
		case "failcanceled":
			return nil, context.Canceled
		}
		if strings.HasPrefix(str(in, "name"), "fail") {
			return nil, c18Err
		}
		r := dynamicpb.NewMessage(in.Descriptor().ParentFile().Messages().ByName("Reply"))
		r.Set(r.Descriptor().Fields().ByName("text"), protoreflect.ValueOfString("u:"+str(in, "name")))
		return r, nil
	}
	ss := func(fx *Fixture, ms *MethodSpec, st grpc.ServerStream) error {
		in := fx.NewMsg("Req")
		if err := st.RecvMsg(in); err != nil {
			return err
		}
		mode := str(in, "name")
		if mode == "fail-before" {
			return c18Err
		}
		n := int(in.Get(in.Descriptor().Fields().ByName("i32")).Int())
		for i := 0; i < n; i++ {
			if err := st.SendMsg(reply(fx, fmt.Sprintf("s%d", i))); err != nil {
				return err
			}
		}
		if mode == "fail-after" {
			return c18Err
		}
		return nil
	}
	cs := func(fx *Fixture, ms *MethodSpec, st grpc.ServerStream) error {
		n, mode := 0, "ok"
		for {
			in := fx.NewMsg("Req")
			err := st.RecvMsg(in)
			if err == io.EOF {
				break
			}
			if err != nil {
				return err
			}
			if n == 0 {
				mode = str(in, "name")
			}
			n++
		}
		if strings.HasPrefix(mode, "fail") {
			return c18Err
		}
		return st.SendMsg(reply(fx, fmt.Sprintf("c%d", n)))
	}
	bd := func(fx *Fixture, ms *MethodSpec, st grpc.ServerStream) error {
		for {
			in := fx.NewMsg("Req")
			err := st.RecvMsg(in)
			if err == io.EOF {
				return nil
			}
			if err != nil {
				if strings.Contains(err.Error(), "close") { // websocket close frame
					return nil
				}
				return err
			}
			if str(in, "name") == "fail-before" {
				return c18Err
			}
			if err := st.SendMsg(reply(fx, "b:"+str(in, "other_name"))); err != nil {
				return err
			}
			if str(in, "name") == "fail-after" {
				return c18Err
			}
		}
	}
	specs := []*MethodSpec{
		{Service: svc, Name: "U", In: "Req", Out: "Reply", Unary: unary},
		{Service: svc, Name: "G", In: "Req", Out: "Reply", Unary: unary},
		{Service: svc, Name: "SS", In: "Req", Out: "Reply", ServerStream: true, Stream: ss},
		{Service: svc, Name: "CS", In: "Req", Out: "Reply", ClientStream: true, Stream: cs},
		{Service: svc, Name: "BD", In: "Req", Out: "Reply", ClientStream: true, ServerStream: true, Stream: bd},
		// a reply that is a google.api.HttpBody: written as raw bytes over HTTP, still one sent message
		{Service: svc, Name: "HB", In: "Req", Out: "google.api.HttpBody", Unary: func(ctx context.Context, in *dynamicpb.Message) (proto.Message, error) {
			if c18HttpBody == nil {
				return nil, status.Error(codes.Internal, "no HttpBody constructor")
			}
			n := int(in.Get(in.Descriptor().Fields().ByName("i32")).Int())
			return c18HttpBody(bytes.Repeat([]byte{'d'}, n)), nil
		}},
		// an upload: the body is a google.api.HttpBody field, read chunk by chunk
		{Service: svc, Name: "UP", In: "Req", Out: "Reply", ClientStream: true, Stream: cs},
	}
	if withRules {
		specs[6].Rule = postRule("/c18/up/{name}", "file")
		specs[0].Rule = postRule("/c18/u", "*")
		specs[1].Rule = getRule("/c18/g/{name}")
		specs[2].Rule = postRule("/c18/ss", "*")
		// a WebSocket binding WITHOUT a body: the request message comes from the URL alone
		specs[2].Rule.AdditionalBindings = []*annotations.HttpRule{customRule("WEBSOCKET", "/c18/wss/{name}", "")}
		specs[3].Rule = postRule("/c18/cs", "*")
		specs[4].Rule = customRule("WEBSOCKET", "/c18/ws", "*")
		specs[5].Rule = getRule("/c18/hb/{i32}")
	}
	return specs
}

type c18Env struct {
	fx   *Fixture
	st   *recStats
	ri   *recInterceptors
	gcc  *grpc.ClientConn
	opts string
}

type c18Outcome struct {
	code    string
	msg     string
	replies []string
}

func (o c18Outcome) String() string {
	return fmt.Sprintf("%s %q %v", o.code, o.msg, o.replies)
}

// c18Case: one RPC
type c18Case struct {
	proto_ string // http | grpc | web | ws
	svc    string // Svc | Back
	method string
	mode   string // ok | fail-before | fail-after
	n      int    // messages sent by the client (CS, BD) or replies (SS)
}

func (c c18Case) String() string {
	return fmt.Sprintf("%s %s/%s mode=%s n=%d", c.proto_, c.svc, c.method, c.mode, c.n)
}

func (cs c18Case) flags() (bool, bool) {
	switch cs.method {
	case "SS":
		return false, true
	case "CS":
		return true, false
	case "BD":
		return true, true
	}
	return false, false
}

// expected numbers of messages the handler receives / sends successfully, and its error.
func (cs c18Case) script() (recv, send int, failed bool) {
	failed = cs.mode != "ok" && cs.mode != "empty"
	switch cs.method {
	case "U", "G":
		recv = 1
		if !failed {
			send = 1
		}
	case "SS":
		recv = 1
		if cs.mode != "fail-before" {
			send = cs.n
		}
	case "CS":
		recv = cs.n
		if !failed {
			send = 1
		}
	case "BD":
		recv, send = cs.n, cs.n
		if cs.mode == "fail-before" {
			send = cs.n - 1
		}
	}
	return
}

func c18Req(fx *Fixture, name, other string, n int) *dynamicpb.Message {
	m := fx.NewMsg("Req")
	fs := m.Descriptor().Fields()
	m.Set(fs.ByName("name"), protoreflect.ValueOfString(name))
	if other != "" {
		m.Set(fs.ByName("other_name"), protoreflect.ValueOfString(other))
	}
	if n != 0 {
		m.Set(fs.ByName("i32"), protoreflect.ValueOfInt32(int32(n)))
	}
	return m
}

func replyText(m protoreflect.Message) string {
	return m.Get(m.Descriptor().Fields().ByName("text")).String()
}

// run performs the RPC and returns what the client observed.
func (e *c18Env) run(cs c18Case) (out c18Outcome, runErr string) {
	fx := e.fx
	full := "/" + fxPkg + "." + cs.svc + "/" + cs.method
	// client messages: the failing instruction travels in the last message for BD, the first otherwise
	msgs := func() []*dynamicpb.Message {
		var l []*dynamicpb.Message
		k := cs.n
		if cs.method == "U" || cs.method == "G" || cs.method == "SS" {
			k = 1
		}
		for i := 0; i < k; i++ {
			name := "ok"
			if cs.mode != "ok" && ((cs.method == "BD" && i == k-1) || (cs.method != "BD" && i == 0)) {
				name = cs.mode
			}
			if cs.mode == "empty" { // messages whose encoding is zero bytes long
				l = append(l, fx.NewMsg("Req"))
				continue
			}
			l = append(l, c18Req(fx, name, fmt.Sprint("m", i), cs.n))
		}
		return l
	}()
	switch cs.proto_ {
	case "grpc":
		ctx, cancel := context.WithTimeout(context.Background(), 5*time.Second)
		defer cancel()
		c, s := cs.flags()
		if !c && !s {
			o := fx.NewMsg("Reply")
			var hmd, tmd metadata.MD
			err := e.gcc.Invoke(ctx, full, msgs[0], o, grpc.Header(&hmd), grpc.Trailer(&tmd))
			out.code, out.msg = status.Code(err).String(), status.Convert(err).Message()+c18Details(err)
			if err == nil {
				out.replies = []string{replyText(o)}
			}
			out.replies = append(out.replies, fmt.Sprintf("hdr %v trailer %v", hmd.Get("x-c18-h"), tmd.Get("x-c18-t")))
			return
		}
		st, err := e.gcc.NewStream(ctx, &grpc.StreamDesc{ClientStreams: c, ServerStreams: s}, full)
		if err != nil {
			return out, err.Error()
		}
		var ferr error
		if cs.method == "BD" {
			for _, m := range msgs {
				if err := st.SendMsg(m); err != nil {
					break
				}
				o := fx.NewMsg("Reply")
				if err := st.RecvMsg(o); err != nil {
					ferr = err
					break
				}
				out.replies = append(out.replies, replyText(o))
			}
			st.CloseSend()
			for ferr == nil {
				o := fx.NewMsg("Reply")
				if err := st.RecvMsg(o); err != nil {
					ferr = err
					break
				}
				out.replies = append(out.replies, replyText(o))
			}
		} else {
			for _, m := range msgs {
				st.SendMsg(m) //nolint
			}
			st.CloseSend()
			for {
				o := fx.NewMsg("Reply")
				if err := st.RecvMsg(o); err != nil {
					ferr = err
					break
				}
				out.replies = append(out.replies, replyText(o))
			}
		}
		if ferr == io.EOF {
			ferr = nil
		}
		out.code, out.msg = status.Code(ferr).String(), status.Convert(ferr).Message()+c18Details(ferr)
		return
	case "http":
		var r = httptest.NewRequest("GET", "/c18/g/"+cs.mode, nil)
		if cs.method != "G" {
			var body []byte
			for _, m := range msgs {
				b, _ := protojson.Marshal(m)
				body = append(body, b...)
			}
			path := map[string]string{"U": "/c18/u", "SS": "/c18/ss", "CS": "/c18/cs"}[cs.method]
			if cs.svc == "Back" {
				path = full
			}
			r = httptest.NewRequest("POST", path, bytes.NewReader(body))
			r.Header.Set("Content-Type", "application/json")
		} else if cs.svc == "Back" {
			return out, "skip"
		}
		rec, pn := serveOn(fx.Mux, r)
		if pn != nil {
			return out, fmt.Sprint("panic: ", pn)
		}
		out.code = fmt.Sprint(rec.Code)
		for k, v := range rec.Result().Header { // committed headers: handler metadata is part of the outcome
			if strings.Contains(strings.ToLower(k), "x-c18") {
				out.replies = append(out.replies, "hdr "+strings.ToLower(k)+"="+strings.Join(v, ","))
			}
		}
		sort.Strings(out.replies)
		// the body is a sequence of JSON objects: replies, possibly followed by an error object
		dec := rec.Body.Bytes()
		for _, obj := range splitJSONObjects(dec) {
			o := fx.NewMsg("Reply")
			if err := protojson.Unmarshal(obj, o); err == nil && (replyText(o) != "" || string(obj) == "{}") {
				out.replies = append(out.replies, replyText(o))
				continue
			}
			out.msg = string(obj)
		}
		return
	case "web":
		var body []byte
		for _, m := range msgs {
			b, _ := proto.Marshal(m)
			body = append(body, grpcFrame(0, b)...)
		}
		r := httptest.NewRequest("POST", full, bytes.NewReader(body))
		r.Header.Set("Content-Type", "application/grpc-web+proto")
		rec, pn := serveOn(fx.Mux, r)
		if pn != nil {
			return out, fmt.Sprint("panic: ", pn)
		}
		frames, flags, _ := parseFrames(rec.Body.Bytes())
		out.code = rec.Header().Get("Grpc-Status")
		out.msg = rec.Header().Get("Grpc-Message")
		webDetails := rec.Header().Get("Grpc-Status-Details-Bin")
		defer func() { out.msg += c18WebDetails(webDetails) }()
		for i, f := range frames {
			if flags[i]&0x80 != 0 {
				for _, line := range strings.Split(string(f), "\r\n") {
					k, v, _ := strings.Cut(line, ":")
					switch strings.ToLower(strings.TrimSpace(k)) {
					case "grpc-status":
						out.code = strings.TrimSpace(v)
					case "grpc-message":
						out.msg = strings.TrimSpace(v)
					case "grpc-status-details-bin":
						webDetails = strings.TrimSpace(v)
					}
				}
				continue
			}
			o := fx.NewMsg("Reply")
			proto.Unmarshal(f, o) //nolint
			out.replies = append(out.replies, replyText(o))
		}
		return
	case "ws":
		url := "ws" + strings.TrimPrefix(fx.HTTPServer().URL, "http") + "/c18/ws"
		ctx, cancel := context.WithTimeout(context.Background(), 5*time.Second)
		defer cancel()
		conn, _, _, err := ws.Dial(ctx, url)
		if err != nil {
			return out, err.Error()
		}
		defer conn.Close()
		conn.SetDeadline(time.Now().Add(5 * time.Second))
		closed := false
		for _, m := range msgs {
			b, _ := protojson.Marshal(m)
			if err := wsutil.WriteClientMessage(conn, ws.OpText, b); err != nil {
				break
			}
			hdr, err := ws.ReadHeader(conn)
			if err != nil {
				return out, err.Error()
			}
			payload := make([]byte, hdr.Length)
			io.ReadFull(conn, payload) //nolint
			if hdr.OpCode == ws.OpClose {
				code, reason := ws.ParseCloseFrameData(payload)
				out.code, out.msg = fmt.Sprint(int(code)), reason
				closed = true
				break
			}
			o := fx.NewMsg("Reply")
			protojson.Unmarshal(payload, o) //nolint
			out.replies = append(out.replies, replyText(o))
		}
		if !closed {
			wsutil.WriteClientMessage(conn, ws.OpClose, ws.NewCloseFrameBody(ws.StatusNormalClosure, "")) //nolint
			for {
				hdr, err := ws.ReadHeader(conn)
				if err != nil {
					return out, err.Error()
				}
				payload := make([]byte, hdr.Length)
				io.ReadFull(conn, payload) //nolint
				if hdr.OpCode == ws.OpClose {
					code, reason := ws.ParseCloseFrameData(payload)
					out.code, out.msg = fmt.Sprint(int(code)), reason
					break
				}
				o := fx.NewMsg("Reply")
				protojson.Unmarshal(payload, o) //nolint
				out.replies = append(out.replies, replyText(o))
			}
		}
		time.Sleep(5 * time.Millisecond) // let the server side finish its bookkeeping
		return
	}
	return out, "unknown protocol"
}

func splitJSONObjects(b []byte) [][]byte {
	var out [][]byte
	depth, start, inStr, esc := 0, -1, false, false
	for i, c := range b {
		switch {
		case esc:
			esc = false
		case inStr:
			if c == '\\' {
				esc = true
			} else if c == '"' {
				inStr = false
			}
		case c == '"':
			inStr = true
		case c == '{':
			if depth == 0 {
				start = i
			}
			depth++
		case c == '}':
			depth--
			if depth == 0 && start >= 0 {
				out = append(out, b[start:i+1])
				start = -1
			}
		}
	}
	return out
}

func newC18Env(opts string, back *grpc.ClientConn) (*c18Env, error) {
	e := &c18Env{st: &recStats{}, ri: &recInterceptors{}, opts: opts}
	var mo []larking.MuxOption
	if strings.Contains(opts, "stats") {
		mo = append(mo, larking.StatsOption(e.st))
	}
	if strings.Contains(opts, "icept") {
		mo = append(mo, larking.UnaryServerInterceptorOption(e.ri.Unary), larking.StreamServerInterceptorOption(e.ri.Stream))
	}
	fx, err := NewFixture(c18Specs("Svc", true), nil, mo...)
	if err != nil {
		return nil, err
	}
	if fx.RegErr != nil || fx.RegPanic != nil {
		return nil, fmt.Errorf("registration %v %v", fx.RegErr, fx.RegPanic)
	}
	ctx, cancel := context.WithTimeout(context.Background(), 5*time.Second)
	defer cancel()
	if err := fx.Mux.RegisterConn(ctx, back); err != nil {
		return nil, err
	}
	e.fx = fx
	e.gcc, err = fx.GRPC()
	return e, err
}

func runC18(c *Ctx) {
	c.Rule("every protocol (HTTP/JSON transcoding incl. a body-less GET, gRPC through a real h2c server, gRPC-web frames, WebSocket) x local (RegisterService) and proxied (RegisterConn) methods x unary / server / client / bidi streams x handler outcomes (ok, error before any reply, error after replies) x message counts 0..4, run on six muxes: no options, recording interceptors, interceptors that replace the result by an error, a unary interceptor that returns another reply object, a recording stats handler, both. Checked per RPC: the interceptor of the right kind ran exactly once with the full method name and the method's streaming flags; the stats events of that RPC are tag, in-header, begin[flags], then one in-payload per message the handler received and one out-payload per message it sent (out-header before the first), out-trailer, and exactly one end, last, carrying the handler's error, all server-side; the client-visible outcome is the same with and without options, and with a replacing interceptor it is the interceptor's result. The event list is also compared with the Lean model of the serving paths. Non-trivial: every case; distinct by case+options.")
	// the backend
	fixtureDeferRegistration = true
	backFx, err := NewFixture(c18Specs("Back", false), nil)
	fixtureDeferRegistration = false
	if err != nil {
		c.SpecFail("fixture", "c18", err.Error(), "", "C18/fixture", "fixture")
		return
	}
	gs := grpc.NewServer()
	for _, sd := range backFx.ServiceDescs() {
		gs.RegisterService(sd, nil)
	}
	rpb.RegisterServerReflectionServer(gs, reflection.NewServer(reflection.ServerOptions{Services: gs, DescriptorResolver: backFx.Files}))
	blis, _ := net.Listen("tcp", "127.0.0.1:0")
	go gs.Serve(blis) //nolint
	defer gs.Stop()
	bcc, _ := grpc.NewClient(blis.Addr().String(), grpcInsecure())
	defer bcc.Close()

	envs := map[string]*c18Env{}
	for _, o := range []string{"none", "icept", "icept-replace", "icept-rewrite", "stats", "stats+icept"} {
		e, err := newC18Env(o, bcc)
		if err != nil {
			c.SpecFail("fixture", "c18 "+o, err.Error(), "", "C18/fixture", "fixture")
			return
		}
		defer e.fx.Close()
		envs[o] = e
	}
	// exactly ONE detail: the most common shape of a rich error (and the boundary of any "> n" guard)
	replacedSt, derr := status.New(codes.AlreadyExists, "interceptor says no").WithDetails(wrapperspb.String("c18-detail"))
	if derr != nil {
		c.SpecFail("fixture", "c18 details", derr.Error(), "a status with one detail", "C18/fixture", "fixture")
		return
	}
	replaced := replacedSt.Err()
	envs["icept-replace"].ri.Transform = func(resp interface{}, err error) (interface{}, error) { return nil, replaced }
	envs["icept-replace"].ri.TransformErr = func(err error) error { return replaced }
	// … and one that answers a successful unary call with ANOTHER message object (a rewritten copy)
	envs["icept-rewrite"].ri.Transform = func(resp interface{}, err error) (interface{}, error) {
		pm, ok := resp.(proto.Message)
		if err != nil || !ok || pm == nil {
			return resp, err
		}
		cp := proto.Clone(pm)
		if fd := cp.ProtoReflect().Descriptor().Fields().ByName("text"); fd != nil && fd.Kind() == protoreflect.StringKind {
			cp.ProtoReflect().Set(fd, protoreflect.ValueOfString("rewritten:"+cp.ProtoReflect().Get(fd).String()))
		}
		return cp, nil
	}

	var cases []c18Case
	for _, p := range []string{"http", "grpc", "web", "ws"} {
		for _, svc := range []string{"Svc", "Back"} {
			for _, m := range []string{"U", "G", "SS", "CS", "BD"} {
				for _, mode := range []string{"ok", "fail-before", "fail-after", "empty"} {
					for _, n := range []int{0, 1, 2, 4} {
						switch {
						case p == "ws" && (m != "BD" || svc != "Svc"):
							continue
						case p == "http" && m == "BD":
							continue
						case p == "web" && (m == "CS" || m == "BD"):
							continue
						case (m == "U" || m == "G") && (n != 1 || mode == "fail-after"):
							continue
						case mode == "empty" && (m == "G" || m == "SS" || p == "ws" || n == 0):
							continue
						case m == "G" && p != "http":
							continue
						case m == "CS" && (n == 0 && mode != "ok" || mode == "fail-after"):
							continue
						case m == "BD" && n == 0 && mode != "ok":
							continue
						case m == "SS" && mode == "fail-before" && n != 1:
							continue
						}
						cases = append(cases, c18Case{p, svc, m, mode, n})
					}
				}
			}
		}
	}
	c18Edges(c, envs["stats"])
	c18Edges(c, envs["stats+icept"])
	rounds := c.N(1, 6)
	for round := 0; round < rounds; round++ {
		for _, cs := range cases {
			outs := map[string]c18Outcome{}
			skip := false
			for _, o := range []string{"none", "icept", "stats", "stats+icept", "icept-replace", "icept-rewrite"} {
				e := envs[o]
				e.st.Reset()
				e.ri.Reset()
				out, rerr := e.run(cs)
				if rerr == "skip" {
					skip = true
					break
				}
				in := cs.String() + " options=" + o
				c.Eval("rpc", in, true)
				c.Class(cs.proto_ + ":" + cs.method + ":" + cs.mode)
				if rerr != "" {
					c.SpecFail("rpc", in, rerr, "a result", "C18/"+cs.proto_+"/run-failed", "the RPC could not be carried out")
					continue
				}
				outs[o] = out
				full := "/" + fxPkg + "." + cs.svc + "/" + cs.method
				cstream, sstream := cs.flags()
				// ---- interceptors
				if strings.Contains(o, "icept") {
					e.ri.mu.Lock()
					un, sn := append([]string(nil), e.ri.unary...), append([]string(nil), e.ri.stream...)
					e.ri.mu.Unlock()
					wantU, wantS := []string{full}, []string(nil)
					if cstream || sstream {
						wantU, wantS = nil, []string{fmt.Sprintf("%s[%v,%v]", full, cstream, sstream)}
					}
					if strings.Join(un, ",") != strings.Join(wantU, ",") || strings.Join(sn, ",") != strings.Join(wantS, ",") {
						c.SpecFail("interceptor", in, fmt.Sprintf("unary=%v stream=%v", un, sn), fmt.Sprintf("unary=%v stream=%v", wantU, wantS), "C18/"+cs.proto_+"/interceptor-calls/"+cs.method, "the interceptor did not run exactly once with the method's name and flags")
					}
				}
				// ---- stats
				if strings.Contains(o, "stats") {
					evs, endErr := e.st.Snapshot()
					recv, send, failed := cs.script()
					if cs.proto_ == "http" && cs.method == "CS" && cs.n == 0 {
						recv = 1 // an empty HTTP body still delivers the message built from the URL
					}
					if why := c18Grammar(evs, endErr, full, cstream, sstream, recv, send, failed); why != "" {
						c.SpecFail("stats", in, strings.Join(evs, " ")+" | end errors: "+fmt.Sprint(endErr), why, "C18/"+cs.proto_+"/stats/"+c18Key(why), "the stats handler did not observe a well-formed event sequence for the RPC")
					}
					// the Lean model of the serving path
					if c.Drv != nil {
						var norm []string
						for _, ev := range evs {
							ev = strings.ReplaceAll(ev, "(client-side!)", "")
							if strings.HasPrefix(ev, "tag:") {
								ev = "tag"
							}
							if strings.HasPrefix(ev, "begin") {
								ev = "begin"
							}
							norm = append(norm, ev)
						}
						endS := "none"
						if len(endErr) > 0 {
							endS = "ok"
							if endErr[len(endErr)-1] != nil {
								endS = "err"
							}
						}
						fails := "0"
						if failed {
							fails = "1"
						}
						body := "1"
						if cs.method == "G" {
							body = "0"
						}
						line := join("events", cs.proto_, fmt.Sprint(recv), fmt.Sprint(send), fails, body, fmt.Sprint(cstream), fmt.Sprint(sstream))
						impl := strings.Join(norm, ",") + "|" + endS
						if cs.svc == "Back" && cstream {
							// the RegisterConn forwarder receives (its upload pump) and sends (its reply loop) on two
							// goroutines: the relative order of in- and out-payload events is the scheduler's. Both
							// sides are compared with the payload events in a canonical order (counts and the rest
							// of the sequence still have to agree; the grammar above judged the order rules).
							model := c.Drv.Ask(line)
							c.count("events", line, true)
							c.res.Corresponded++
							if c18CanonPayloads(model) != c18CanonPayloads(impl) {
								c.res.NDisagree++
								if len(c.res.Disagree) < 25 {
									c.res.Disagree = append(c.res.Disagree, Case{Kind: "events", Input: line, Impl: impl, Model: model})
								}
							}
						} else {
							c.Correspond("events", line, impl, true)
						}
					}
				}
			}
			if skip {
				continue
			}
			// ---- options never change the outcome
			base := outs["none"]
			for _, o := range []string{"icept", "stats", "stats+icept"} {
				if got, ok := outs[o]; ok && got.String() != base.String() {
					c.SpecFail("outcome", cs.String(), o+": "+got.String(), "as without options: "+base.String(), "C18/"+cs.proto_+"/options-change-outcome/"+o, "installing interceptors / a stats handler changed what the client gets")
				}
			}
			// ---- a unary interceptor that returns another message object: the client gets THAT message
			if got, ok := outs["icept-rewrite"]; ok && (cs.method == "U" || cs.method == "G") && cs.mode == "ok" {
				if !strings.Contains(strings.Join(got.replies, " "), "rewritten:") {
					c.SpecFail("outcome", cs.String()+" options=icept-rewrite", got.String(), "the reply the interceptor returned (text rewritten:…)", "C18/"+cs.proto_+"/interceptor-reply-ignored/"+cs.svc, "the client got the handler's reply, not the message the unary interceptor returned")
				}
			}
			// ---- what the interceptor returns is what the client gets
			// (a WebSocket client that has closed first cannot be told anything any more)
			if got, ok := outs["icept-replace"]; ok && !(cs.proto_ == "ws" && cs.mode == "ok") {
				if !strings.Contains(got.code+got.msg, "AlreadyExists") && !strings.Contains(got.code+" "+got.msg, "interceptor says no") && got.code != "6" && got.code != "409" {
					c.SpecFail("outcome", cs.String()+" options=icept-replace", got.String(), "the interceptor's AlreadyExists error", "C18/"+cs.proto_+"/interceptor-result-ignored/"+cs.method, "the client did not get what the interceptor returned")
				}
				if (cs.proto_ == "grpc" || cs.proto_ == "web") && !strings.Contains(got.msg, " details=1") {
					c.SpecFail("outcome", cs.String()+" options=icept-replace", got.String(), "the interceptor's status with its one detail (details=1)", "C18/"+cs.proto_+"/interceptor-status-details-lost/"+cs.method, "the client got the interceptor's code and message but not the detail the status carries")
				}
			}
		}
	}
}

// c18Edges: paths that leave the serving function early after the RPC has begun.
func c18Edges(c *Ctx, e *c18Env) {
	fx := e.fx
	type edge struct {
		name string
		do   func()
		full string
	}
	edges := []edge{
		{"http: gzip request body that is not gzip", func() {
			r := httptest.NewRequest("POST", "/c18/u", bytes.NewReader([]byte("{}")))
			r.Header.Set("Content-Type", "application/json")
			r.Header.Set("Content-Encoding", "gzip")
			serveOn(fx.Mux, r)
		}, "/" + fxPkg + ".Svc/U"},
		{"websocket: upgrade request without a key", func() {
			r := httptest.NewRequest("GET", "/c18/ws", nil)
			r.Header.Set("Upgrade", "websocket")
			r.Header.Set("Connection", "Upgrade")
			serveOn(fx.Mux, r)
		}, "/" + fxPkg + ".Svc/BD"},
		{"grpc: the deadline passes before the handler answers", func() {
			ctx, cancel := context.WithTimeout(context.Background(), 60*time.Millisecond)
			defer cancel()
			e.gcc.Invoke(ctx, "/"+fxPkg+".Svc/U", c18Req(fx, "slow", "", 0), fx.NewMsg("Reply")) //nolint
			time.Sleep(150 * time.Millisecond)
		}, "/" + fxPkg + ".Svc/U"},
		{"grpc-web: the deadline passes before the handler answers", func() {
			b, _ := proto.Marshal(c18Req(fx, "slow", "", 0))
			r := httptest.NewRequest("POST", "/"+fxPkg+".Svc/U", bytes.NewReader(grpcFrame(0, b)))
			r.Header.Set("Content-Type", "application/grpc-web+proto")
			r.Header.Set("Grpc-Timeout", "50m")
			serveOn(fx.Mux, r)
		}, "/" + fxPkg + ".Svc/U"},
		{"grpc-web: a malformed grpc-timeout header", func() {
			b, _ := proto.Marshal(c18Req(fx, "ok", "", 0))
			r := httptest.NewRequest("POST", "/"+fxPkg+".Svc/U", bytes.NewReader(grpcFrame(0, b)))
			r.Header.Set("Content-Type", "application/grpc-web+proto")
			r.Header.Set("Grpc-Timeout", "soon")
			serveOn(fx.Mux, r)
		}, "/" + fxPkg + ".Svc/U"},
		{"grpc: a malformed grpc-timeout header (unit missing)", func() {
			b, _ := proto.Marshal(c18Req(fx, "ok", "", 0))
			r := httptest.NewRequest("POST", "/"+fxPkg+".Svc/U", bytes.NewReader(grpcFrame(0, b)))
			r.Header.Set("Content-Type", "application/grpc+proto")
			r.Header.Set("Grpc-Timeout", "123456789")
			r.ProtoMajor, r.ProtoMinor = 2, 0
			serveOn(fx.Mux, r)
		}, "/" + fxPkg + ".Svc/U"},
		{"grpc: the client goes away while the handler runs", func() {
			ctx, cancel := context.WithCancel(context.Background())
			go func() { time.Sleep(40 * time.Millisecond); cancel() }()
			e.gcc.Invoke(ctx, "/"+fxPkg+".Svc/U", c18Req(fx, "slow", "", 0), fx.NewMsg("Reply")) //nolint
			time.Sleep(150 * time.Millisecond)
		}, "/" + fxPkg + ".Svc/U"},
	}
	// WebSocket over an in-process pipe: the peer vanishes, the close frame cannot be written
	edges = append(edges, edge{"websocket: the peer vanishes before the close frame can be written", func() {
		srvConn, cliConn := net.Pipe()
		r := httptest.NewRequest("GET", "/c18/ws", nil)
		r.Header.Set("Upgrade", "websocket")
		r.Header.Set("Connection", "Upgrade")
		r.Header.Set("Sec-WebSocket-Key", "dGhlIHNhbXBsZSBub25jZQ==")
		r.Header.Set("Sec-WebSocket-Version", "13")
		done := make(chan struct{})
		go func() {
			serveOn(fx.Mux, r.WithContext(context.Background()), hijackRW{httptest.NewRecorder(), srvConn})
			close(done)
		}()
		br := bufio.NewReader(cliConn)
		cliConn.SetDeadline(time.Now().Add(3 * time.Second))
		for { // the handshake response
			line, err := br.ReadString('\n')
			if err != nil || line == "\r\n" {
				break
			}
		}
		b, _ := protojson.Marshal(c18Req(fx, "ok", "m0", 1))
		wsutil.WriteClientMessage(cliConn, ws.OpText, b) //nolint
		hdr, err := ws.ReadHeader(br)
		if err == nil {
			io.CopyN(io.Discard, br, hdr.Length) //nolint
		}
		cliConn.Close() // gone, without a close frame
		select {
		case <-done:
		case <-time.After(3 * time.Second):
		}
	}, "/" + fxPkg + ".Svc/BD"})
	// errors that are not plain status errors: End carries the handler's error itself, the client sees a failure
	for _, mode := range []struct {
		name string
		err  error
	}{{"failplain", c18Plain}, {"faileof", io.EOF}, {"failcanceled", context.Canceled}} {
		for _, tr := range []string{"application/grpc-web+proto", "application/grpc+proto"} {
			b, _ := proto.Marshal(c18Req(fx, mode.name, "", 0))
			r := httptest.NewRequest("POST", "/"+fxPkg+".Svc/U", bytes.NewReader(grpcFrame(0, b)))
			r.Header.Set("Content-Type", tr)
			if tr == "application/grpc+proto" {
				r.ProtoMajor, r.ProtoMinor = 2, 0
			}
			e.st.Reset()
			rec, pn := serveOn(fx.Mux, r)
			evs, endErrs := e.st.Snapshot()
			name := fmt.Sprintf("%s: the handler returns %v (%T)", tr, mode.err, mode.err)
			c.Eval("edge", name, true)
			c.Class("edge")
			if pn != nil || len(evs) == 0 {
				continue
			}
			if len(endErrs) != 1 || endErrs[0] != mode.err {
				c.SpecFail("stats", name, fmt.Sprintf("end carries %v", endErrs), fmt.Sprintf("the handler's error %v itself", mode.err), "C18/edge/end-error/not-the-handlers-error", "End does not carry the error the handler returned")
			}
			st := rec.Header().Get("Grpc-Status")
			if st == "" {
				st = rec.Result().Trailer.Get("Grpc-Status")
			}
			if i := strings.Index(rec.Body.String(), "grpc-status: "); i >= 0 {
				st = strings.SplitN(rec.Body.String()[i+13:], "\r", 2)[0]
			}
			if st == "0" || st == "" {
				c.SpecFail("stats", name, fmt.Sprintf("grpc-status %q", st), "a non-OK status", "C18/edge/handler-error-reported-ok", "what the handler (or interceptor) returned is not what the client gets: an error is reported as OK")
			}
		}
	}
	// a binding without a body mapping called with a request body: the message is still one in-payload
	for _, chunked := range []bool{false, true} {
		name := fmt.Sprintf("http: GET binding called with a request body (chunked=%v)", chunked)
		e.st.Reset()
		r := httptest.NewRequest("GET", "/c18/g/ok", strings.NewReader(`{"otherName":"ignored"}`))
		r.Header.Set("Content-Type", "application/json")
		if chunked {
			r.ContentLength = -1
		}
		rec, pn := serveOn(fx.Mux, r)
		evs, endErrs := e.st.Snapshot()
		c.Eval("edge", name, true)
		c.Class("edge")
		if pn == nil && rec.Code == 200 {
			if why := c18Grammar(evs, endErrs, "/"+fxPkg+".Svc/G", false, false, 1, 1, false); why != "" {
				c.SpecFail("stats", name, strings.Join(evs, " "), "tag in-header begin, one in-payload, one out-payload, end", "C18/edge/"+c18Key(why), why)
			}
		}
	}
	// a google.api.HttpBody reply over HTTP (raw bytes on the wire) is one sent message like any other
	c18HttpBody = func(data []byte) proto.Message {
		hb := fx.NewMsg("google.api.HttpBody")
		hb.Set(hb.Descriptor().Fields().ByName("content_type"), protoreflect.ValueOfString("application/x-c18"))
		hb.Set(hb.Descriptor().Fields().ByName("data"), protoreflect.ValueOfBytes(data))
		return hb
	}
	for _, n := range []int{0, 1, 4096} {
		name := fmt.Sprintf("http: google.api.HttpBody reply of %d bytes", n)
		e.st.Reset()
		rec, pn := serveOn(fx.Mux, httptest.NewRequest("GET", fmt.Sprintf("/c18/hb/%d", n), nil))
		evs, endErrs := e.st.Snapshot()
		c.Eval("edge", name, true)
		c.Class("edge")
		if pn != nil || rec.Code != 200 || rec.Body.Len() != n {
			c.SpecFail("stats", name, fmt.Sprintf("%d, %d bytes, panic=%v", rec.Code, rec.Body.Len(), pn), fmt.Sprintf("200 and %d bytes", n), "C18/edge/httpbody-reply", "the HttpBody reply does not arrive")
		} else if why := c18Grammar(evs, endErrs, "/"+fxPkg+".Svc/HB", false, false, 1, 1, false); why != "" {
			c.SpecFail("stats", name, strings.Join(evs, " "), "tag in-header begin, one in-payload, one out-payload, end", "C18/edge/httpbody-reply/"+c18Key(why), why)
		}
	}
	// the client names its message encoding explicitly — "identity" (C-core clients always do): same
	// outcome, full event sequence
	for _, m := range []string{"U", "SS"} {
		name := "grpc: " + m + " with grpc-encoding: identity"
		e.st.Reset()
		ctx, cancel := context.WithTimeout(context.Background(), 3*time.Second)
		var err error
		nrep := 0
		if m == "U" {
			err = e.gcc.Invoke(ctx, "/"+fxPkg+".Svc/U", c18Req(fx, "ok", "", 0), fx.NewMsg("Reply"), grpc.UseCompressor("identity"))
			nrep = 1
		} else {
			var st grpc.ClientStream
			st, err = e.gcc.NewStream(ctx, &grpc.StreamDesc{ServerStreams: true}, "/"+fxPkg+".Svc/SS", grpc.UseCompressor("identity"))
			if err == nil {
				st.SendMsg(c18Req(fx, "ok", "", 2)) //nolint
				st.CloseSend()                     //nolint
				for {
					if err = st.RecvMsg(fx.NewMsg("Reply")); err != nil {
						break
					}
					nrep++
				}
				if err == io.EOF {
					err = nil
				}
			}
		}
		cancel()
		time.Sleep(20 * time.Millisecond)
		evs, endErrs := e.st.Snapshot()
		c.Eval("edge", name, true)
		c.Class("edge")
		if err != nil {
			c.SpecFail("outcome", name, err.Error(), "the reply, status OK", "C18/edge/identity-encoding-changes-outcome", "with a stats handler installed a call that names grpc-encoding identity fails")
		} else if why := c18Grammar(evs, endErrs, "/"+fxPkg+".Svc/"+m, false, m == "SS", 1, nrep, false); why != "" {
			c.SpecFail("stats", name, strings.Join(evs, " "), "the full event sequence", "C18/edge/identity/"+c18Key(why), why)
		}
	}
	// an HttpBody upload, also an EMPTY one of unknown length: every message the handler receives
	// (the reply says how many) is one in-payload
	for _, up := range []struct {
		n       int
		chunked bool
	}{{0, true}, {0, false}, {5, true}, {5, false}, {3000, true}} {
		name := fmt.Sprintf("http: HttpBody upload of %d bytes (length announced: %v)", up.n, !up.chunked)
		e.st.Reset()
		r := httptest.NewRequest("POST", "/c18/up/ok", bytes.NewReader(bytes.Repeat([]byte{'u'}, up.n)))
		r.Header.Set("Content-Type", "application/octet-stream")
		r.Header.Set("Accept", "application/json")
		if up.chunked {
			r.ContentLength = -1
		}
		rec, pn := serveOn(fx.Mux, r)
		evs, endErrs := e.st.Snapshot()
		c.Eval("edge", name, true)
		c.Class("edge")
		recv := -1
		if i := strings.Index(rec.Body.String(), `"c`); i >= 0 {
			fmt.Sscanf(rec.Body.String()[i+2:], "%d", &recv)
		}
		if pn != nil || rec.Code != 200 || recv < 0 {
			c.SpecFail("stats", name, fmt.Sprintf("%d %s panic=%v", rec.Code, truncS(rec.Body.String(), 80), pn), "200 and the handler's count", "C18/edge/upload", "the upload does not arrive")
		} else if why := c18Grammar(evs, endErrs, "/"+fxPkg+".Svc/UP", true, false, recv, 1, false); why != "" {
			c.SpecFail("stats", name, strings.Join(evs, " "), fmt.Sprintf("tag in-header begin, %d in-payload, one out-payload, end", recv), "C18/edge/upload/"+c18Key(why), why)
		}
	}
	// a WebSocket binding without a body: the one message the handler receives is built from the URL —
	// it is a received message like any other (one in-payload), followed by the replies
	for _, n := range []int{0, 2} {
		name := fmt.Sprintf("websocket: binding without a body, %d replies", n)
		e.st.Reset()
		url := "ws" + strings.TrimPrefix(fx.HTTPServer().URL, "http") + fmt.Sprintf("/c18/wss/ok?i32=%d", n)
		ctx, cancel := context.WithTimeout(context.Background(), 5*time.Second)
		conn, br, _, err := ws.Dial(ctx, url)
		cancel()
		if err != nil {
			c.SpecFail("stats", name, err.Error(), "a WebSocket connection", "C18/edge/ws-bodyless-dial", "the body-less WebSocket binding cannot be reached")
			continue
		}
		conn.SetDeadline(time.Now().Add(3 * time.Second))
		var rd io.Reader = conn
		if br != nil { // frames that arrived right behind the handshake
			rd = br
		}
		got := 0
		for {
			hdr, err := ws.ReadHeader(rd)
			if err != nil {
				break
			}
			payload := make([]byte, hdr.Length)
			io.ReadFull(rd, payload) //nolint
			if hdr.OpCode == ws.OpClose {
				break
			}
			got++
		}
		conn.Close()
		time.Sleep(20 * time.Millisecond)
		evs, endErrs := e.st.Snapshot()
		c.Eval("edge", name, true)
		c.Class("edge")
		if got != n {
			c.SpecFail("stats", name, fmt.Sprintf("%d replies", got), fmt.Sprintf("%d replies", n), "C18/edge/ws-bodyless-replies", "the body-less WebSocket binding does not deliver the handler's replies")
		} else if why := c18Grammar(evs, endErrs, "/"+fxPkg+".Svc/SS", false, true, 1, n, false); why != "" {
			c.SpecFail("stats", name, strings.Join(evs, " "), fmt.Sprintf("tag in-header begin, one in-payload, %d out-payload, end", n), "C18/edge/ws-bodyless/"+c18Key(why), why)
		}
	}
	// a reply refused by the send limit is not a sent message: no out-payload event for it
	if stl := (&recStats{}); true {
		lfx, err := NewFixture(c18Specs("Svc", true), nil, larking.StatsOption(stl), larking.MaxSendMessageSizeOption(40))
		if err == nil && lfx.RegErr == nil && lfx.RegPanic == nil {
			for _, tr := range []string{"application/grpc-web+proto", "application/grpc+proto"} {
				for _, long := range []bool{false, true} {
					nm := "ok"
					if long {
						nm = strings.Repeat("x", 100) // the reply "u:"+name is over the send limit
					}
					b, _ := proto.Marshal(c18Req(lfx, nm, "", 0))
					r := httptest.NewRequest("POST", "/"+fxPkg+".Svc/U", bytes.NewReader(grpcFrame(0, b)))
					r.Header.Set("Content-Type", tr)
					if tr == "application/grpc+proto" {
						r.ProtoMajor, r.ProtoMinor = 2, 0
					}
					stl.Reset()
					rec, pn := serveOn(lfx.Mux, r)
					evs, _ := stl.Snapshot()
					name := fmt.Sprintf("%s: unary reply over the send limit=%v", tr, long)
					c.Eval("edge", name, true)
					c.Class("edge")
					if pn != nil {
						continue
					}
					frames, flags, _ := parseFrames(rec.Body.Bytes())
					ndata, nOut := 0, 0
					for i := range frames {
						if flags[i]&0x80 == 0 {
							ndata++
						}
					}
					for _, ev := range evs {
						if ev == "outPayload" {
							nOut++
						}
					}
					if nOut != ndata {
						c.SpecFail("stats", name, fmt.Sprintf("%d out-payload events, %d reply messages on the wire: %s", nOut, ndata, strings.Join(evs, " ")), "one out-payload event per message sent", "C18/edge/out-payload-count", "an out-payload event was reported for a reply that was never sent (or none for one that was)")
					}
				}
			}
			lfx.Close()
		}
	}
	for _, ed := range edges {
		e.st.Reset()
		ed.do()
		evs, endErrs := e.st.Snapshot()
		c.Eval("edge", ed.name, true)
		c.Class("edge")
		if len(evs) == 0 {
			continue // refused before the RPC began: nothing to report
		}
		nEnd, nBegin := 0, 0
		for _, ev := range evs {
			if ev == "end" {
				nEnd++
			}
			if strings.HasPrefix(ev, "begin") {
				nBegin++
			}
		}
		if nBegin != 1 || nEnd != 1 || evs[len(evs)-1] != "end" || evs[0] != "tag:"+ed.full {
			c.SpecFail("stats", ed.name, strings.Join(evs, " "), "tag … begin … end, exactly once each", "C18/edge/end-not-exactly-once/"+strings.SplitN(ed.name, ":", 2)[0], "an RPC that had begun did not end exactly once for the stats handler")
		} else if strings.Contains(ed.name, "deadline passes") || strings.Contains(ed.name, "client goes away") {
			// the slow handler returns PermissionDenied after its context is done
			if len(endErrs) != 1 || status.Code(endErrs[0]) != codes.PermissionDenied {
				c.SpecFail("stats", ed.name, fmt.Sprintf("end carries %v", endErrs), "the handler's PermissionDenied", "C18/edge/end-error/"+strings.SplitN(ed.name, ":", 2)[0], "End does not carry the handler's error")
			}
		}
	}
}

// hijackRW: a recorder whose connection can be taken over (WebSocket upgrade in process).
type hijackRW struct {
	*httptest.ResponseRecorder
	conn net.Conn
}

func (h hijackRW) Hijack() (net.Conn, *bufio.ReadWriter, error) {
	return h.conn, bufio.NewReadWriter(bufio.NewReader(h.conn), bufio.NewWriter(h.conn)), nil
}

func c18Key(why string) string {
	k := why
	if i := strings.Index(k, ":"); i > 0 {
		k = k[:i]
	}
	return strings.ReplaceAll(k, " ", "-")
}

// c18Grammar checks one RPC's events against the property; "" = fine.
func c18Grammar(evs []string, endErr []error, full string, cstream, sstream bool, recv, send int, failed bool) string {
	for _, e := range evs {
		if strings.Contains(e, "client-side!") {
			return "client-side event: " + e + " claims to be a client-side event"
		}
		if strings.Contains(e, "untagged") {
			return "untagged context: " + e + " was delivered with a context that TagRPC did not return"
		}
	}
	if len(evs) < 3 || evs[0] != "tag:"+full || evs[1] != "inHeader" || evs[2] != fmt.Sprintf("begin[%v,%v]", cstream, sstream) {
		return fmt.Sprintf("bad prefix: want tag:%s inHeader begin[%v,%v]", full, cstream, sstream)
	}
	nIn, nOut, nHdr, nEnd, nTr := 0, 0, 0, 0, 0
	for i, e := range evs[3:] {
		switch e {
		case "inPayload":
			nIn++
		case "outPayload":
			nOut++
		case "outHeader":
			nHdr++
		case "outTrailer":
			nTr++
		case "end":
			nEnd++
			if i != len(evs[3:])-1 {
				return "end is not last"
			}
		default:
			return "unexpected event: " + e
		}
	}
	if nEnd != 1 {
		return fmt.Sprintf("end count: %d end events, want exactly 1", nEnd)
	}
	if nIn != recv {
		return fmt.Sprintf("in-payload count: %d in-payload events for %d received messages", nIn, recv)
	}
	if nOut != send {
		return fmt.Sprintf("out-payload count: %d out-payload events for %d sent messages", nOut, send)
	}
	if nHdr > 1 {
		return fmt.Sprintf("out-header count: %d", nHdr)
	}
	if len(endErr) == 1 {
		if failed && (endErr[0] == nil || status.Code(endErr[0]) != codes.PermissionDenied) {
			return fmt.Sprintf("end error: end carries %v, the handler returned PermissionDenied", endErr[0])
		}
		if !failed && endErr[0] != nil {
			return fmt.Sprintf("end error: end carries %v, the handler returned nil", endErr[0])
		}
	}
	return ""
}

// c18Details: how many details the status a gRPC client received carries (part of "what the client gets").
func c18Details(err error) string {
	if n := len(status.Convert(err).Details()); n > 0 {
		return fmt.Sprintf(" details=%d", n)
	}
	return ""
}

func c18WebDetails(b64 string) string {
	if b64 == "" {
		return ""
	}
	raw, err := base64.RawStdEncoding.DecodeString(strings.TrimRight(b64, "="))
	if err != nil {
		return " details=undecodable"
	}
	st := &spb.Status{}
	if err := proto.Unmarshal(raw, st); err != nil {
		return " details=undecodable"
	}
	return fmt.Sprintf(" details=%d", len(st.Details))
}

// c18CanonPayloads sorts the events between "begin" and "outTrailer" / "end" (payloads and the
// out-header) so that two interleavings of the same events compare equal.
func c18CanonPayloads(line string) string {
	seq, end, _ := strings.Cut(line, "|")
	evs := strings.Split(seq, ",")
	lo, hi := 0, len(evs)
	for i, e := range evs {
		if e == "begin" {
			lo = i + 1
		}
		if (e == "outTrailer" || e == "end") && i < hi {
			hi = i
		}
	}
	if lo < hi {
		sort.Strings(evs[lo:hi])
	}
	return strings.Join(evs, ",") + "|" + end
}
