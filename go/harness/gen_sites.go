package main

import (
	"fmt"
	"path/filepath"
	"sort"
	"strings"
)

func init() { genSteps = append(genSteps, genSites) }

// genSites lists every index / slice / type-assertion / explicit panic site of every function of
// the package: the places where a request could crash the process.  The snapshot in
// Expected/C09.lean is the set that was audited; a new or changed site breaks the tie.
func genSites(g *genCtx, lean string, facts map[string]interface{}) error {
	var fns []string
	for fn := range g.funcs {
		if strings.HasPrefix(fn, "Verif") || strings.Contains(fn, ".Verif") || strings.HasPrefix(fn, "verif") || strings.HasPrefix(fn, "fingerprint") {
			continue
		}
		fns = append(fns, fn)
	}
	sort.Strings(fns)
	var sb strings.Builder
	sb.WriteString(genHeader)
	sb.WriteString("namespace Larking.Gen.Sites\n\n/-- (function, site) for every index / slice / type assertion / panic call in the package. -/\ndef all : List (String × String) := [\n")
	var rows []string
	n := 0
	for _, fn := range fns {
		_, sites := skeleton(g, g.funcs[fn])
		for _, s := range sites {
			rows = append(rows, fmt.Sprintf("  (%q, %q)", fn, s))
			n++
		}
	}
	sb.WriteString(strings.Join(rows, ",\n") + "\n]\n\nend Larking.Gen.Sites\n")
	facts["crash_sites"] = n
	return writeIfChanged(filepath.Join(lean, "Larking/Gen/Sites.lean"), sb.String())
}
