package main

import (
	"bytes"
	"context"
	"encoding/base64"
	"encoding/json"
	"fmt"
	"io"
	"net/http"
	"net/http/httptest"
	"strconv"
	"strings"
	"time"
	"unicode/utf8"

	"github.com/gobwas/ws"
	"github.com/gobwas/ws/wsutil"
	spb "google.golang.org/genproto/googleapis/rpc/status"
	"google.golang.org/grpc"
	"google.golang.org/grpc/codes"
	"google.golang.org/grpc/metadata"
	"google.golang.org/grpc/status"
	"google.golang.org/protobuf/encoding/protojson"
	"google.golang.org/protobuf/proto"
	"google.golang.org/protobuf/types/dynamicpb"
	"google.golang.org/protobuf/types/known/wrapperspb"
	"larking.io/larking"
)

func init() { props["C05"] = runC05 }

var gatewayTable = []int{200, 408, 500, 400, 504, 404, 409, 403, 429, 400, 409, 400, 501, 500, 503, 500, 401}
var twirpSpec = []string{"", "canceled", "unknown", "invalid_argument", "deadline_exceeded", "not_found",
	"already_exists", "permission_denied", "resource_exhausted", "failed_precondition", "aborted",
	"out_of_range", "unimplemented", "internal", "unavailable", "dataloss", "unauthenticated"}

func expectedHTTP(c uint32) int {
	if int(c) < len(gatewayTable) {
		return gatewayTable[c]
	}
	return 500
}

// pctDecode is the gRPC spec's percent-decoding, written independently.
func pctDecode(s string) string {
	var b []byte
	for i := 0; i < len(s); i++ {
		if s[i] == '%' && i+2 < len(s) {
			if v, err := strconv.ParseUint(s[i+1:i+3], 16, 8); err == nil {
				b = append(b, byte(v))
				i += 2
				continue
			}
		}
		b = append(b, s[i])
	}
	return string(b)
}

func guarded(f func() string) (out string) {
	defer func() {
		if r := recover(); r != nil {
			out = "panic"
		}
	}()
	return f()
}

func c05Messages(c *Ctx, n int) []string {
	msgs := []string{"", "a", "plain ascii message", "50% done, après", "%", "%%", "100%", "%41", "tab\there", "nl\nx", "\x00", "\x7f", "~", " ",
		"日本語のメッセージ", "emoji 🎉 end", "é", "%é%", strings.Repeat("long ", 60), strings.Repeat("%", 40), "ends with escape é", "é starts", "aé", "éa", "a%b c"}
	for i := 0; i < 256; i++ {
		if i < 0x80 {
			msgs = append(msgs, string([]byte{byte(i)}), "x"+string([]byte{byte(i)})+"y")
		}
	}
	alphabet := []string{"a", "b", "%", " ", "é", "日", "\x01", "~", "0", "F", "\n", "🎉", "%2", "%25"}
	for i := 0; i < n; i++ {
		var sb strings.Builder
		for j, k := 0, c.Rng.Intn(12); j < k; j++ {
			sb.WriteString(alphabet[c.Rng.Intn(len(alphabet))])
		}
		msgs = append(msgs, sb.String())
	}
	return msgs
}

type c05Script struct {
	code    codes.Code
	msg     string
	details bool
	replies int
}

func (s c05Script) err() error {
	st := status.New(s.code, s.msg)
	if s.details {
		st2, err := st.WithDetails(&wrapperspb.StringValue{Value: "detail-" + s.msg}, &wrapperspb.Int64Value{Value: int64(s.code)})
		if err == nil {
			st = st2
		}
	}
	return st.Err()
}

func (s c05Script) String() string {
	return fmt.Sprintf("code=%d msg=%x details=%v replies=%d", s.code, s.msg, s.details, s.replies)
}

func runC05(c *Ctx) {
	c.Rule("protocol dispatch: Content-Types (the protocol ones, near misses, mutations) x HTTP/1, 2, 3 through Mux.ServeHTTP and isWebRequest against the model and the protocol definitions; function level: every code 0..40 and large values through HTTPStatusCode/WSStatusCode, every single byte and generated strings through encodeGrpcMessage; API level: handler-returned statuses over HTTP/JSON, HTTP/protobuf, Twirp, gRPC (grpc-go client), gRPC-web, gRPC-web-text, WebSocket, before any reply and after k replies. A case is non-trivial when it is not the empty/OK input; distinct by kind+input.")
	c.Assume("grpc-go client, protojson, gobwas/ws client and encoding/base64 are the reference decoders")

	c05Dispatch(c)
	// ---- function level: code tables
	cs := []uint32{}
	for i := uint32(0); i <= 40; i++ {
		cs = append(cs, i)
	}
	cs = append(cs, 100, 255, 256, 65535, 1<<31-1, 1<<31, 1<<32-1)
	for _, code := range cs {
		code := code
		impl := guarded(func() string { return "ok " + strconv.Itoa(larking.VerifHTTPStatusCode(code)) })
		c.Correspond("httpstatus", join("httpstatus", strconv.FormatUint(uint64(code), 10)), impl, code != 0)
		if want := "ok " + strconv.Itoa(expectedHTTP(code)); impl != want {
			c.SpecFail("httpstatus", fmt.Sprint(code), impl, want, "C05/httpstatus/"+impl+"/code-"+fmt.Sprint(code), "HTTPStatusCode disagrees with the documented table / crashes")
		}
		c.Class("httpstatus:" + impl)
		impl = guarded(func() string { return "ok " + strconv.Itoa(larking.VerifWSStatusCode(code)) })
		c.Correspond("wsstatus", join("wsstatus", strconv.FormatUint(uint64(code), 10)), impl, code != 0)
		if impl == "panic" || (code != 0 && impl == "ok 1000") {
			c.SpecFail("wsstatus", fmt.Sprint(code), impl, "a non-normal close code", "C05/wsstatus/"+impl+"/code-"+fmt.Sprint(code), "WSStatusCode crashes or reports an error as normal closure")
		}
	}

	// ---- function level: grpc-message
	msgs := c05Messages(c, c.N(1500, 30000))
	for _, m := range msgs {
		impl := hexS(larking.VerifEncodeGrpcMessage(m))
		c.Correspond("pct", join("pct", hexS(m)), impl, m != "")
		enc := larking.VerifEncodeGrpcMessage(m)
		if got := pctDecode(enc); got != m {
			c.SpecFail("pct", hexS(m), hexS(got), hexS(m), "C05/grpc-message/roundtrip", "percent-decoding the encoded grpc-message does not give the message back")
		}
		for i := 0; i < len(enc); i++ {
			if enc[i] < 0x20 || enc[i] > 0x7e {
				c.SpecFail("pct", hexS(m), hexS(enc), "printable ASCII", "C05/grpc-message/unsafe-byte", "encoded grpc-message contains a byte outside 0x20..0x7E")
				break
			}
		}
		if strings.ContainsAny(m, "%") || !isPrintable(m) {
			c.Class("pct:escaped")
		} else {
			c.Class("pct:verbatim")
		}
	}

	// ---- function level: model of the base64 text writer vs encoding/base64
	for i := 0; i < c.N(300, 5000); i++ {
		var parts [][]byte
		var all []byte
		var hx []string
		for j, k := 0, c.Rng.Intn(5); j < k; j++ {
			p := make([]byte, c.Rng.Intn(9))
			c.Rng.Read(p)
			parts = append(parts, p)
			all = append(all, p...)
			hx = append(hx, hexs(p))
		}
		var buf bytes.Buffer
		e := base64.NewEncoder(base64.StdEncoding, &buf)
		for _, p := range parts {
			e.Write(p)
		}
		e.Close()
		c.Correspond("b64text", join("b64text", "1", strings.Join(hx, ";")), hexs(buf.Bytes()), len(all) > 0)
	}

	c05API(c, msgs)
}

func isPrintable(s string) bool {
	for i := 0; i < len(s); i++ {
		if s[i] < 0x20 || s[i] > 0x7e {
			return false
		}
	}
	return true
}

func c05API(c *Ctx, msgs []string) {
	var script c05Script
	var headerFirst bool
	unary := func(ctx context.Context, in *dynamicpb.Message) (proto.Message, error) {
		if headerFirst {
			grpc.SendHeader(ctx, metadata.Pairs("x-c05-early", "1")) //nolint
		}
		return nil, script.err()
	}
	var fxp *Fixture
	stream := func(fx *Fixture, ms *MethodSpec, st grpc.ServerStream) error {
		in := fx.NewMsg("Req")
		if err := st.RecvMsg(in); err != nil {
			return err
		}
		for i := 0; i < script.replies; i++ {
			r := fx.NewMsg("Reply")
			r.Set(r.Descriptor().Fields().ByName("n"), protoreflectInt32(int32(i)))
			if err := st.SendMsg(r); err != nil {
				return err
			}
		}
		return script.err()
	}
	fx, err := NewFixture([]*MethodSpec{
		{Name: "Fail", In: "Req", Out: "Reply", Rule: getRule("/c05/fail"), Unary: unary},
		{Name: "FailStream", In: "Req", Out: "Reply", ServerStream: true, Rule: getRule("/c05/stream"), Stream: stream},
		{Name: "FailWs", In: "Req", Out: "Reply", ServerStream: true, ClientStream: true, Rule: customRule("WEBSOCKET", "/c05/ws", "*"), Stream: stream},
	}, nil)
	if err != nil || fx.RegErr != nil || fx.RegPanic != nil {
		c.SpecFail("fixture", "c05", fmt.Sprint(err, fx.RegErr, fx.RegPanic), "registered", "C05/fixture", "fixture registration failed")
		return
	}
	fxp = fx
	_ = fxp
	defer fx.Close()
	cc, err := fx.GRPC()
	if err != nil {
		c.Note("grpc client: " + err.Error())
		return
	}
	hts := fx.HTTPServer()

	var scripts []c05Script
	codesList := []codes.Code{1, 2, 3, 4, 5, 6, 7, 8, 9, 10, 11, 12, 13, 14, 15, 16, 17, 18, 20, 99, 1 << 20}
	apiMsgs := []string{"", "plain", "50% done, après", "%", "tab\tnl\n", "日本語 🎉", strings.Repeat("long message ", 20) + ".", "é", "ends é", "%41%zz", "a", strings.Repeat("é", 100), "x" + strings.Repeat("日", 60)}
	for _, code := range codesList {
		scripts = append(scripts, c05Script{code: code, msg: apiMsgs[int(code)%len(apiMsgs)], details: code%2 == 0})
	}
	for _, m := range apiMsgs {
		scripts = append(scripts, c05Script{code: 5, msg: m}, c05Script{code: 13, msg: m, details: true, replies: 2})
	}
	for i := 0; i < c.N(40, 600); i++ {
		m := msgs[c.Rng.Intn(len(msgs))]
		// HTTP field values cannot carry leading/trailing whitespace and the gRPC
		// percent-encoding leaves SP unescaped (DESIGN §14): not generated at API level.
		if !utf8.ValidString(m) || m != strings.Trim(m, " \t") {
			continue
		}
		scripts = append(scripts, c05Script{code: codes.Code(1 + c.Rng.Intn(18)), msg: m, details: c.Rng.Intn(2) == 0, replies: c.Rng.Intn(3)})
	}

	for _, sc := range scripts {
		script = sc
		want := status.Convert(sc.err()).Proto()
		in := sc.String()

		// model predictions for the wire values
		wantHTTP, _ := c.Correspond("api-httpstatus", join("httpstatus", strconv.Itoa(int(sc.code))), "ok "+strconv.Itoa(expectedHTTP(uint32(sc.code))), true)
		_ = wantHTTP

		// (a)(b) HTTP transcoding, JSON and protobuf
		for _, accept := range []string{"application/json", "application/protobuf"} {
			r := httptest.NewRequest("GET", "/c05/fail", nil)
			r.Header.Set("Accept", accept)
			rec, pn := fx.Serve(r)
			c.Eval("api-http", accept+" "+in, true)
			if pn != nil {
				c.SpecFail("api-http", accept+" "+in, fmt.Sprint("panic: ", pn), "an error response", fmt.Sprintf("C05/http/panic/code-%d", sc.code), "transcoding error path panics")
				continue
			}
			got := &spb.Status{}
			var derr error
			if accept == "application/json" {
				derr = protojson.Unmarshal(rec.Body.Bytes(), got)
			} else {
				derr = proto.Unmarshal(rec.Body.Bytes(), got)
			}
			if rec.Code != expectedHTTP(uint32(sc.code)) {
				c.SpecFail("api-http", accept+" "+in, fmt.Sprint(rec.Code), fmt.Sprint(expectedHTTP(uint32(sc.code))), fmt.Sprintf("C05/http/status-line/code-%d", sc.code), "HTTP status differs from the documented mapping")
			}
			if derr != nil || !proto.Equal(got, want) || !strings.HasPrefix(rec.Header().Get("Content-Type"), accept) {
				c.SpecFail("api-http", accept+" "+in, fmt.Sprintf("%v %q ct=%s", derr, rec.Body.String(), rec.Header().Get("Content-Type")), prototextS(want), "C05/http/status-body", "google.rpc.Status body differs from the handler's status")
			}
		}

		// (a0) whatever the request says about content types: an error is answered with a decodable status
		for _, hv := range [][2]string{{"text/plain", ""}, {"application/json; charset=utf-8", ""}, {"image/jpeg", "*/*"}, {"application/x-unknown", "text/html"}, {"", "application/xml, */*;q=0.1"}, {"application/protobuf", ""}} {
			r := httptest.NewRequest("GET", "/c05/fail", nil)
			if hv[0] != "" {
				r.Header.Set("Content-Type", hv[0])
			}
			if hv[1] != "" {
				r.Header.Set("Accept", hv[1])
			}
			rec, pn := fx.Serve(r)
			hin := fmt.Sprintf("Content-Type=%q Accept=%q %s", hv[0], hv[1], in)
			c.Eval("api-http-headers", hin, true)
			if pn != nil {
				c.SpecFail("api-http-headers", hin, fmt.Sprint("panic: ", pn), "an error response", "C05/http/panic/request-content-type", "an error answered to a request with an unusual Content-Type / Accept panics")
				continue
			}
			got := &spb.Status{}
			var derr error
			if strings.HasPrefix(rec.Header().Get("Content-Type"), "application/json") {
				derr = protojson.Unmarshal(rec.Body.Bytes(), got)
			} else {
				derr = proto.Unmarshal(rec.Body.Bytes(), got)
			}
			if rec.Code != expectedHTTP(uint32(sc.code)) || derr != nil || !proto.Equal(got, want) {
				c.SpecFail("api-http-headers", hin, fmt.Sprintf("%d %v %q ct=%s", rec.Code, derr, truncS(rec.Body.String(), 160), rec.Header().Get("Content-Type")), fmt.Sprintf("%d %s", expectedHTTP(uint32(sc.code)), prototextS(want)), "C05/http/status-body/request-content-type", "the status does not reach an HTTP client that sent an unusual Content-Type / Accept")
			}
		}

		// (a') the handler sent its headers before failing: the status still reaches the client
		if sc.code >= 1 && sc.code <= 16 {
			headerFirst = true
			r := httptest.NewRequest("GET", "/c05/fail", nil)
			r.Header.Set("Accept", "application/json")
			rec, pn := fx.Serve(r)
			headerFirst = false
			c.Eval("api-http-header-first", in, true)
			got := &spb.Status{}
			if pn != nil || protojson.Unmarshal(rec.Body.Bytes(), got) != nil || !proto.Equal(got, want) {
				c.SpecFail("api-http-header-first", in, fmt.Sprintf("%d %q panic=%v", rec.Code, truncS(rec.Body.String(), 160), pn), prototextS(want), "C05/http/status-lost-after-sendheader", "a handler that sends its headers and then fails: the client does not get the status")
			}
		}
		// (a'') an HTTP server stream that fails after replies: the status follows the replies
		if sc.replies > 0 && sc.code >= 1 && sc.code <= 16 {
			r := httptest.NewRequest("GET", "/c05/stream", nil)
			r.Header.Set("Accept", "application/json")
			rec, pn := fx.Serve(r)
			c.Eval("api-http-after-replies", in, true)
			objs := splitJSONObjects(rec.Body.Bytes())
			got := &spb.Status{}
			ok := pn == nil && len(objs) == sc.replies+1 && protojson.Unmarshal(objs[len(objs)-1], got) == nil && proto.Equal(got, want)
			if !ok {
				c.SpecFail("api-http-after-replies", in, fmt.Sprintf("%d %d objects: %q panic=%v", rec.Code, len(objs), truncS(rec.Body.String(), 200), pn), fmt.Sprintf("%d replies then %s", sc.replies, prototextS(want)), "C05/http/status-lost-after-replies", "an HTTP stream that fails after some replies: the status does not follow the replies")
			}
		}

		// (c) Twirp
		{
			r := httptest.NewRequest("POST", "/verif.v1.Svc/Fail", strings.NewReader("{}"))
			r.Header.Set("Content-Type", "application/json")
			r.Header.Set("Twirp-Version", "v8.1.0")
			rec, pn := fx.Serve(r)
			c.Eval("api-twirp", in, true)
			if pn != nil {
				c.SpecFail("api-twirp", in, fmt.Sprint("panic: ", pn), "a twirp error", fmt.Sprintf("C05/twirp/panic/code-%d", sc.code), "twirp error path panics")
			} else {
				var te struct {
					Code string `json:"code"`
					Msg  string `json:"msg"`
				}
				jerr := json.Unmarshal(rec.Body.Bytes(), &te)
				model := c.Drv.Ask(join("twirp", strconv.Itoa(int(sc.code))))
				if model != te.Code {
					c.res.NDisagree++
					c.res.Disagree = append(c.res.Disagree, Case{Kind: "api-twirp", Input: in, Impl: te.Code, Model: model})
				}
				wantName := "unknown"
				if int(sc.code) < len(twirpSpec) {
					wantName = twirpSpec[sc.code]
				}
				if jerr != nil || te.Msg != sc.msg {
					c.SpecFail("api-twirp", in, rec.Body.String(), sc.msg, "C05/twirp/message", "twirp msg differs")
				}
				if int(sc.code) < len(twirpSpec) && te.Code != wantName {
					c.SpecFail("api-twirp", in, te.Code, wantName, "C05/twirp/name/"+wantName, "twirp code name is not the Twirp spec's")
				}
			}
		}

		// (d) gRPC, real client
		{
			ctx, cancel := context.WithTimeout(context.Background(), 5*time.Second)
			req, reply := fx.NewMsg("Req"), fx.NewMsg("Reply")
			var gerr error
			nrep := 0
			if sc.replies == 0 {
				gerr = cc.Invoke(ctx, "/verif.v1.Svc/Fail", req, reply)
			} else {
				st, err := cc.NewStream(ctx, &grpc.StreamDesc{ServerStreams: true}, "/verif.v1.Svc/FailStream")
				if err == nil {
					err = st.SendMsg(req)
				}
				if err == nil {
					err = st.CloseSend()
				}
				for err == nil {
					if err = st.RecvMsg(fx.NewMsg("Reply")); err == nil {
						nrep++
					}
				}
				gerr = err
			}
			cancel()
			c.Eval("api-grpc", in, true)
			got := status.Convert(gerr).Proto()
			if !proto.Equal(got, want) || nrep != sc.replies {
				c.SpecFail("api-grpc", in, fmt.Sprintf("replies=%d %s", nrep, prototextS(got)), fmt.Sprintf("replies=%d %s", sc.replies, prototextS(want)), "C05/grpc/status", "grpc-go client sees a different status")
			}
		}

		// (e) gRPC-web binary and text
		for wi, ct := range []string{"application/grpc-web+proto", "application/grpc-web-text+proto", "application/grpc-web+proto", "application/grpc-web-text+proto"} {
			body := grpcFrame(0, nil)
			var rd io.Reader = bytes.NewReader(body)
			if strings.Contains(ct, "text") {
				rd = strings.NewReader(base64.StdEncoding.EncodeToString(body))
			}
			path := "/verif.v1.Svc/Fail"
			if sc.replies > 0 {
				path = "/verif.v1.Svc/FailStream"
			}
			r := httptest.NewRequest("POST", path, rd)
			r.Header.Set("Content-Type", ct)
			if wi >= 2 { // the same call arriving over HTTP/2 (what a browser speaks to a TLS endpoint)
				r.ProtoMajor, r.ProtoMinor = 2, 0
				ct += " over HTTP/2"
			}
			rec, pn := fx.Serve(r)
			c.Eval("api-web", ct+" "+in, true)
			if pn != nil {
				c.SpecFail("api-web", ct+" "+in, fmt.Sprint("panic: ", pn), "a response", fmt.Sprintf("C05/web/panic/code-%d", sc.code), "gRPC-web error path panics")
				continue
			}
			raw := rec.Body.Bytes()
			if strings.Contains(ct, "text") {
				dec, err := base64.StdEncoding.DecodeString(string(raw))
				if err != nil {
					c.SpecFail("api-web", ct+" "+in, string(raw), "valid base64", "C05/web-text/base64-truncated", "grpc-web-text body is not complete base64 (encoder not flushed)")
					continue
				}
				raw = dec
			}
			frames, flags, ok := parseFrames(raw)
			if !ok {
				c.SpecFail("api-web", ct+" "+in, hexs(raw), "whole frames", "C05/web/truncated-frame", "gRPC-web body ends inside a frame")
				continue
			}
			// what a gRPC-web client can read: the header block as committed and the trailer frame
			// (not HTTP trailers, which browsers do not expose)
			hdr := http.Header{}
			for k, v := range rec.Result().Header {
				hdr[strings.ToLower(k)] = v
			}
			ndata := 0
			for i, f := range frames {
				if flags[i]&0x80 != 0 {
					// PROTOCOL-WEB: the trailer frame is an HTTP/1 header block with lower-case
					// names; the reference client looks the names up as they are on the wire.
					for _, ln := range strings.Split(string(f), "\r\n") {
						if k, v, ok := strings.Cut(ln, ":"); ok {
							hdr[k] = append(hdr[k], strings.TrimSpace(v))
						}
					}
				} else {
					ndata++
				}
			}
			gs := first(hdr["grpc-status"])
			gm := first(hdr["grpc-message"])
			model := c.Drv.Ask(join("pct", hexS(sc.msg)))
			if model != hexS(gm) {
				c.res.NDisagree++
				c.res.Disagree = append(c.res.Disagree, Case{Kind: "api-web grpc-message", Input: in, Impl: hexS(gm), Model: model})
			}
			var gotDetails *spb.Status
			if d := first(hdr["grpc-status-details-bin"]); d != "" {
				if b, err := base64.RawStdEncoding.DecodeString(strings.TrimRight(d, "=")); err == nil {
					gotDetails = &spb.Status{}
					if proto.Unmarshal(b, gotDetails) != nil {
						gotDetails = nil
					}
				}
			}
			okDetails := len(want.Details) == 0 || (gotDetails != nil && proto.Equal(gotDetails, want))
			if gs != strconv.Itoa(int(sc.code)) || pctDecode(gm) != sc.msg || !okDetails || ndata != sc.replies {
				c.SpecFail("api-web", ct+" "+in, fmt.Sprintf("grpc-status=%q grpc-message=%q details-ok=%v data-frames=%d", gs, gm, okDetails, ndata),
					fmt.Sprintf("grpc-status=%d message=%q data-frames=%d", sc.code, sc.msg, sc.replies), "C05/web/status", "gRPC-web client cannot recover the status")
			}
		}

		// (f) WebSocket close frame
		{
			c.Eval("api-ws", in, true)
			got, err := wsFail(hts.URL)
			wantCode := c.Drv.Ask(join("wsstatus", strconv.Itoa(int(sc.code))))
			if err != nil {
				c.SpecFail("api-ws", in, err.Error(), "a valid close frame", "C05/ws/no-close-frame", "no (valid) close frame received")
			} else {
				if "ok "+strconv.Itoa(int(got.code)) != wantCode {
					c.res.NDisagree++
					c.res.Disagree = append(c.res.Disagree, Case{Kind: "api-ws", Input: in, Impl: fmt.Sprint(got.code), Model: wantCode})
				}
				if "ok "+strconv.Itoa(int(got.code)) != wantCode || got.code == 1005 || got.code == 1006 {
					c.SpecFail("api-ws", in, fmt.Sprintf("%d %q", got.code, got.reason), "close code "+wantCode, "C05/ws/close-code-not-mapped", "the close frame does not carry the close code the status code maps to")
				}
				c.Correspond("api-ws-reason", join("wsreason", hexS(sc.msg)), hexS(got.reason), len(sc.msg) > 100)
				if !utf8.ValidString(got.reason) {
					c.SpecFail("api-ws", in, fmt.Sprintf("%d %q", got.code, got.reason), "a UTF-8 reason", "C05/ws/close-reason-not-utf8", "the close frame's reason is not valid UTF-8 (RFC 6455 5.5.1): a conforming client fails the connection instead of reading the status")
				}
				if got.code == 1000 || !strings.HasPrefix(sc.msg, got.reason) || (len(sc.msg) <= 123 && got.reason != sc.msg) {
					c.SpecFail("api-ws", in, fmt.Sprintf("%d %q", got.code, got.reason), fmt.Sprintf("error close code, reason %q", sc.msg), "C05/ws/close-frame", "close frame does not carry the status")
				}
			}
		}
	}
}

type wsClose struct {
	code   ws.StatusCode
	reason string
}

func wsFail(base string) (wsClose, error) {
	url := "ws" + strings.TrimPrefix(base, "http") + "/c05/ws"
	ctx, cancel := context.WithTimeout(context.Background(), 5*time.Second)
	defer cancel()
	conn, _, _, err := ws.Dial(ctx, url)
	if err != nil {
		return wsClose{}, err
	}
	defer conn.Close()
	conn.SetDeadline(time.Now().Add(5 * time.Second))
	if err := wsutil.WriteClientMessage(conn, ws.OpText, []byte("{}")); err != nil {
		return wsClose{}, err
	}
	for {
		hdr, err := ws.ReadHeader(conn)
		if err != nil {
			return wsClose{}, err
		}
		payload := make([]byte, hdr.Length)
		if _, err := io.ReadFull(conn, payload); err != nil {
			return wsClose{}, err
		}
		if hdr.OpCode == ws.OpClose {
			// what a conforming client does first (RFC 6455 5.5: a control frame carries at most 125 bytes)
			if err := ws.CheckHeader(hdr, ws.StateClientSide); err != nil {
				return wsClose{}, fmt.Errorf("the close frame is not a valid WebSocket frame (%d byte payload): %w", hdr.Length, err)
			}
			code, reason := ws.ParseCloseFrameData(payload)
			return wsClose{code, reason}, nil
		}
	}
}

func first(v []string) string {
	if len(v) == 0 {
		return ""
	}
	return v[0]
}
