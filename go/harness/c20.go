package main

import (
	"bytes"
	"crypto/tls"
	"encoding/base64"
	"fmt"
	"net/http"
	"net/http/httptest"
	"sort"
	"strings"

	"google.golang.org/protobuf/proto"
	"larking.io/larking"
)

func init() {
	props["C20"] = runC20
}

type c20Resp struct {
	code int
	body string
	hdr  string
}

func (r c20Resp) String() string { return fmt.Sprintf("%d %s %q", r.code, r.hdr, truncS(r.body, 200)) }

func c20Record(h http.Handler, r *http.Request) (c20Resp, interface{}) {
	rec, pn := serveOn(h, r)
	if pn != nil {
		return c20Resp{}, pn
	}
	res := rec.Result()
	var hs []string
	for _, k := range []string{"Content-Type", "Grpc-Status", "Grpc-Message", "Location"} {
		if v := res.Header.Get(k); v != "" {
			hs = append(hs, k+"="+v)
		}
	}
	for k, v := range res.Trailer {
		hs = append(hs, "T:"+k+"="+strings.Join(v, ","))
	}
	sort.Strings(hs)
	return c20Resp{res.StatusCode, rec.Body.String(), strings.Join(hs, ";")}, nil
}

func runC20(c *Ctx) {
	c.Rule("NewServer with MuxHandleOption pattern sets (none; one or several prefixes written with and without a trailing slash; root next to a prefix; nested prefixes) and zero to three HTTPHandlerOption handlers (subtree and exact patterns, one of them below a mount): for every mount prefix and every request of a catalogue (transcoding GET/POST incl. a deep wildcard echoing the path the mux saw, not-found routes, gRPC and gRPC-web frames, a Twirp-style POST, bodies, query strings) the response of the server's handler for prefix+path is compared with the bare mux's for path (status, body, content type, grpc status, trailers); paths outside every prefix must get net/http's own 404; every extra handler must answer on its pattern; who served each request is compared with the Lean mount model; option validation (nil mux, duplicate MuxHandleOption). Non-trivial: every request; distinct by config+request.")
	c.Assume("net/http.ServeMux and http.StripPrefix as documented; requests use clean paths")
	// the mux: echo service with a deep wildcard route
	fx, err := NewFixture(echoSpecs(), nil)
	if err != nil || fx.RegErr != nil || fx.RegPanic != nil {
		c.SpecFail("fixture", "c20", fmt.Sprint(err), "", "C20/fixture", "fixture")
		return
	}
	marker := func(name string) http.Handler {
		return http.HandlerFunc(func(w http.ResponseWriter, r *http.Request) {
			w.Header().Set("Content-Type", "text/x-extra")
			fmt.Fprintf(w, "extra:%s path=%s", name, r.URL.Path)
		})
	}
	type extra struct{ pattern, name string }
	type config struct {
		patterns []string
		extras   []extra
		tls      string // where TLSCredsOption goes among the options: "", "first", "middle", "last"
	}
	configs := []config{
		{nil, nil, ""},
		{[]string{"/"}, nil, ""},
		{[]string{"/api"}, nil, ""},
		{[]string{"/api/"}, nil, ""},
		{[]string{"/a", "/b/c/"}, nil, ""},
		{[]string{"/api", "/"}, nil, ""},
		{[]string{"/api", "/api/v2/"}, nil, ""},
		{[]string{"/api/"}, []extra{{"/extra/", "e0"}}, ""},
		{[]string{"/api"}, []extra{{"/extra/", "e0"}, {"/metrics", "e1"}}, ""},
		{[]string{"/api/", "/g"}, []extra{{"/extra/", "e0"}, {"/metrics", "e1"}, {"/api/special", "e2"}}, ""},
		{nil, []extra{{"/extra/", "e0"}, {"/healthz", "e1"}}, ""},
		{[]string{"/api"}, []extra{{"/extra/", "e0"}, {"/metrics", "e1"}}, "first"},
		{[]string{"/api"}, []extra{{"/extra/", "e0"}, {"/metrics", "e1"}}, "middle"},
		{[]string{"/api/", "/g"}, []extra{{"/extra/", "e0"}}, "last"},
		{[]string{"/twirp"}, nil, ""}, // a prefix that looks like a protocol's conventional route is a prefix like any other
		{[]string{"/grpc/", "/twirp/"}, []extra{{"/static/", "e0"}}, ""},
	}
	enc, _ := proto.Marshal(reqWithData(fx, []byte("payload")))
	type req struct {
		name   string
		method string
		path   string // the path as the bare mux gets it
		query  string
		hdr    map[string]string
		body   []byte
		h2     bool
	}
	catalogue := []req{
		{"transcode-post", "POST", "/c13/unary/n1", "", map[string]string{"Content-Type": "application/json"}, []byte(`{"data":"cGF5"}`), false},
		{"transcode-post-query", "POST", "/c13/unary/n2", "i32=7", map[string]string{"Content-Type": "application/json"}, []byte(`{}`), false},
		// the query string is the client's, character for character: ';' is not a separator the server may rewrite
		{"transcode-query-semicolon", "POST", "/c13/unary/n3", "data=QUJD;i32=7", map[string]string{"Content-Type": "application/json"}, []byte(`{}`), false},
		{"transcode-query-semicolon-2", "POST", "/c13/unary/n4", "i32=5&data=QUJD;data=QUJE", map[string]string{"Content-Type": "application/json"}, []byte(`{}`), false},
		{"transcode-stream", "POST", "/c13/down", "", map[string]string{"Content-Type": "application/json"}, []byte(`{"i32":2,"data":"QQ=="}`), false},
		{"implicit-route", "POST", "/" + fxPkg + ".Svc/Unary", "", map[string]string{"Content-Type": "application/json"}, []byte(`{"name":"x"}`), false},
		{"twirp-style-proto", "POST", "/" + fxPkg + ".Svc/Unary", "", map[string]string{"Content-Type": "application/protobuf"}, enc, false},
		{"not-found", "GET", "/c13/nothing/here", "", nil, nil, false},
		{"root", "GET", "/", "", nil, nil, false},
		{"method-not-allowed", "DELETE", "/c13/unary/n1", "", nil, nil, false},
		{"grpc", "POST", "/" + fxPkg + ".Svc/Unary", "", map[string]string{"Content-Type": "application/grpc+proto", "Te": "trailers"}, grpcFrame(0, enc), true},
		{"grpc-unknown-method", "POST", "/" + fxPkg + ".Svc/Nope", "", map[string]string{"Content-Type": "application/grpc+proto", "Te": "trailers"}, grpcFrame(0, enc), true},
		{"grpc-web", "POST", "/" + fxPkg + ".Svc/Unary", "", map[string]string{"Content-Type": "application/grpc-web+proto"}, grpcFrame(0, enc), false},
		{"grpc-web-text", "POST", "/" + fxPkg + ".Svc/Unary", "", map[string]string{"Content-Type": "application/grpc-web-text+proto"}, []byte(base64.StdEncoding.EncodeToString(grpcFrame(0, enc))), false},
		{"escaped-path", "POST", "/c13/unary/a%20b", "", map[string]string{"Content-Type": "application/json"}, []byte(`{}`), false},
	}
	build := func(rq req, prefix string) *http.Request {
		target := prefix + rq.path
		if rq.query != "" {
			target += "?" + rq.query
		}
		r := httptest.NewRequest(rq.method, target, bytes.NewReader(rq.body))
		for k, v := range rq.hdr {
			r.Header.Set(k, v)
		}
		if rq.h2 {
			r.ProtoMajor, r.ProtoMinor = 2, 0
		}
		return r
	}
	for ci, cfg := range configs {
		var opts []larking.ServerOption
		tlsOpt := larking.TLSCredsOption(&tls.Config{MinVersion: tls.VersionTLS12})
		if cfg.tls == "first" {
			opts = append(opts, tlsOpt)
		}
		if cfg.patterns != nil {
			opts = append(opts, larking.MuxHandleOption(cfg.patterns...))
		}
		for i, e := range cfg.extras {
			if cfg.tls == "middle" && i == 1 {
				opts = append(opts, tlsOpt)
			}
			opts = append(opts, larking.HTTPHandlerOption(e.pattern, marker(e.name)))
		}
		if cfg.tls == "last" {
			opts = append(opts, tlsOpt)
		}
		var srv *http.Server
		var err error
		var npn interface{}
		func() {
			defer func() { npn = recover() }()
			srv, err = larking.NewServer(fx.Mux, opts...)
		}()
		cfgS := fmt.Sprintf("patterns=%v extras=%v tls=%q", cfg.patterns, cfg.extras, cfg.tls)
		if npn != nil {
			c.SpecFail("config", cfgS+" (server number "+fmt.Sprint(ci+1)+" of this process)", fmt.Sprint("panic: ", npn), "a server", "C20/new-server-panics", "NewServer panics for a valid configuration (state shared with servers created earlier in the process?)")
			continue
		}
		if err != nil {
			c.SpecFail("config", cfgS, err.Error(), "a server", "C20/config-rejected", "a valid configuration is rejected")
			continue
		}
		h := srv.Handler
		pats, exs := "-", "-"
		if len(cfg.patterns) > 0 {
			pats = strings.Join(cfg.patterns, ";")
		}
		if len(cfg.extras) > 0 {
			var l []string
			for _, e := range cfg.extras {
				l = append(l, e.pattern)
			}
			exs = strings.Join(l, ";")
		}
		mounts := cfg.patterns
		if len(mounts) == 0 {
			mounts = []string{"/"}
		}
		classify := func(resp c20Resp, bare c20Resp) string {
			switch {
			case strings.HasPrefix(resp.body, "extra:"):
				name := strings.SplitN(strings.TrimPrefix(resp.body, "extra:"), " ", 2)[0]
				for i, e := range cfg.extras {
					if e.name == name {
						return fmt.Sprint("extra:", i)
					}
				}
				return "extra:?"
			case resp.code == 404 && resp.body == "404 page not found\n":
				return "none"
			}
			return "mux"
		}
		for _, m := range mounts {
			prefix := strings.TrimSuffix(m, "/")
			for _, rq := range catalogue {
				bare, pn0 := c20Record(fx.Mux, build(rq, ""))
				got, pn := c20Record(h, build(rq, prefix))
				in := fmt.Sprintf("config %d (%s): %s %s%s [%s]", ci, cfgS, rq.method, prefix, rq.path, rq.name)
				c.Eval("mounted", in, true)
				c.Class("mounted:" + rq.name)
				if pn != nil || pn0 != nil {
					c.SpecFail("mounted", in, fmt.Sprint("panic: ", pn, pn0), "a response", "C20/panic", "panic")
					continue
				}
				// model: who serves prefix+path
				who := classify(got, bare)
				model := c.Drv.Ask(join("mount", pats, exs, prefix+strings.ReplaceAll(rq.path, "%20", " ")))
				c.res.Corresponded++
				implWho := who
				if who == "mux" {
					implWho = "mux:" + strings.ReplaceAll(rq.path, "%20", " ") // checked below through the response
				}
				if strings.HasPrefix(model, "mux:") && who == "mux" {
					// the model says which path the mux sees: the bare response for THAT path must be what we got
					seen := strings.TrimPrefix(model, "mux:")
					if seen != strings.ReplaceAll(rq.path, "%20", " ") {
						c.res.NDisagree++
						c.res.Disagree = append(c.res.Disagree, Case{Kind: "mount", Input: in, Impl: implWho, Model: model})
					}
				} else if model != implWho {
					c.res.NDisagree++
					if len(c.res.Disagree) < 25 {
						c.res.Disagree = append(c.res.Disagree, Case{Kind: "mount", Input: in, Impl: implWho, Model: model})
					}
				}
				if strings.HasPrefix(model, "extra:") {
					continue // an extra handler registered below the mount owns this path
				}
				if got.String() != bare.String() {
					c.SpecFail("mounted", in, got.String(), "as the bare mux for "+rq.path+": "+bare.String(), "C20/prefix-not-transparent/"+rq.name, "prefix+path is not served as the bare mux serves path")
				}
			}
		}
		// outside every prefix
		rootMounted := false
		for _, m := range mounts {
			if strings.TrimSuffix(m, "/") == "" {
				rootMounted = true
			}
		}
		for _, p := range []string{"/outside/c13/unary/n1", "/apix/c13/unary/n1", "/ap", "/" + fxPkg + ".Svc/Unary", "/c13/unary/n1"} {
			if rootMounted {
				break
			}
			r := httptest.NewRequest("POST", p, bytes.NewReader([]byte(`{}`)))
			r.Header.Set("Content-Type", "application/json")
			got, _ := c20Record(h, r)
			in := fmt.Sprintf("config %d (%s): POST %s [outside]", ci, cfgS, p)
			c.Eval("outside", in, true)
			c.Class("outside")
			model := c.Drv.Ask(join("mount", pats, exs, p))
			c.res.Corresponded++
			who := classify(got, c20Resp{})
			if who == "mux" && !strings.HasPrefix(model, "mux") || who != "mux" && model != who {
				c.res.NDisagree++
				c.res.Disagree = append(c.res.Disagree, Case{Kind: "mount", Input: in, Impl: who, Model: model})
			}
			if who == "mux" {
				c.SpecFail("outside", in, got.String(), "net/http's 404", "C20/outside-served-by-mux", "a path outside every mount prefix is served by the mux")
			}
		}
		// extras
		for i, e := range cfg.extras {
			p := e.pattern
			if strings.HasSuffix(p, "/") {
				p += "deep/er"
			}
			got, _ := c20Record(h, httptest.NewRequest("GET", p, nil))
			in := fmt.Sprintf("config %d (%s): GET %s [extra %d]", ci, cfgS, p, i)
			c.Eval("extra", in, true)
			c.Class("extra")
			c.Correspond("mount", join("mount", pats, exs, p), classify(got, c20Resp{}), true)
			if !strings.HasPrefix(got.body, "extra:"+e.name+" ") {
				c.SpecFail("extra", in, got.String(), "extra:"+e.name, "C20/extra-handler-lost", "a handler added with HTTPHandlerOption does not receive its own pattern")
			} else if got.body != "extra:"+e.name+" path="+p { // ... and receives the request as it arrived
				c.SpecFail("extra", in, got.String(), "extra:"+e.name+" path="+p, "C20/extra-handler-path-rewritten", "a handler added with HTTPHandlerOption sees a rewritten request path")
			}
		}
	}
	// two servers in one process: neither serves the other's mounts or extra handlers
	{
		tag := func(name string) http.Handler {
			return http.HandlerFunc(func(w http.ResponseWriter, r *http.Request) { fmt.Fprintf(w, "extra:%s %s", name, r.URL.Path) })
		}
		var srvA, srvB *http.Server
		var errA, errB error
		var pnAB interface{}
		func() {
			defer func() { pnAB = recover() }()
			srvA, errA = larking.NewServer(fx.Mux, larking.MuxHandleOption("/srva"), larking.HTTPHandlerOption("/only-a", tag("a")))
			srvB, errB = larking.NewServer(fx.Mux, larking.MuxHandleOption("/srvb"), larking.HTTPHandlerOption("/only-b", tag("b")))
		}()
		c.Eval("two-servers", "NewServer twice, each with one mount and one extra handler", true)
		if pnAB != nil || errA != nil || errB != nil {
			c.SpecFail("two-servers", "NewServer twice, each with one mount and one extra handler", fmt.Sprint(pnAB, errA, errB), "two servers", "C20/two-servers/refused", "a second server cannot be created next to the first")
		} else {
			for _, q := range []struct {
				srv  *http.Server
				path string
				own  bool
			}{{srvA, "/only-a", true}, {srvB, "/only-b", true}, {srvB, "/only-a", false}, {srvA, "/only-b", false}, {srvB, "/srva/c20/ok", false}, {srvA, "/srvb/c20/ok", false}} {
				got, pn := c20Record(q.srv.Handler, httptest.NewRequest("GET", q.path, nil))
				name := map[*http.Server]string{srvA: "A", srvB: "B"}[q.srv]
				in := fmt.Sprintf("server %s: GET %s", name, q.path)
				c.Eval("two-servers", in, true)
				served := pn == nil && got.code != 404
				if q.own && !strings.HasPrefix(got.body, "extra:") {
					c.SpecFail("two-servers", in, got.String(), "its own extra handler", "C20/extra-handler-lost", "a handler added with HTTPHandlerOption does not receive its own pattern")
				} else if !q.own && served {
					c.SpecFail("two-servers", in, got.String(), "404 (not this server's mount or handler)", "C20/two-servers/served-by-the-other", "a server answers a path outside all of its own prefixes and patterns (routes of another server in the process)")
				}
			}
		}
	}
	// option validation
	if _, err := larking.NewServer(nil); err == nil {
		c.SpecFail("config", "NewServer(nil)", "nil error", "an error", "C20/nil-mux-accepted", "")
	}
	if _, err := larking.NewServer(fx.Mux, larking.MuxHandleOption("/a"), larking.MuxHandleOption("/b")); err == nil {
		c.SpecFail("config", "two MuxHandleOption", "nil error", "an error", "C20/duplicate-patterns-accepted", "")
	}
	c.Eval("config", "validation", true)
}
