package main

import (
	"bytes"
	"context"
	"fmt"
	"math/rand"
	"net/http/httptest"
	"strconv"
	"strings"
	"sync"
	"sync/atomic"
	"time"

	"google.golang.org/grpc"
	"larking.io/larking"
)

func init() {
	props["C12"] = runC12
	stressors["C12"] = stressC12
}

// snapshotConsistent: within ONE published state every method is either fully there
// (handlers and every one of its routes) or has no handler.
func snapshotConsistent(u *regUniverse, snap *larking.VerifState) string {
	owners := snap.Owners()
	for _, m := range u.methods {
		if len(owners[u.full(m)]) == 0 {
			continue
		}
		for j := range m.keys {
			vm, _, err := snap.Match(m.samples[j][1], m.samples[j][0])
			if err != nil || vm == nil {
				return fmt.Sprintf("method %d has handlers but its route %s %s does not resolve (%v)", m.id, m.samples[j][0], m.samples[j][1], err)
			}
			if m.keys[j] != 1 && vm.Name != u.full(m) {
				return fmt.Sprintf("route %s leads to %s, not to method %d", m.samples[j][1], vm.Name, m.id)
			}
		}
	}
	// services appear whole: all methods of a service have the same owners
	for _, svc := range u.svcs {
		var ref []string
		for i, m := range u.bySvc(svc) {
			o := owners[u.full(m)]
			if i == 0 {
				ref = o
			} else if strings.Join(o, ",") != strings.Join(ref, ",") {
				return fmt.Sprintf("service %s is half registered: %v vs %v", svc, ref, o)
			}
		}
	}
	return ""
}

func runC12(c *Ctx) {
	c.Rule("(1) sequential histories as in C11 (incl. failing registrations and changed re-registrations) where every published state is kept: after every later call the fingerprint of each kept state (trie, handler lists by identity, connection table) must be unchanged, a failed call must leave the very same published state, and each state must be internally consistent (a service's methods, handlers and routes all together or not at all); (2) a race-detector build of the harness runs registrations, drops and failing registrations concurrently with HTTP and gRPC requests for an already registered service (every request must succeed, every state a reader loads must be consistent, every completed registration must still be there at the end — no lost update, also with a slow reflection round trip overlapping another registration); data race reports are failures. Non-trivial: histories of >= 2 calls / every concurrent check kind.")
	u, err := newRegUniverse()
	if err != nil {
		c.SpecFail("fixture", "c12", err.Error(), "universe", "C12/fixture", "fixture")
		return
	}
	var backends []*regBackend
	for i := 0; i < 4; i++ {
		b, err := newRegBackend(u, i)
		if err != nil {
			c.SpecFail("fixture", "c12 backend", err.Error(), "backend", "C12/fixture", "fixture")
			return
		}
		defer b.close()
		backends = append(backends, b)
	}
	ub, _ := newRegBackend(u, 8)
	defer ub.close()
	masks := []int{1, 2, 3, 4, 8, 16, 17, 18, 24, 9, 10, 6, 5, 15, 11, 27, 31, 26, 19, 32, 34, 48}
	nh := c.N(40, 500)
	for h := 0; h < nh; h++ {
		mux, _ := larking.NewMux(larking.FilesOption(u.fx.Files), larking.TypesOption(u.fx.Types))
		r := &regRun{c: c, u: u, backends: backends, unknown: ub.cc, mux: mux, live: map[int][]string{}, reg: map[int]int{}, hashes: map[string]int{}}
		type kept struct {
			snap *larking.VerifState
			fp   string
			at   int
		}
		var keep []kept
		n := 5 + c.Rng.Intn(10)
		scen := [][3]interface{}{}
		switch h {
		case 0: // two backends, drop the first (in-place filtering would rewrite the kept list)
			scen = [][3]interface{}{{"C", 0, 1}, {"C", 1, 1}, {"C", 2, 1}, {"D", 0, 0}, {"D", 1, 0}}
		case 1: // a second service below an existing variable node, then a failing one
			scen = [][3]interface{}{{"C", 0, 1}, {"C", 1, 2}, {"C", 2, 4}, {"D", 1, 0}, {"C", 3, 16}}
		case 3: // a local service whose streaming half conflicts: nothing of its unary half may stay
			scen = [][3]interface{}{{"S", 0, 0}, {"S", 5, 0}, {"C", 0, 2}, {"S", 5, 0}, {"D", 0, 0}}
		case 4: // dropping what is not registered (never, already dropped) changes nothing — later calls still work
			scen = [][3]interface{}{{"D", 2, 0}, {"C", 0, 1}, {"D", 0, 0}, {"D", 0, 0}, {"C", 1, 2}, {"D", 8, 0}, {"S", 0, 0}}
		case 2: // changed re-registration that fails (drop-and-recreate, then duplicate rule)
			scen = [][3]interface{}{{"S", 0, 0}, {"C", 0, 2}, {"C", 1, 2}, {"C", 0, 6}, {"D", 1, 0}}
		}
		for i := 0; i < n || i < len(scen); i++ {
			before := mux.VerifSnapshot()
			if i < len(scen) {
				r.doOp(scen[i][0].(string), scen[i][1].(int), scen[i][2].(int))
			} else {
				switch x := c.Rng.Intn(20); {
				case x < 2:
					r.doOp("S", c.Rng.Intn(6), 0)
				case x < 12:
					b := c.Rng.Intn(4)
					mask := masks[c.Rng.Intn(len(masks))]
					r.doOp("C", b, mask)
				default:
					b := c.Rng.Intn(4)
					for k := 1; k <= 4; k++ {
						if _, ok := r.reg[(k+b)%4+1]; ok {
							b = (k + b) % 4
							break
						}
					}
					r.doOp("D", b, 0)
				}
			}
			if r.stuck {
				break
			}
			after := mux.VerifSnapshot()
			res := strings.SplitN(r.impl[len(r.impl)-1], "#", 2)[0]
			c.Eval("history", r.hist, len(r.ops) > 1)
			c.Class("op:" + r.ops[len(r.ops)-1][:1] + ":" + res)
			if (res == "err" || res == "false") && !after.Same(before) && after.Fingerprint() != before.Fingerprint() {
				c.SpecFail("atomicity", r.hist, "published state changed", "unchanged", "C12/failed-call-changed-state", "a failed registration / drop of an unknown connection changed the published state")
			}
			if why := snapshotConsistent(u, after); why != "" {
				c.SpecFail("atomicity", r.hist, why, "a consistent state", "C12/inconsistent-state", "a published state is not internally consistent")
			}
			// handlers and the connection table belong together: a handler no connection entry tracks is a
			// local one — as many as RegisterService calls put there
			{
				owners := after.Owners()
				for _, m := range u.methods {
					untracked, local := 0, 0
					for _, o := range owners[u.full(m)] {
						if o == "untracked" {
							untracked++
						}
					}
					for _, o := range r.live[m.id] {
						if o == "L" {
							local++
						}
					}
					if untracked != local {
						c.SpecFail("atomicity", r.hist, fmt.Sprintf("method %d: %d handlers that no connection entry tracks, %d local registrations (owners %v)", m.id, untracked, local, owners[u.full(m)]), "every connection handler tracked by its connection", "C12/inconsistent-state/orphan-handlers", "a published state holds handlers of a connection that its connection table does not track (they can never be removed)")
						break
					}
				}
			}
			// serving requests only READS the published state: a few requests for every served method (the
			// backend pick among several handlers included), then the state must read as it was published
			{
				fpAfter := after.Fingerprint()
				for round := 0; round < 3; round++ {
					for _, m := range u.methods {
						if len(r.live[m.id]) == 0 || m.stream {
							continue
						}
						req := httptest.NewRequest("POST", u.full(m), strings.NewReader("{}"))
						req.Header.Set("Content-Type", "application/json")
						serveOn(mux, req)
					}
				}
				if fp := after.Fingerprint(); fp != fpAfter {
					c.SpecFail("immutability", r.hist+" ; then requests for every served method", firstDiff(fpAfter, fp), "the state as it was published", "C12/request-modified-published-state", "serving a request modified the published state (concurrent requests and later registrations work on it)")
				}
			}
			for _, k := range keep {
				if fp := k.snap.Fingerprint(); fp != k.fp {
					c.SpecFail("immutability", fmt.Sprintf("%s ; state published by call %d, re-read after call %d", r.hist, k.at, len(r.ops)), firstDiff(k.fp, fp), "the state as it was published", "C12/published-state-mutated", "a later call modified a state that had already been published (a reader holding it sees it change)")
				}
			}
			if !after.Same(before) {
				keep = append(keep, kept{after, after.Fingerprint(), len(r.ops)})
			}
		}
		// the whole history against the registry model as well
		line := join("registry", strings.Join(r.ops, "|"))
		model := c.Drv.Ask(line)
		c.res.Corresponded++
		if implS := strings.Join(r.impl, "|"); model != implS {
			c.res.NDisagree++
			if len(c.res.Disagree) < 25 {
				c.res.Disagree = append(c.res.Disagree, Case{Kind: "registry", Input: line, Impl: truncS(implS, 1500), Model: truncS(model, 1500)})
			}
		}
	}
	runStress(c, "C12", c.N(2000, 8000))
}

func firstDiff(a, b string) string {
	i := 0
	for i < len(a) && i < len(b) && a[i] == b[i] {
		i++
	}
	lo := i - 60
	if lo < 0 {
		lo = 0
	}
	hiA, hiB := i+80, i+80
	if hiA > len(a) {
		hiA = len(a)
	}
	if hiB > len(b) {
		hiB = len(b)
	}
	return fmt.Sprintf("at offset %d: was …%s… now …%s…", i, a[lo:hiA], b[lo:hiB])
}

// ---------------------------------------------------------------- child: concurrent scenarios

func stressC12(seed int64, d time.Duration) *StressReport {
	rep := &StressReport{}
	u, err := newRegUniverse()
	if err != nil {
		rep.fail("C12/fixture", "universe", err.Error(), "", "")
		return rep
	}
	var backends []*regBackend
	for i := 0; i < 4; i++ {
		b, err := newRegBackend(u, i)
		if err != nil {
			rep.fail("C12/fixture", "backend", err.Error(), "", "")
			return rep
		}
		defer b.close()
		backends = append(backends, b)
	}
	mux, _ := larking.NewMux(larking.FilesOption(u.fx.Files), larking.TypesOption(u.fx.Types))
	// SvcA is served locally throughout
	if err, p := u.fx.registerOneOn(mux, "SvcA"); err != nil || p != nil {
		rep.fail("C12/fixture", "register SvcA", fmt.Sprint(err, p), "", "")
		return rep
	}
	srv, _ := larking.NewServer(mux)
	lis, _ := listenLocal()
	go srv.Serve(lis) //nolint
	defer srv.Close()
	gcc, _ := grpc.NewClient(lis.Addr().String(), grpcInsecure())
	defer gcc.Close()

	stop := make(chan struct{})
	var wg sync.WaitGroup
	var served, states int64
	// readers
	for g := 0; g < 4; g++ {
		wg.Add(1)
		go func(g int) {
			defer wg.Done()
			m1 := u.methods[0]
			for i := 0; ; i++ {
				select {
				case <-stop:
					return
				default:
				}
				switch i % 3 {
				case 0:
					rec, pn := serveOn(mux, httptest.NewRequest("GET", m1.samples[1][1], nil))
					if pn != nil || rec.Code != 200 {
						rep.fail("C12/registered-method-failed-during-registration", "GET "+m1.samples[1][1]+" while other services are registered and dropped", fmt.Sprint(rec.Code, " ", pn, " ", truncS(rec.Body.String(), 100)), "200", "a request for an already registered method failed while registration ran concurrently")
					}
					atomic.AddInt64(&served, 1)
				case 1:
					req := httptest.NewRequest("POST", u.full(m1), bytes.NewReader([]byte("{}")))
					req.Header.Set("Content-Type", "application/json")
					rec, pn := serveOn(mux, req)
					if pn != nil || rec.Code != 200 {
						rep.fail("C12/registered-method-failed-during-registration", "POST "+u.full(m1), fmt.Sprint(rec.Code, " ", pn), "200", "a request for an already registered method failed while registration ran concurrently")
					}
					atomic.AddInt64(&served, 1)
				case 2:
					if g == 0 {
						ctx, cancel := context.WithTimeout(context.Background(), 3*time.Second)
						in, out := u.fx.NewMsg("Req"), u.fx.NewMsg("Reply")
						if err := gcc.Invoke(ctx, u.full(m1), in, out); err != nil {
							rep.fail("C12/registered-method-failed-during-registration", "gRPC "+u.full(m1), err.Error(), "OK", "a gRPC call for an already registered method failed while registration ran concurrently")
						}
						cancel()
						atomic.AddInt64(&served, 1)
					} else {
						snap := mux.VerifSnapshot()
						if why := snapshotConsistent(u, snap); why != "" {
							rep.fail("C12/inconsistent-state-observed", "a state loaded while registrations are running", why, "all together or not at all", "registration work in progress was observable")
						}
						atomic.AddInt64(&states, 1)
					}
				}
			}
		}(g)
	}
	// a route whose method comes and goes with the writers' connections (SvcB.M3 has exactly one
	// deletable rule): one consistent state answers 200 or 404, never "route found, no handler"
	longQuery := strings.Repeat("rs=v&", 30000) + "rs=last" // tens of thousands of parameters: resolving them takes milliseconds
	var flapping int64
	for g := 0; g < 2; g++ {
		wg.Add(1)
		go func() {
			defer wg.Done()
			m3 := u.methods[2]
			for {
				select {
				case <-stop:
					return
				default:
				}
				rec, pn := serveOn(mux, httptest.NewRequest("GET", m3.samples[1][1]+"?"+longQuery, nil))
				if pn != nil || (rec.Code != 200 && rec.Code != 404) {
					rep.fail("C12/request-resolved-against-two-states", "GET "+m3.samples[1][1]+"?rs=v&… (30000 parameters) while the owning connections are registered and dropped", fmt.Sprint(rec.Code, " ", pn, " ", truncS(rec.Body.String(), 100)), "200 or 404", "the route was matched in one published state and the handler picked from another")
				}
				atomic.AddInt64(&flapping, 1)
			}
		}()
	}
	// writers: each owns one backend, so its last successful call determines that backend's entry
	type last struct {
		mask int
		reg  bool
	}
	finals := make([]last, 3)
	var ops int64
	for w := 0; w < 3; w++ {
		wg.Add(1)
		go func(w int) {
			defer wg.Done()
			rng := rand.New(rand.NewSource(seed*31 + int64(w)))
			b := backends[w]
			var hist []string
			masks := []int{2, 8, 16, 10, 24, 18, 4, 6} // never SvcA's routes... 4 and 6 (SvcC) conflict with the local SvcA and fail
			for {
				select {
				case <-stop:
					return
				default:
				}
				ctx, cancel := context.WithTimeout(context.Background(), 5*time.Second)
				if rng.Intn(3) > 0 {
					mask := masks[rng.Intn(len(masks))]
					b.mask.Store(int64(mask))
					err := mux.RegisterConn(ctx, b.cc)
					hist = append(hist, fmt.Sprintf("C%d:%v", mask, err == nil))
					conflict := mask&4 != 0
					switch {
					case err == nil && conflict:
						rep.fail("C12/conflicting-registration-accepted", fmt.Sprintf("RegisterConn mask %d next to local SvcA", mask), "nil", "duplicate rule", "")
					case err != nil && !conflict:
						rep.fail("C12/registration-failed", fmt.Sprintf("RegisterConn mask %d", mask), err.Error(), "nil", "a valid registration failed under concurrency")
					case err == nil:
						finals[w] = last{mask, true}
					}
					// a failed changed re-registration leaves the previous entry (the clone is dropped)
				} else {
					ok := mux.DropConn(ctx, b.cc)
					hist = append(hist, fmt.Sprintf("D:%v", ok))
					if ok != finals[w].reg {
						rep.fail("C12/drop-return", fmt.Sprintf("DropConn of backend %d after %v", w, hist[max(0, len(hist)-8):]), fmt.Sprint(ok), fmt.Sprint(finals[w].reg), "DropConn's result does not match this writer's own history (another writer's update interfered)")
					}
					finals[w] = last{}
				}
				cancel()
				atomic.AddInt64(&ops, 1)
			}
		}(w)
	}
	time.Sleep(d)
	close(stop)
	wg.Wait()
	// no lost update: every writer's last successful call is what the final state holds
	conns := mux.VerifSnapshot().Conns()
	for w := 0; w < 3; w++ {
		vc, ok := conns[backends[w].cc.Target()]
		if ok != finals[w].reg {
			rep.fail("C12/lost-update", fmt.Sprintf("writer %d finished with registered=%v mask=%d", w, finals[w].reg, finals[w].mask), fmt.Sprintf("final state has entry=%v", ok), "the writer's last completed call", "a completed registration / drop is not reflected in the final state")
			continue
		}
		if ok {
			want := 0
			for i, svc := range u.svcs {
				if finals[w].mask&(1<<i) != 0 {
					want += len(u.bySvc(svc))
				}
			}
			if len(vc.Methods) != want {
				rep.fail("C12/lost-update", fmt.Sprintf("writer %d last registered mask %d", w, finals[w].mask), fmt.Sprintf("%d methods tracked", len(vc.Methods)), strconv.Itoa(want), "the final entry is not the writer's last registration")
			}
		}
	}
	if len(mux.VerifSnapshot().Owners()[u.full(u.methods[0])]) != 1 {
		rep.fail("C12/lost-update", "local SvcA registered before the run", fmt.Sprint(mux.VerifSnapshot().Owners()[u.full(u.methods[0])]), "[untracked]", "the local service vanished or was duplicated")
	}
	rep.eval("requests-during-registration", int(served))
	rep.eval("states-observed", int(states))
	rep.eval("concurrent-writer-calls", int(ops))
	rep.eval("requests-on-a-flapping-route", int(flapping))

	// slow reflection overlapping another registration (lost update window)
	for round := 0; round < 3; round++ {
		mux2, _ := larking.NewMux(larking.FilesOption(u.fx.Files), larking.TypesOption(u.fx.Types))
		slow := backends[3]
		slow.mask.Store(2)
		slow.delay.Store(int64(120 * time.Millisecond))
		errc := make(chan error, 1)
		go func() {
			ctx, cancel := context.WithTimeout(context.Background(), 5*time.Second)
			defer cancel()
			errc <- mux2.RegisterConn(ctx, slow.cc)
		}()
		time.Sleep(time.Duration(20+40*round) * time.Millisecond)
		err1, p := u.fx.registerOneOn(mux2, "SvcE")
		err2 := <-errc
		slow.delay.Store(0)
		own := mux2.VerifSnapshot().Owners()
		if err1 != nil || p != nil || err2 != nil {
			rep.fail("C12/registration-failed", "RegisterConn (slow reflection) overlapping RegisterService", fmt.Sprint(err1, p, err2), "both succeed", "")
		} else if len(own[u.full(u.methods[6])]) != 1 || len(own[u.full(u.methods[2])]) != 1 {
			rep.fail("C12/lost-update", "RegisterConn(SvcB, reflection delayed 120 ms) overlapping RegisterService(SvcE); both returned nil", fmt.Sprintf("SvcE handlers=%v SvcB handlers=%v", own[u.full(u.methods[6])], own[u.full(u.methods[2])]), "both registered", "one of two overlapping successful registrations is missing from the published state")
		}
		rep.eval("overlapping-registrations", 1)
	}
	// a registration that waits for its backend (reflection delayed 300 ms) while a gRPC-web call
	// for a method registered all along arrives: the call is served from the published state and
	// does not wait for the writer
	{
		mux3, _ := larking.NewMux(larking.FilesOption(u.fx.Files), larking.TypesOption(u.fx.Types))
		if err, p := u.fx.registerOneOn(mux3, "SvcA"); err != nil || p != nil {
			rep.fail("C12/fixture", "register SvcA", fmt.Sprint(err, p), "", "")
			return rep
		}
		slow := backends[3]
		waited := 0
		var detail string
		const rounds = 3
		for round := 0; round < rounds; round++ {
			slow.mask.Store(2)
			slow.delay.Store(int64(300 * time.Millisecond))
			var regDone atomic.Bool
			errc := make(chan error, 1)
			go func() {
				ctx, cancel := context.WithTimeout(context.Background(), 5*time.Second)
				defer cancel()
				err := mux3.RegisterConn(ctx, slow.cc)
				regDone.Store(true)
				errc <- err
			}()
			time.Sleep(60 * time.Millisecond)
			inFlight := !regDone.Load()
			t0 := time.Now()
			req := httptest.NewRequest("POST", u.full(u.methods[0]), bytes.NewReader([]byte{0, 0, 0, 0, 0}))
			req.Header.Set("Content-Type", "application/grpc-web+proto")
			rec, pn := serveOn(mux3, req)
			el := time.Since(t0)
			if pn != nil || rec.Code != 200 {
				rep.fail("C12/registered-method-failed-during-registration", "gRPC-web "+u.full(u.methods[0])+" while RegisterConn waits for its backend", fmt.Sprint(rec.Code, " ", pn), "200", "a request for an already registered method failed while a registration was in progress")
			}
			if inFlight && regDone.Load() && el > 150*time.Millisecond {
				waited++
				detail = fmt.Sprintf("the call took %v and returned only after the registration had finished", el.Round(time.Millisecond))
			}
			<-errc
			slow.delay.Store(0)
			ctx, cancel := context.WithTimeout(context.Background(), 5*time.Second)
			mux3.DropConn(ctx, slow.cc)
			cancel()
			rep.eval("requests-while-a-registration-waits", 1)
		}
		if waited == rounds {
			rep.fail("C12/request-waits-for-registration", "gRPC-web "+u.full(u.methods[0])+" (registered all along) sent 60 ms into a RegisterConn whose backend answers reflection after 300 ms; "+strconv.Itoa(rounds)+" rounds", detail+" (every round)", "served at once from the published state", "requests for registered methods make no progress while a registration is in progress: the writer's work is observable")
		}
	}
	return rep
}
