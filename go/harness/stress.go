package main

import (
	"bytes"
	"encoding/json"
	"fmt"
	"os"
	"os/exec"
	"path/filepath"
	"regexp"
	"strings"
	"sync"
	"time"
)

// StressReport is what a stress child prints.
type StressReport struct {
	Evals    int            `json:"evals"`
	Classes  map[string]int `json:"classes"`
	Failures []StressFail   `json:"failures"`
	mu       sync.Mutex
}

type StressFail struct {
	Key, Input, Observed, Expected, Note string
}

func (r *StressReport) fail(key, input, observed, expected, note string) {
	r.mu.Lock()
	defer r.mu.Unlock()
	n := 0
	for _, f := range r.Failures {
		if f.Key == key {
			n++
		}
	}
	if n < 3 {
		r.Failures = append(r.Failures, StressFail{key, input, observed, expected, note})
	}
}

func (r *StressReport) eval(class string, n int) {
	r.mu.Lock()
	r.Evals += n
	if r.Classes == nil {
		r.Classes = map[string]int{}
	}
	r.Classes[class] += n
	r.mu.Unlock()
}

var raceFrame = regexp.MustCompile(`(?m)^  (larking\.io/larking\.[^\s(]+)`)

// runStress executes the race-enabled child and folds its findings (including data race
// reports of the Go race detector) into the result.
func runStress(c *Ctx, prop string, millis int) {
	bin := os.Getenv("VERIF_RACE_BIN")
	if bin == "" { // next to this binary: the pair is built together by bin/check
		bin = "/verif/.build/harness-race"
		if exe, err := os.Executable(); err == nil {
			bin = filepath.Join(filepath.Dir(exe), "harness-race")
		}
	}
	if _, err := os.Stat(bin); err != nil {
		c.SpecFail("stress", bin, "race-enabled harness binary missing", "built by bin/check", prop+"/stress-binary-missing", "the concurrent part of the check could not run")
		return
	}
	cmd := exec.Command(bin, "stress", "--prop", prop, "--seed", fmt.Sprint(c.Seed), "--millis", fmt.Sprint(millis))
	cmd.Env = append(os.Environ(), "GORACE=halt_on_error=0 exitcode=0 history_size=2")
	var stdout, stderr bytes.Buffer
	cmd.Stdout, cmd.Stderr = &stdout, &stderr
	done := make(chan error, 1)
	if err := cmd.Start(); err != nil {
		c.SpecFail("stress", bin, err.Error(), "child runs", prop+"/stress-start", "the concurrent part of the check could not run")
		return
	}
	go func() { done <- cmd.Wait() }()
	select {
	case err := <-done:
		if err != nil {
			tail := stderr.String()
			if len(tail) > 3000 {
				tail = tail[len(tail)-3000:]
			}
			key := prop + "/stress-crash"
			if strings.Contains(tail, "concurrent map") {
				key = prop + "/concurrent-map-access"
			}
			c.SpecFail("stress", "stress child, seed "+fmt.Sprint(c.Seed), err.Error()+"\n"+tail, "clean exit", key, "the process under concurrent load crashed")
		}
	case <-time.After(time.Duration(millis)*time.Millisecond*8 + 60*time.Second):
		cmd.Process.Kill()
		c.SpecFail("stress", "stress child, seed "+fmt.Sprint(c.Seed), "no result within the watchdog", "termination", prop+"/stress-hang", "the concurrent scenario did not terminate")
		return
	}
	var rep StressReport
	lines := strings.Split(strings.TrimSpace(stdout.String()), "\n")
	if err := json.Unmarshal([]byte(lines[len(lines)-1]), &rep); err != nil {
		c.SpecFail("stress", "stress child output", truncS(stdout.String(), 500), "a JSON report", prop+"/stress-report", "the concurrent part produced no report")
		return
	}
	for k, n := range rep.Classes {
		c.res.Classes["stress:"+k] += n
	}
	c.res.Evaluations += rep.Evals
	for k := range rep.Classes { // one distinct non-trivial case per kind of concurrent check
		c.count("stress", fmt.Sprintf("%s seed=%d %s", prop, c.Seed, k), true)
		c.res.Evaluations--
	}
	for _, f := range rep.Failures {
		c.SpecFail("stress", f.Input, f.Observed, f.Expected, f.Key, f.Note)
	}
	// data races
	reports := strings.Split(stderr.String(), "WARNING: DATA RACE")
	for _, r := range reports[1:] {
		if i := strings.Index(r, "=================="); i > 0 {
			r = r[:i]
		}
		var frames []string
		for _, m := range raceFrame.FindAllStringSubmatch(r, -1) {
			f := strings.TrimPrefix(m[1], "larking.io/larking.")
			if len(frames) == 0 || frames[len(frames)-1] != f {
				frames = append(frames, f)
			}
			if len(frames) == 2 {
				break
			}
		}
		c.SpecFail("race", "stress child, seed "+fmt.Sprint(c.Seed), truncS(r, 2500), "no data race", prop+"/data-race/"+strings.Join(frames, "+"), "the Go race detector reports a data race")
	}
}

func truncS(s string, n int) string {
	if len(s) > n {
		return s[:n] + "…"
	}
	return s
}
